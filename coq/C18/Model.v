(* C18/Model.v — the resource pool as a transition system over its critical sections.
   Executable definitions only.
   Source: internal/mithril-resource-pool/src/resource_pool.rs (ResourcePool, ResourcePoolItem),
           mithril-aggregator/src/services/prover.rs, prover_legacy.rs
           (compute_cache: clear_and_increment_discriminant, then `size` x give_back_resource;
            compute proofs: acquire_resource ... give_back_resource_pool_item, or Drop of the item).

   Shared state: the discriminant (generation), the FIFO queue of idle resources, the size.
   Every thread is a small program whose steps are exactly the critical sections of the code
   (the code between two `#[cfg(mithril_verif)]` yield points); a mutex critical section is
   atomic.  Any number of threads, any interleaving: a schedule is a list of events.

     acquire_resource               { lock queue; empty -> wait on the condvar (Waiting)
                                      | pop front; read discriminant (the item's tag) }
     woken waiter                   { relock queue; empty -> wait again | pop; read discriminant }
     Drop / give_back_resource_pool_item / give_back_resource(new, g)
                                    stop in the resource's reset callback, no lock held (GBReset)
       then                         { reset the resource }  (local; stop at the yield point, GBPush)
       then give_back_resource      { lock queue; len >= size -> discard; discriminant <> tag -> discard
                                      | push back; notify_one }
       a discarded resource         is dropped after the queue lock is released: stop in its drop
                                    callback (GBDiscard), then the operation ends
     compute_cache                  { lock queue; lock discriminant; += 1; clear = drop every queued
                                      resource, inside both locks }  (one section)
       then size x give_back_resource(new resource, new discriminant)
     clear_and_increment_discriminant alone: the same section, nothing after it
     reset_available_resources      { lock queue; reset every queued resource, inside the lock }
     clear                          { lock queue; drop every queued resource, inside the lock }
     set_discriminant d             { lock discriminant; := d }

   Callbacks.  The pool calls back into the pooled value: [Reset::reset] (give_back_resource, before
   the queue lock; reset_available_resources, under the queue lock) and [Drop::drop] (the resources
   drained by clear / clear_and_increment_discriminant, under the lock(s) held there; a resource
   that give_back_resource does not push, after the queue lock has been released).  A callback
   that runs while no pool lock is held is a point where every other thread can run: it ends the
   step (pcs [GBReset], [GBDiscard]).  A callback under a lock is inside the critical section:
   [step_cbs] lists, for every step, the callbacks it runs and the locks held around each.

   Legacy / public entry points next to the provers' ones: clear, clear_and_increment_discriminant
   alone, set_discriminant, give_back_resource of a resource built for an arbitrary generation and
   tagged with it.

   Ghost data: [built_for] is the generation a resource was created for, [rid] identifies it,
   [dirty] says it was written to since its last reset. *)
From MV Require Import Base.Prelude.
Open Scope N_scope.

Record res := { rid : N; built_for : N; dirty : bool }.
Record pool := { disc : N; queue : list res; size : N }.

(* what a thread does after the give-back in progress *)
Inductive cont := CIdle | CFill (g k : N).          (* k more resources of generation g to give back *)

Inductive pc :=
| Idle
| Waiting                                   (* blocked in not_empty.wait_timeout; queue lock released *)
| Woken                                     (* notified (or spuriously woken): must relock and test again *)
| Holding (r : res) (tag : N)               (* owns a ResourcePoolItem *)
| GBReset (r : res) (tag : N) (c : cont)    (* give_back_resource: inside Reset::reset of the resource, no lock held *)
| GBPush (r : res) (tag : N) (c : cont)     (* give_back_resource after reset(), before taking the queue lock *)
| GBDiscard (r : res) (c : cont).           (* give_back_resource did not push: queue lock released, inside the
                                               Drop of the discarded resource *)

(* what the scheduler's step means for an idle thread / for a thread that holds an item *)
Inductive ichoice :=
| CiNone | CiAcquire | CiRefresh | CiReset
| CiClear                 (* clear() *)
| CiBump                  (* clear_and_increment_discriminant() alone *)
| CiSetDisc (d : N)       (* set_discriminant(d) *)
| CiGive (g : N).         (* give_back_resource(new resource built for g, g) *)
Inductive hchoice := ChNone | ChDrop | ChGiveItem | ChUse.

Inductive ev :=
| Step (t : nat) (ci : ichoice) (ch : hchoice) (wake : nat)   (* t runs its next critical section; [wake]: the
                                                                  thread notify_one picks if this step pushes *)
| Timeout (t : nat)                                             (* t's wait_timeout expires *)
| Spurious (t : nat).                                           (* t wakes up without a notification *)

Inductive out := ONone | OHandout (r : res) (tag : N) | OTimeout.

Definition reset_res (r : res) : res := {| rid := rid r; built_for := built_for r; dirty := false |}.
Definition use_res (r : res) : res := {| rid := rid r; built_for := built_for r; dirty := true |}.

Definition set_queue (p : pool) (q : list res) : pool := {| disc := disc p; queue := q; size := size p |}.

(* next give-back of a refresh: create the resource (fresh id), enter give_back_resource, stop in
   its reset callback *)
Definition start_fill (g k fresh : N) : pc * N :=
  if k =? 0 then (Idle, fresh)
  else (GBReset {| rid := fresh; built_for := g; dirty := false |} g (CFill g (k - 1)), fresh + 1).
Definition after (c : cont) (fresh : N) : pc * N :=
  match c with CIdle => (Idle, fresh) | CFill g k => start_fill g k fresh end.

(* lock the queue, pop or wait *)
Definition pop_or_wait (p : pool) : pool * pc * out :=
  match queue p with
  | r :: q => (set_queue p q, Holding r (disc p), OHandout r (disc p))
  | [] => (p, Waiting, ONone)
  end.

Definition is_full (p : pool) : bool := size p <=? N.of_nat (length (queue p)).

(* one critical section of one thread: new pool, new fresh counter, new pc, output, "pushed" *)
Definition step (p : pool) (fresh : N) (s : pc) (ci : ichoice) (ch : hchoice)
  : pool * N * pc * out * bool :=
  match s with
  | Idle =>
    match ci with
    | CiNone => (p, fresh, Idle, ONone, false)
    | CiAcquire => let '(p', s', o) := pop_or_wait p in (p', fresh, s', o, false)
    | CiRefresh =>
        let g := disc p + 1 in
        let '(s', fresh') := start_fill g (size p) fresh in
        ({| disc := g; queue := []; size := size p |}, fresh', s', ONone, false)
    | CiReset => (set_queue p (map reset_res (queue p)), fresh, Idle, ONone, false)
    | CiClear => (set_queue p [], fresh, Idle, ONone, false)
    | CiBump => ({| disc := disc p + 1; queue := []; size := size p |}, fresh, Idle, ONone, false)
    | CiSetDisc d => ({| disc := d; queue := queue p; size := size p |}, fresh, Idle, ONone, false)
    | CiGive g => (p, fresh + 1, GBReset {| rid := fresh; built_for := g; dirty := false |} g CIdle, ONone, false)
    end
  | Waiting => (p, fresh, Waiting, ONone, false)
  | Woken => let '(p', s', o) := pop_or_wait p in (p', fresh, s', o, false)
  | Holding r tag =>
    match ch with
    | ChNone => (p, fresh, s, ONone, false)
    | ChDrop | ChGiveItem => (p, fresh, GBReset r tag CIdle, ONone, false)
    | ChUse => (p, fresh, Holding (use_res r) tag, ONone, false)
    end
  | GBReset r tag c => (p, fresh, GBPush (reset_res r) tag c, ONone, false)
  | GBPush r tag c =>
    if is_full p then (p, fresh, GBDiscard r c, ONone, false)
    else if negb (disc p =? tag) then (p, fresh, GBDiscard r c, ONone, false)
    else let '(s', fresh') := after c fresh in (set_queue p (queue p ++ [r]), fresh', s', ONone, true)
  | GBDiscard r c => let '(s', fresh') := after c fresh in (p, fresh', s', ONone, false)
  end.

(* ---- callbacks: which Reset::reset / Drop::drop calls a step makes, and under which locks ---- *)
Inductive cbkind := CbReset | CbDrop.
Record cb := { cb_kind : cbkind; cb_rid : N; cb_qlock : bool; cb_dlock : bool }.
Definition mkcb (k : cbkind) (ql dl : bool) (r : res) : cb :=
  {| cb_kind := k; cb_rid := rid r; cb_qlock := ql; cb_dlock := dl |}.
(* the callback in which the thread stops at the end of its step, if any (no lock held) *)
Definition pc_cb (s : pc) : list cb :=
  match s with
  | GBReset r _ _ => [mkcb CbReset false false r]
  | GBDiscard r _ => [mkcb CbDrop false false r]
  | _ => []
  end.
Definition step_cbs (p : pool) (fresh : N) (s : pc) (ci : ichoice) (ch : hchoice) : list cb :=
  let '(_, _, s', _, _) := step p fresh s ci ch in
  match s with
  | Idle =>
    match ci with
    | CiRefresh | CiBump => map (mkcb CbDrop true true) (queue p) ++ pc_cb s'
    | CiClear => map (mkcb CbDrop true false) (queue p)
    | CiReset => map (mkcb CbReset true false) (queue p)
    | CiGive _ => pc_cb s'
    | _ => []
    end
  | Waiting => []
  | _ => pc_cb s'
  end.

(* ---- global state: any number of threads ---- *)
Record gstate := { pl : pool; fresh_id : N; ths : list pc }.

Fixpoint set_nth {A} (l : list A) (i : nat) (x : A) : list A :=
  match l, i with
  | [], _ => []
  | _ :: r, O => x :: r
  | a :: r, S j => a :: set_nth r j x
  end.

Definition is_waiting (s : pc) : bool := match s with Waiting => true | _ => false end.
Definition is_woken (s : pc) : bool := match s with Woken => true | _ => false end.

(* notify_one: wakes one waiting thread if there is one — the preferred one if it is waiting,
   otherwise the first waiting thread *)
Fixpoint wake_first (l : list pc) : list pc :=
  match l with
  | [] => []
  | Waiting :: r => Woken :: r
  | a :: r => a :: wake_first r
  end.
Definition notify_one (l : list pc) (w : nat) : list pc :=
  match nth_error l w with
  | Some Waiting => set_nth l w Woken
  | _ => wake_first l
  end.

Definition gstep (s : gstate) (e : ev) : gstate * out :=
  match e with
  | Step t ci ch w =>
    match nth_error (ths s) t with
    | Some c =>
      let '(p', f', c', o, pushed) := step (pl s) (fresh_id s) c ci ch in
      let l := set_nth (ths s) t c' in
      ({| pl := p'; fresh_id := f'; ths := if pushed then notify_one l w else l |}, o)
    | None => (s, ONone)
    end
  | Timeout t =>
    match nth_error (ths s) t with
    | Some Waiting => ({| pl := pl s; fresh_id := fresh_id s; ths := set_nth (ths s) t Idle |}, OTimeout)
    | _ => (s, ONone)
    end
  | Spurious t =>
    match nth_error (ths s) t with
    | Some Waiting => ({| pl := pl s; fresh_id := fresh_id s; ths := set_nth (ths s) t Woken |}, ONone)
    | _ => (s, ONone)
    end
  end.

Fixpoint exec (s : gstate) (sched : list ev) : gstate :=
  match sched with
  | [] => s
  | e :: r => exec (fst (gstep s e)) r
  end.

(* post-state and output of every event *)
Fixpoint trace (s : gstate) (sched : list ev) : list (gstate * out) :=
  match sched with
  | [] => []
  | e :: r => let x := gstep s e in x :: trace (fst x) r
  end.

Definition init (sz : N) (q0 : list res) (n : nat) : gstate :=
  {| pl := {| disc := 0; queue := q0; size := sz |}; fresh_id := 100; ths := repeat Idle n |}.

(* ---- observation for the correspondence channel ---- *)
Definition ev_thread (e : ev) : nat := match e with Step t _ _ _ | Timeout t | Spurious t => t end.
Definition status_code (s : option pc) : N :=
  match s with
  | Some Idle => 0 | Some (Holding _ _) => 1 | Some (GBPush _ _ _) => 2
  | Some Waiting => 3 | Some Woken => 4 | Some (GBReset _ _ _) => 5 | Some (GBDiscard _ _) => 6 | None => 9
  end.
Definition obs_out (o : out) : obs :=
  match o with
  | ONone => OL []
  | OHandout r tag => OL [ON (rid r); ON (built_for r); OB (dirty r); ON tag]
  | OTimeout => OL [OZ 1]
  end.
(* the count is observed only when no wake-up is in flight (the implementation cannot stop a
   woken thread between its notification and its pop) *)
Definition gstep_cbs (s : gstate) (e : ev) : list cb :=
  match e with
  | Step t ci ch _ =>
    match nth_error (ths s) t with
    | Some c => step_cbs (pl s) (fresh_id s) c ci ch
    | None => []
    end
  | _ => []
  end.
Fixpoint trace_cbs (s : gstate) (sched : list ev) : list (list cb) :=
  match sched with
  | [] => []
  | e :: r => gstep_cbs s e :: trace_cbs (fst (gstep s e)) r
  end.
Definition obs_cb (c : cb) : obs :=
  OL [ON (match cb_kind c with CbReset => 0 | CbDrop => 1 end); ON (cb_rid c); OB (cb_qlock c); OB (cb_dlock c)].
Definition obs_event (e : ev) (x : gstate * out) (cbs : list cb) : obs :=
  let s := fst x in
  OL [ (if existsb is_woken (ths s) then OL [] else OL [ON (N.of_nat (length (queue (pl s))))]);
       ON (disc (pl s));
       ON (status_code (nth_error (ths s) (ev_thread e)));
       obs_out (snd x);
       OL (map obs_cb cbs) ].

Fixpoint initial_queue (k : nat) (from : N) : list res :=
  match k with
  | O => []
  | S k' => {| rid := from; built_for := 0; dirty := false |} :: initial_queue k' (from + 1)
  end.

Definition run (sz : N) (n_init n_threads : nat) (sched : list ev) : obs :=
  let s0 := init sz (initial_queue n_init 1) n_threads in
  let tr := trace s0 sched in
  OL [ OL (map (fun ex => obs_event (fst (fst ex)) (snd (fst ex)) (snd ex)) (combine (combine sched tr) (trace_cbs s0 sched)));
       OL (map (fun r => OL [ON (rid r); ON (built_for r)]) (queue (pl (exec s0 sched)))) ].

(* ---- the pool calls made by the two provers (checked against the source text by the harness) ----
   method codes: 0 size, 1 clear_and_increment_discriminant, 2 give_back_resource,
   3 acquire_resource, 4 give_back_resource_pool_item, 5 set_discriminant, 6 clear,
   7 discriminant, 8 count, 9 reset_available_resources.
   compute_cache calls size, clear_and_increment_discriminant, give_back_resource in this order;
   the rest of the file only acquires and gives items back (or lets them drop). *)
Definition prover_calls : obs := OL [OL [OZ 0; OZ 1; OZ 2]; OL [OZ 3; OZ 4]].
