(* C18/Model.v — the resource pool as a transition system over its critical sections.
   Executable definitions only.
   Source: internal/mithril-resource-pool/src/resource_pool.rs (ResourcePool, ResourcePoolItem),
           mithril-aggregator/src/services/prover.rs, prover_legacy.rs
           (compute_cache: clear_and_increment_discriminant, then `size` x give_back_resource;
            compute proofs: acquire_resource ... give_back_resource_pool_item, or Drop of the item).

   Shared state: the discriminant (generation), the FIFO queue of idle resources, the size.
   Every thread is a small program whose steps are exactly the critical sections of the code
   (the code between two `#[cfg(mithril_verif)]` yield points); a mutex critical section is
   atomic.  Any number of threads, any interleaving: a schedule is a list of events.

     acquire_resource               { lock queue; empty -> wait on the condvar (Waiting)
                                      | pop front; read discriminant (the item's tag) }
     woken waiter                   { relock queue; empty -> wait again | pop; read discriminant }
     Drop / give_back_resource_pool_item
                                    { reset the resource }  (local)
       then give_back_resource      { lock queue; len >= size -> discard; discriminant <> tag -> discard
                                      | push back; notify_one }
     compute_cache                  { lock queue; lock discriminant; += 1; clear }  (one section)
       then size x give_back_resource(new resource, new discriminant)
     reset_available_resources      { lock queue; reset every queued resource }

   Ghost data: [built_for] is the generation a resource was created for, [rid] identifies it,
   [dirty] says it was written to since its last reset. *)
From MV Require Import Base.Prelude.
Open Scope N_scope.

Record res := { rid : N; built_for : N; dirty : bool }.
Record pool := { disc : N; queue : list res; size : N }.

(* what a thread does after the give-back in progress *)
Inductive cont := CIdle | CFill (g k : N).          (* k more resources of generation g to give back *)

Inductive pc :=
| Idle
| Waiting                                   (* blocked in not_empty.wait_timeout; queue lock released *)
| Woken                                     (* notified (or spuriously woken): must relock and test again *)
| Holding (r : res) (tag : N)               (* owns a ResourcePoolItem *)
| GBPush (r : res) (tag : N) (c : cont).    (* give_back_resource after reset(), before taking the queue lock *)

(* what the scheduler's step means for an idle thread / for a thread that holds an item *)
Inductive ichoice := CiNone | CiAcquire | CiRefresh | CiReset.
Inductive hchoice := ChNone | ChDrop | ChGiveItem | ChUse.

Inductive ev :=
| Step (t : nat) (ci : ichoice) (ch : hchoice) (wake : nat)   (* t runs its next critical section; [wake]: the
                                                                  thread notify_one picks if this step pushes *)
| Timeout (t : nat)                                             (* t's wait_timeout expires *)
| Spurious (t : nat).                                           (* t wakes up without a notification *)

Inductive out := ONone | OHandout (r : res) (tag : N) | OTimeout.

Definition reset_res (r : res) : res := {| rid := rid r; built_for := built_for r; dirty := false |}.
Definition use_res (r : res) : res := {| rid := rid r; built_for := built_for r; dirty := true |}.

Definition set_queue (p : pool) (q : list res) : pool := {| disc := disc p; queue := q; size := size p |}.

(* next give-back of a refresh: create the resource (fresh id), reset it, stop before the lock *)
Definition start_fill (g k fresh : N) : pc * N :=
  if k =? 0 then (Idle, fresh)
  else (GBPush {| rid := fresh; built_for := g; dirty := false |} g (CFill g (k - 1)), fresh + 1).
Definition after (c : cont) (fresh : N) : pc * N :=
  match c with CIdle => (Idle, fresh) | CFill g k => start_fill g k fresh end.

(* lock the queue, pop or wait *)
Definition pop_or_wait (p : pool) : pool * pc * out :=
  match queue p with
  | r :: q => (set_queue p q, Holding r (disc p), OHandout r (disc p))
  | [] => (p, Waiting, ONone)
  end.

Definition is_full (p : pool) : bool := size p <=? N.of_nat (length (queue p)).

(* one critical section of one thread: new pool, new fresh counter, new pc, output, "pushed" *)
Definition step (p : pool) (fresh : N) (s : pc) (ci : ichoice) (ch : hchoice)
  : pool * N * pc * out * bool :=
  match s with
  | Idle =>
    match ci with
    | CiNone => (p, fresh, Idle, ONone, false)
    | CiAcquire => let '(p', s', o) := pop_or_wait p in (p', fresh, s', o, false)
    | CiRefresh =>
        let g := disc p + 1 in
        let '(s', fresh') := start_fill g (size p) fresh in
        ({| disc := g; queue := []; size := size p |}, fresh', s', ONone, false)
    | CiReset => (set_queue p (map reset_res (queue p)), fresh, Idle, ONone, false)
    end
  | Waiting => (p, fresh, Waiting, ONone, false)
  | Woken => let '(p', s', o) := pop_or_wait p in (p', fresh, s', o, false)
  | Holding r tag =>
    match ch with
    | ChNone => (p, fresh, s, ONone, false)
    | ChDrop | ChGiveItem => (p, fresh, GBPush (reset_res r) tag CIdle, ONone, false)
    | ChUse => (p, fresh, Holding (use_res r) tag, ONone, false)
    end
  | GBPush r tag c =>
    let '(s', fresh') := after c fresh in
    if is_full p then (p, fresh', s', ONone, false)
    else if negb (disc p =? tag) then (p, fresh', s', ONone, false)
    else (set_queue p (queue p ++ [r]), fresh', s', ONone, true)
  end.

(* ---- global state: any number of threads ---- *)
Record gstate := { pl : pool; fresh_id : N; ths : list pc }.

Fixpoint set_nth {A} (l : list A) (i : nat) (x : A) : list A :=
  match l, i with
  | [], _ => []
  | _ :: r, O => x :: r
  | a :: r, S j => a :: set_nth r j x
  end.

Definition is_waiting (s : pc) : bool := match s with Waiting => true | _ => false end.
Definition is_woken (s : pc) : bool := match s with Woken => true | _ => false end.

(* notify_one: wakes one waiting thread if there is one — the preferred one if it is waiting,
   otherwise the first waiting thread *)
Fixpoint wake_first (l : list pc) : list pc :=
  match l with
  | [] => []
  | Waiting :: r => Woken :: r
  | a :: r => a :: wake_first r
  end.
Definition notify_one (l : list pc) (w : nat) : list pc :=
  match nth_error l w with
  | Some Waiting => set_nth l w Woken
  | _ => wake_first l
  end.

Definition gstep (s : gstate) (e : ev) : gstate * out :=
  match e with
  | Step t ci ch w =>
    match nth_error (ths s) t with
    | Some c =>
      let '(p', f', c', o, pushed) := step (pl s) (fresh_id s) c ci ch in
      let l := set_nth (ths s) t c' in
      ({| pl := p'; fresh_id := f'; ths := if pushed then notify_one l w else l |}, o)
    | None => (s, ONone)
    end
  | Timeout t =>
    match nth_error (ths s) t with
    | Some Waiting => ({| pl := pl s; fresh_id := fresh_id s; ths := set_nth (ths s) t Idle |}, OTimeout)
    | _ => (s, ONone)
    end
  | Spurious t =>
    match nth_error (ths s) t with
    | Some Waiting => ({| pl := pl s; fresh_id := fresh_id s; ths := set_nth (ths s) t Woken |}, ONone)
    | _ => (s, ONone)
    end
  end.

Fixpoint exec (s : gstate) (sched : list ev) : gstate :=
  match sched with
  | [] => s
  | e :: r => exec (fst (gstep s e)) r
  end.

(* post-state and output of every event *)
Fixpoint trace (s : gstate) (sched : list ev) : list (gstate * out) :=
  match sched with
  | [] => []
  | e :: r => let x := gstep s e in x :: trace (fst x) r
  end.

Definition init (sz : N) (q0 : list res) (n : nat) : gstate :=
  {| pl := {| disc := 0; queue := q0; size := sz |}; fresh_id := 100; ths := repeat Idle n |}.

(* ---- observation for the correspondence channel ---- *)
Definition ev_thread (e : ev) : nat := match e with Step t _ _ _ | Timeout t | Spurious t => t end.
Definition status_code (s : option pc) : N :=
  match s with
  | Some Idle => 0 | Some (Holding _ _) => 1 | Some (GBPush _ _ _) => 2
  | Some Waiting => 3 | Some Woken => 4 | None => 9
  end.
Definition obs_out (o : out) : obs :=
  match o with
  | ONone => OL []
  | OHandout r tag => OL [ON (rid r); ON (built_for r); OB (dirty r); ON tag]
  | OTimeout => OL [OZ 1]
  end.
(* the count is observed only when no wake-up is in flight (the implementation cannot stop a
   woken thread between its notification and its pop) *)
Definition obs_event (e : ev) (x : gstate * out) : obs :=
  let s := fst x in
  OL [ (if existsb is_woken (ths s) then OL [] else OL [ON (N.of_nat (length (queue (pl s))))]);
       ON (disc (pl s));
       ON (status_code (nth_error (ths s) (ev_thread e)));
       obs_out (snd x) ].

Fixpoint initial_queue (k : nat) (from : N) : list res :=
  match k with
  | O => []
  | S k' => {| rid := from; built_for := 0; dirty := false |} :: initial_queue k' (from + 1)
  end.

Definition run (sz : N) (n_init n_threads : nat) (sched : list ev) : obs :=
  let s0 := init sz (initial_queue n_init 1) n_threads in
  let tr := trace s0 sched in
  OL [ OL (map (fun ex => obs_event (fst ex) (snd ex)) (combine sched tr));
       OL (map (fun r => OL [ON (rid r); ON (built_for r)]) (queue (pl (exec s0 sched)))) ].

(* ---- the pool calls made by the two provers (checked against the source text by the harness) ----
   method codes: 0 size, 1 clear_and_increment_discriminant, 2 give_back_resource,
   3 acquire_resource, 4 give_back_resource_pool_item, 5 set_discriminant, 6 clear,
   7 discriminant, 8 count, 9 reset_available_resources.
   compute_cache calls size, clear_and_increment_discriminant, give_back_resource in this order;
   the rest of the file only acquires and gives items back (or lets them drop). *)
Definition prover_calls : obs := OL [OL [OZ 0; OZ 1; OZ 2]; OL [OZ 3; OZ 4]].
