(* C18/Properties.v — the property theorems, nothing else.
   C18: a pooled Merkle-map cache never serves data from a superseded generation; the pool never
   grows beyond its size; a blocked acquirer is woken by a push.  All statements quantify over
   every pool size, every initial content, every number of threads and every schedule
   (interleaving of critical sections, time-outs and spurious wake-ups included). *)
From Coq Require Import Lia.
From MV Require Import Base.Prelude C18.Model C18.Proofs.
Open Scope N_scope.

(* Generation safety.  From a pool whose initial resources belong to generation 0, every resource
   ever handed out (i) was built for the discriminant current at the hand-out, (ii) is tagged
   with it, (iii) has been reset; and every queued resource is of the current generation. *)
Theorem C18_safe : forall sz q0 n sched,
  fresh0 q0 ->
  forall s' r tag, In (s', OHandout r tag) (trace (init sz q0 n) sched) ->
    built_for r = disc (pl s') /\ tag = disc (pl s') /\ dirty r = false.
Proof.
  intros sz q0 n sched H s' r tag Hin.
  destruct (J_trace _ sched (J_init sz q0 n H) _ Hin) as [_ G]. exact G.
Qed.

Theorem C18_queue_current : forall sz q0 n sched,
  fresh0 q0 ->
  forall r, In r (queue (pl (exec (init sz q0 n) sched))) ->
    built_for r = disc (pl (exec (init sz q0 n) sched)) /\ dirty r = false.
Proof.
  intros sz q0 n sched H r Hr.
  destruct (J_exec _ sched (J_init sz q0 n H)) as [J1 _].
  rewrite Forall_forall in J1. exact (J1 r Hr).
Qed.

(* A refresh is one step: it moves to a strictly newer generation and empties the queue. *)
Theorem C18_refresh_step : forall s t ch w,
  nth_error (ths s) t = Some Idle ->
  let s' := fst (gstep s (Step t CiRefresh ch w)) in
  disc (pl s') = disc (pl s) + 1 /\ queue (pl s') = [].
Proof.
  intros [p f l] t ch w En. cbn [gstep pl fresh_id ths] in *. rewrite En. cbn [step].
  destruct (start_fill (disc p + 1) (size p) f). simpl. split; reflexivity.
Qed.

(* Never a superseded generation: whatever happened before (any prefix, in particular one that
   ends with a refresh to generation g = the discriminant reached), every later hand-out is of
   a generation at least the one reached — nothing older is ever served again. *)
Theorem C18_never_superseded : forall sz q0 n before later,
  fresh0 q0 ->
  let s1 := exec (init sz q0 n) before in
  forall s' r tag, In (s', OHandout r tag) (trace s1 later) -> disc (pl s1) <= built_for r.
Proof.
  intros sz q0 n before later H s1 s' r tag Hin.
  assert (J1 : J s1) by (apply J_exec, J_init, H).
  destruct (J_trace _ later J1 _ Hin) as [_ [Hb _]]. simpl in Hb.
  pose proof (disc_trace s1 later _ Hin) as Hd. simpl in Hd. lia.
Qed.

(* Every way of returning a resource ends in this one critical section: a stale tag never
   re-admits, a current tag with room appends exactly the returned resource, a full pool discards. *)
Theorem C18_give_back : forall s t ci ch w r tag c,
  nth_error (ths s) t = Some (GBPush r tag c) ->
  let s' := fst (gstep s (Step t ci ch w)) in
  (tag <> disc (pl s) -> queue (pl s') = queue (pl s)) /\
  (tag = disc (pl s) -> qlen s < size (pl s) -> queue (pl s') = queue (pl s) ++ [r]) /\
  (size (pl s) <= qlen s -> queue (pl s') = queue (pl s)).
Proof. exact give_back_outcome. Qed.

(* Capacity: the queue never exceeds max(size, initial length), and it only ever grows from
   below the size (so a pool that starts within its size stays within it). *)
Theorem C18_cap : forall sz q0 n sched,
  N.of_nat (length (queue (pl (exec (init sz q0 n) sched)))) <= N.max sz (N.of_nat (length q0)).
Proof.
  intros sz q0 n sched.
  destruct (cap_exec (init sz q0 n) sched (N.of_nat (length q0))) as [_ H]; [unfold qlen; simpl; lia|].
  exact H.
Qed.

Theorem C18_cap_step : forall s e,
  size (pl (fst (gstep s e))) = size (pl s) /\
  (qlen (fst (gstep s e)) <= qlen s \/ (qlen (fst (gstep s e)) = qlen s + 1 /\ qlen s < size (pl s))).
Proof. exact cap_gstep. Qed.

(* Wake-up: (i) a push while some thread is blocked moves exactly one blocked thread to the woken
   state; (ii) at any time, if a thread is blocked then every queued resource has a wake-up in
   flight — in particular a non-empty queue with a blocked thread implies a woken thread;
   (iii) a woken thread that finds the queue non-empty takes its head. *)
Theorem C18_wake : forall s e,
  length (queue (pl (fst (gstep s e)))) = S (length (queue (pl s))) ->
  (cnt is_waiting (ths s) > 0)%nat ->
  cnt is_woken (ths (fst (gstep s e))) = S (cnt is_woken (ths s)) /\
  S (cnt is_waiting (ths (fst (gstep s e)))) = cnt is_waiting (ths s).
Proof. exact push_wakes. Qed.

Theorem C18_no_lost_wakeup : forall sz q0 n sched,
  let s := exec (init sz q0 n) sched in
  (cnt is_waiting (ths s) > 0)%nat -> (length (queue (pl s)) <= cnt is_woken (ths s))%nat.
Proof. intros sz q0 n sched. apply K_exec, K_init. Qed.

Theorem C18_woken_takes : forall s t ci ch w,
  nth_error (ths s) t = Some Woken -> queue (pl s) <> [] ->
  exists r, snd (gstep s (Step t ci ch w)) = OHandout r (disc (pl s)) /\ hd_error (queue (pl s)) = Some r.
Proof. exact woken_takes. Qed.

(* non-vacuity: a run with a refresh overlapping an outstanding item, a blocked acquirer woken by
   the refill, and a stale give-back that is discarded *)
Example C18_ex :
  let sched := [Step 0 CiAcquire ChNone 0; Step 1 CiRefresh ChNone 0; Step 2 CiAcquire ChNone 0;
                Step 1 CiNone ChNone 2; Step 2 CiNone ChNone 0; Step 0 CiNone ChGiveItem 0;
                Step 0 CiNone ChNone 0] in
  map snd (trace (init 1 (initial_queue 1 1) 3) sched) =
    [OHandout {| rid := 1; built_for := 0; dirty := false |} 0; ONone; ONone; ONone;
     OHandout {| rid := 100; built_for := 1; dirty := false |} 1; ONone; ONone]
  /\ queue (pl (exec (init 1 (initial_queue 1 1) 3) sched)) = [].
Proof. vm_compute. split; reflexivity. Qed.
