(* C18/Properties.v — the property theorems, nothing else.
   C18: a pooled Merkle-map cache never serves data from a superseded generation; the pool never
   grows beyond its size; a blocked acquirer is woken by a push.  All statements quantify over
   every pool size, every initial content, every number of threads and every schedule
   (interleaving of critical sections, time-outs and spurious wake-ups included; the points where
   the pool calls back into the pooled value with no lock held are interleaving points too).
   [ev_ok]: the schedule may use every entry point (clear, clear_and_increment_discriminant alone,
   give_back_resource of a resource tagged with the generation it was built for, any generation)
   except set_discriminant. *)
From Coq Require Import Lia.
From MV Require Import Base.Prelude C18.Model C18.Proofs.
Open Scope N_scope.

(* Generation safety.  From a pool whose initial resources belong to generation 0, every resource
   ever handed out (i) was built for the discriminant current at the hand-out, (ii) is tagged
   with it, (iii) has been reset; and every queued resource is of the current generation. *)
Theorem C18_safe : forall sz q0 n sched,
  fresh0 q0 -> Forall ev_ok sched ->
  forall s' r tag, In (s', OHandout r tag) (trace (init sz q0 n) sched) ->
    built_for r = disc (pl s') /\ tag = disc (pl s') /\ dirty r = false.
Proof.
  intros sz q0 n sched H Hok s' r tag Hin.
  destruct (J_trace _ sched Hok (J_init sz q0 n H) _ Hin) as [_ G]. exact G.
Qed.

Theorem C18_queue_current : forall sz q0 n sched,
  fresh0 q0 -> Forall ev_ok sched ->
  forall r, In r (queue (pl (exec (init sz q0 n) sched))) ->
    built_for r = disc (pl (exec (init sz q0 n) sched)) /\ dirty r = false.
Proof.
  intros sz q0 n sched H Hok r Hr.
  destruct (J_exec _ sched Hok (J_init sz q0 n H)) as [J1 _].
  rewrite Forall_forall in J1. exact (J1 r Hr).
Qed.

(* A refresh is one step: it moves to a strictly newer generation and empties the queue. *)
Theorem C18_refresh_step : forall s t ch w,
  nth_error (ths s) t = Some Idle ->
  let s' := fst (gstep s (Step t CiRefresh ch w)) in
  disc (pl s') = disc (pl s) + 1 /\ queue (pl s') = [].
Proof.
  intros [p f l] t ch w En. cbn [gstep pl fresh_id ths] in *. rewrite En. cbn [step].
  destruct (start_fill (disc p + 1) (size p) f). simpl. split; reflexivity.
Qed.

(* Never a superseded generation: whatever happened before (any prefix, in particular one that
   ends with a refresh to generation g = the discriminant reached), every later hand-out is of
   a generation at least the one reached — nothing older is ever served again. *)
Theorem C18_never_superseded : forall sz q0 n before later,
  fresh0 q0 -> Forall ev_ok before -> Forall ev_ok later ->
  let s1 := exec (init sz q0 n) before in
  forall s' r tag, In (s', OHandout r tag) (trace s1 later) -> disc (pl s1) <= built_for r.
Proof.
  intros sz q0 n before later H Hok1 Hok2 s1 s' r tag Hin.
  assert (J1 : J s1) by (apply J_exec; [exact Hok1|apply J_init, H]).
  destruct (J_trace _ later Hok2 J1 _ Hin) as [_ [Hb _]]. simpl in Hb.
  pose proof (disc_trace s1 later Hok2 _ Hin) as Hd. simpl in Hd. lia.
Qed.

(* The refresh is atomic with respect to every other operation, give-backs in particular.  The
   states other threads can observe are exactly the states between two events.  From one to the
   next, (i) the discriminant moves only together with a complete drain of the queue, in the same
   step; (ii) while the discriminant stays, nothing leaves the queue except its head, handed out
   to the stepped thread (clear(), the legacy entry point, excepted).  Hence no thread ever
   observes a queue that is empty or partially drained under the old generation because a
   refresh is in progress: a give-back finds either the old generation with its queue intact or
   the new generation. *)
Theorem C18_refresh_atomic : forall s e,
  let s' := fst (gstep s e) in
  (ev_ok e -> disc (pl s') <> disc (pl s) -> disc (pl s') = disc (pl s) + 1 /\ queue (pl s') = []) /\
  (is_clear e = false -> disc (pl s') = disc (pl s) ->
     queue (pl s') = queue (pl s) \/ queue (pl s') = map reset_res (queue (pl s)) \/
     (exists r, queue (pl s) = r :: queue (pl s') /\ snd (gstep s e) = OHandout r (disc (pl s))) \/
     (exists r, queue (pl s') = queue (pl s) ++ [r])).
Proof. exact refresh_atomic. Qed.

(* The callbacks of a refresh: Drop of every drained resource, in queue order, under both the
   queue lock and the discriminant lock (no other thread can run a pool operation there); then
   the refresher stops, holding no lock, in the reset of its own first new resource. *)
Theorem C18_refresh_callbacks : forall s t ch w,
  nth_error (ths s) t = Some Idle ->
  gstep_cbs s (Step t CiRefresh ch w) =
    map (mkcb CbDrop true true) (queue (pl s)) ++
    (if size (pl s) =? 0 then []
     else [mkcb CbReset false false {| rid := fresh_id s; built_for := disc (pl s) + 1; dirty := false |}]).
Proof. exact refresh_cbs. Qed.

(* Every callback of every step: either it runs under the queue lock, on a queued resource; or it
   runs with no lock held on the stepped thread's own (not queued) resource, and the thread's step
   ends there — so that the interleavings at callbacks are interleavings of the model. *)
Theorem C18_callbacks : forall p f s ci ch c,
  In c (step_cbs p f s ci ch) ->
  (cb_qlock c = true /\ exists r, In r (queue p) /\ cb_rid c = rid r) \/
  (cb_qlock c = false /\ cb_dlock c = false /\ pc_cb (pc_of (step p f s ci ch)) = [c]).
Proof. exact step_cbs_classify. Qed.

(* Every way of returning a resource ends in this one critical section: a stale tag never
   re-admits, a current tag with room appends exactly the returned resource, a full pool discards. *)
Theorem C18_give_back : forall s t ci ch w r tag c,
  nth_error (ths s) t = Some (GBPush r tag c) ->
  let s' := fst (gstep s (Step t ci ch w)) in
  (tag <> disc (pl s) -> queue (pl s') = queue (pl s)) /\
  (tag = disc (pl s) -> qlen s < size (pl s) -> queue (pl s') = queue (pl s) ++ [r]) /\
  (size (pl s) <= qlen s -> queue (pl s') = queue (pl s)).
Proof. exact give_back_outcome. Qed.

(* Capacity: the queue never exceeds max(size, initial length), and it only ever grows from
   below the size (so a pool that starts within its size stays within it). *)
Theorem C18_cap : forall sz q0 n sched,
  N.of_nat (length (queue (pl (exec (init sz q0 n) sched)))) <= N.max sz (N.of_nat (length q0)).
Proof.
  intros sz q0 n sched.
  destruct (cap_exec (init sz q0 n) sched (N.of_nat (length q0))) as [_ H]; [unfold qlen; simpl; lia|].
  exact H.
Qed.

Theorem C18_cap_step : forall s e,
  size (pl (fst (gstep s e))) = size (pl s) /\
  (qlen (fst (gstep s e)) <= qlen s \/ (qlen (fst (gstep s e)) = qlen s + 1 /\ qlen s < size (pl s))).
Proof. exact cap_gstep. Qed.

(* Wake-up: (i) a push while some thread is blocked moves exactly one blocked thread to the woken
   state; (ii) at any time, if a thread is blocked then every queued resource has a wake-up in
   flight — in particular a non-empty queue with a blocked thread implies a woken thread;
   (iii) a woken thread that finds the queue non-empty takes its head. *)
Theorem C18_wake : forall s e,
  length (queue (pl (fst (gstep s e)))) = S (length (queue (pl s))) ->
  (cnt is_waiting (ths s) > 0)%nat ->
  cnt is_woken (ths (fst (gstep s e))) = S (cnt is_woken (ths s)) /\
  S (cnt is_waiting (ths (fst (gstep s e)))) = cnt is_waiting (ths s).
Proof. exact push_wakes. Qed.

Theorem C18_no_lost_wakeup : forall sz q0 n sched,
  let s := exec (init sz q0 n) sched in
  (cnt is_waiting (ths s) > 0)%nat -> (length (queue (pl s)) <= cnt is_woken (ths s))%nat.
Proof. intros sz q0 n sched. apply K_exec, K_init. Qed.

Theorem C18_woken_takes : forall s t ci ch w,
  nth_error (ths s) t = Some Woken -> queue (pl s) <> [] ->
  exists r, snd (gstep s (Step t ci ch w)) = OHandout r (disc (pl s)) /\ hd_error (queue (pl s)) = Some r.
Proof. exact woken_takes. Qed.

(* non-vacuity: a run with a refresh overlapping an outstanding item, a blocked acquirer woken by
   the refill, and a stale give-back that is discarded *)
Example C18_ex :
  let sched := [Step 0 CiAcquire ChNone 0; Step 1 CiRefresh ChNone 0; Step 2 CiAcquire ChNone 0;
                Step 1 CiNone ChNone 0; Step 1 CiNone ChNone 2; Step 2 CiNone ChNone 0;
                Step 0 CiNone ChGiveItem 0; Step 0 CiNone ChNone 0; Step 0 CiNone ChNone 0;
                Step 0 CiNone ChNone 0] in
  Forall ev_ok sched /\
  map snd (trace (init 1 (initial_queue 1 1) 3) sched) =
    [OHandout {| rid := 1; built_for := 0; dirty := false |} 0; ONone; ONone; ONone; ONone;
     OHandout {| rid := 100; built_for := 1; dirty := false |} 1; ONone; ONone; ONone; ONone]
  /\ queue (pl (exec (init 1 (initial_queue 1 1) 3) sched)) = []
  /\ trace_cbs (init 1 (initial_queue 1 1) 3) sched =
     [[]; [{| cb_kind := CbReset; cb_rid := 100; cb_qlock := false; cb_dlock := false |}]; []; []; []; [];
      [{| cb_kind := CbReset; cb_rid := 1; cb_qlock := false; cb_dlock := false |}]; [];
      [{| cb_kind := CbDrop; cb_rid := 1; cb_qlock := false; cb_dlock := false |}]; []].
Proof. vm_compute. repeat split; try reflexivity. repeat constructor. Qed.

(* a refresh of a non-empty pool: the drained resources are dropped under both locks *)
Example C18_ex_refresh_cbs :
  gstep_cbs (init 2 (initial_queue 2 1) 2) (Step 0 CiRefresh ChNone 0) =
    [{| cb_kind := CbDrop; cb_rid := 1; cb_qlock := true; cb_dlock := true |};
     {| cb_kind := CbDrop; cb_rid := 2; cb_qlock := true; cb_dlock := true |};
     {| cb_kind := CbReset; cb_rid := 100; cb_qlock := false; cb_dlock := false |}].
Proof. vm_compute. reflexivity. Qed.
