(* C18/Proofs.v — invariants of the pool transition system, preserved by every event of every
   thread (case analysis on the stepped thread's program counter; no induction on the number
   of threads is needed because a step touches one thread's locals and the shared state). *)
From Coq Require Import Lia.
From MV Require Import Base.Prelude C18.Model.
Open Scope N_scope.

(* ---------- list helpers ---------- *)
Lemma set_nth_Forall {A} (P : A -> Prop) l i x : Forall P l -> P x -> Forall P (set_nth l i x).
Proof.
  revert i. induction l as [|a r IH]; intros i Hl Hx; simpl; [constructor|].
  inversion Hl; subst. destruct i; constructor; auto.
Qed.

Lemma nth_error_Forall {A} (P : A -> Prop) l i x : Forall P l -> nth_error l i = Some x -> P x.
Proof. intros H E. rewrite Forall_forall in H. apply H. eapply nth_error_In; eauto. Qed.

Definition cnt (f : pc -> bool) (l : list pc) : nat := length (filter f l).

Lemma cnt_cons f a l : cnt f (a :: l) = ((if f a then 1 else 0) + cnt f l)%nat.
Proof. unfold cnt. simpl. destruct (f a); reflexivity. Qed.

Lemma cnt_set_nth f l i a b : nth_error l i = Some a ->
  (cnt f (set_nth l i b) + (if f a then 1 else 0) = cnt f l + (if f b then 1 else 0))%nat.
Proof.
  revert i. induction l as [|x r IH]; intros i E; [destruct i; discriminate|].
  destruct i; simpl in E.
  - injection E as ->. simpl. rewrite !cnt_cons. lia.
  - simpl. rewrite !cnt_cons. specialize (IH _ E). lia.
Qed.

Lemma wake_first_Forall (P : pc -> Prop) l : P Woken -> Forall P l -> Forall P (wake_first l).
Proof.
  intros HW. induction l as [|a r IH]; intros H; simpl; [constructor|].
  inversion H; subst. destruct a; constructor; auto.
Qed.

Lemma notify_one_Forall (P : pc -> Prop) l w : P Woken -> Forall P l -> Forall P (notify_one l w).
Proof.
  intros HW H. unfold notify_one. destruct (nth_error l w) as [[]|]; try (apply wake_first_Forall; auto).
  apply set_nth_Forall; auto.
Qed.

Lemma wake_first_cnt l :
  (cnt is_waiting l > 0)%nat ->
  (S (cnt is_waiting (wake_first l)) = cnt is_waiting l /\ cnt is_woken (wake_first l) = S (cnt is_woken l))%nat.
Proof.
  induction l as [|a r IH]; intros H; [unfold cnt in H; simpl in H; lia|].
  destruct a; simpl; rewrite ?cnt_cons in *; simpl in *; try (specialize (IH H); lia).
  lia.
Qed.

Lemma wake_first_none l : cnt is_waiting l = 0%nat -> wake_first l = l.
Proof.
  induction l as [|a r IH]; intros H; [reflexivity|].
  rewrite cnt_cons in H. destruct a; simpl in *; try (f_equal; apply IH; lia). lia.
Qed.

Lemma notify_one_cnt l w :
  (cnt is_waiting l > 0)%nat ->
  (S (cnt is_waiting (notify_one l w)) = cnt is_waiting l /\ cnt is_woken (notify_one l w) = S (cnt is_woken l))%nat.
Proof.
  intros H. unfold notify_one. destruct (nth_error l w) as [s|] eqn:E; [|apply wake_first_cnt; exact H].
  destruct s; try (apply wake_first_cnt; exact H).
  pose proof (cnt_set_nth is_waiting l w Waiting Woken E) as H1.
  pose proof (cnt_set_nth is_woken l w Waiting Woken E) as H2. simpl in *. lia.
Qed.

Lemma notify_one_none l w : cnt is_waiting l = 0%nat -> notify_one l w = l.
Proof.
  intros H. unfold notify_one. destruct (nth_error l w) as [s|] eqn:E; [|apply wake_first_none; exact H].
  destruct s; try (apply wake_first_none; exact H).
  pose proof (cnt_set_nth is_waiting l w Waiting Woken E) as H1. simpl in H1. lia.
Qed.

(* ---------- J: generation safety ---------- *)
Definition good_res (d : N) (r : res) : Prop := built_for r = d /\ dirty r = false.
Definition good_pc (s : pc) : Prop :=
  match s with
  | Holding r tag => built_for r = tag
  | GBReset r tag _ => built_for r = tag
  | GBPush r tag _ => built_for r = tag /\ dirty r = false
  | _ => True
  end.
(* J1: every queued resource is of the current generation and reset;
   J2: every item in flight carries its true generation (and is reset once on its way back) *)
Definition J (s : gstate) : Prop :=
  Forall (good_res (disc (pl s))) (queue (pl s)) /\ Forall good_pc (ths s).

Lemma good_after c f : good_pc (fst (after c f)).
Proof.
  destruct c as [|g k]; simpl; [exact I|]. unfold start_fill. destruct (k =? 0); simpl; auto.
Qed.

Lemma good_start_fill g k f : good_pc (fst (start_fill g k f)).
Proof. unfold start_fill. destruct (k =? 0); simpl; auto. Qed.

(* what a hand-out looks like, under J *)
Definition good_out (d : N) (o : out) : Prop :=
  match o with OHandout r tag => built_for r = d /\ tag = d /\ dirty r = false | _ => True end.

Ltac fin := simpl; repeat split; simpl; auto; try (apply set_nth_Forall; auto; simpl; auto); try solve [constructor].

(* set_discriminant is the one public entry point that is outside the theorems (a caller that
   moves the generation by hand without draining the queue) *)
Definition ev_ok (e : ev) : Prop :=
  match e with Step _ (CiSetDisc _) _ _ => False | _ => True end.

Lemma J_gstep s e : ev_ok e -> J s -> J (fst (gstep s e)) /\ good_out (disc (pl (fst (gstep s e)))) (snd (gstep s e)).
Proof.
  destruct s as [p f l]. intros Hok [J1 J2]. simpl in J1, J2.
  destruct e as [t ci ch w|t|t]; cbn [gstep pl fresh_id ths].
  - destruct (nth_error l t) as [c|] eqn:En; [|fin].
    pose proof (nth_error_Forall _ _ _ _ J2 En) as Hc.
    destruct c as [| | |r tag|r tag c|r tag c|r c].
    + (* Idle *)
      destruct ci; cbn [step]; try (simpl in Hok; contradiction).
      * fin.
      * unfold pop_or_wait. destruct p as [d q sz]. simpl in *. destruct q as [|r q]; [fin|].
        inversion J1 as [|? ? [Hb Hd] Hq]; subst. fin.
      * destruct (start_fill (disc p + 1) (size p) f) as [s' f'] eqn:Es.
        pose proof (good_start_fill (disc p + 1) (size p) f) as G. rewrite Es in G. fin.
      * fin. rewrite Forall_forall in *. intros x Hx. apply in_map_iff in Hx. destruct Hx as [y [<- Hy]].
        destruct (J1 y Hy) as [Hb _]. split; simpl; auto.
      * fin.
      * fin.
      * fin.
    + (* Waiting *) cbn [step]. fin.
    + (* Woken *)
      cbn [step]. unfold pop_or_wait. destruct p as [d q sz]. simpl in *. destruct q as [|r q]; [fin|].
      inversion J1 as [|? ? [Hb Hd] Hq]; subst. fin.
    + (* Holding *)
      destruct ch; cbn [step]; fin.
    + (* GBReset *)
      cbn [step]. fin.
    + (* GBPush *)
      cbn [step].
      destruct (is_full p); [fin|].
      destruct (negb (disc p =? tag)) eqn:Ed; [fin|].
      destruct (after c f) as [s' f'] eqn:Ea.
      assert (Gs : good_pc s') by (pose proof (good_after c f) as G; rewrite Ea in G; exact G).
      apply negb_false_iff, N.eqb_eq in Ed. simpl. repeat split; auto.
      * apply Forall_app. split; auto. constructor; [|constructor].
        destruct Hc as [Hb Hd]. unfold good_res, set_queue; simpl. split; congruence.
      * apply notify_one_Forall; [exact I|]. apply set_nth_Forall; auto.
    + (* GBDiscard *)
      cbn [step]. destruct (after c f) as [s' f'] eqn:Ea.
      assert (Gs : good_pc s') by (pose proof (good_after c f) as G; rewrite Ea in G; exact G).
      fin.
  - destruct (nth_error l t) as [[]|] eqn:En; fin.
  - destruct (nth_error l t) as [[]|] eqn:En; fin.
Qed.

Lemma J_exec s sched : Forall ev_ok sched -> J s -> J (exec s sched).
Proof.
  revert s. induction sched as [|e r IH]; intros s Hok H; simpl; auto.
  inversion Hok; subst. apply IH; auto. apply J_gstep; auto.
Qed.

Lemma J_trace s sched : Forall ev_ok sched -> J s ->
  forall x, In x (trace s sched) -> J (fst x) /\ good_out (disc (pl (fst x))) (snd x).
Proof.
  revert s. induction sched as [|e r IH]; intros s Hok H x Hx; simpl in Hx; [contradiction|].
  inversion Hok; subst.
  destruct Hx as [<-|Hx]; [apply J_gstep; auto|].
  eapply IH; [auto| |exact Hx]. apply J_gstep; auto.
Qed.

Definition fresh0 (q0 : list res) : Prop := Forall (good_res 0) q0.

Lemma J_init sz q0 n : fresh0 q0 -> J (init sz q0 n).
Proof.
  intros H. split; simpl; auto. induction n; simpl; constructor; auto. exact I.
Qed.

(* ---------- the discriminant never decreases ---------- *)
Lemma disc_gstep s e : ev_ok e -> disc (pl s) <= disc (pl (fst (gstep s e))).
Proof.
  destruct s as [p f l]. intros Hok. destruct e as [t ci ch w|t|t]; cbn [gstep pl fresh_id ths].
  - destruct (nth_error l t) as [c|]; [|simpl; lia].
    destruct c as [| | |r tag|r tag c|r tag c|r c]; cbn [step].
    + destruct ci; simpl; try lia; try (simpl in Hok; contradiction).
      * unfold pop_or_wait. destruct (queue p); simpl; lia.
      * destruct (start_fill (disc p + 1) (size p) f). simpl. lia.
    + simpl. lia.
    + unfold pop_or_wait. destruct (queue p); simpl; lia.
    + destruct ch; simpl; lia.
    + simpl; lia.
    + destruct (is_full p); [simpl; lia|].
      destruct (negb (disc p =? tag)); [simpl; lia|]. destruct (after c f). simpl; lia.
    + destruct (after c f). simpl; lia.
  - destruct (nth_error l t) as [[]|]; simpl; lia.
  - destruct (nth_error l t) as [[]|]; simpl; lia.
Qed.

Lemma disc_trace s sched : Forall ev_ok sched -> forall x, In x (trace s sched) -> disc (pl s) <= disc (pl (fst x)).
Proof.
  revert s. induction sched as [|e r IH]; intros s Hok x Hx; simpl in Hx; [contradiction|].
  inversion Hok; subst.
  destruct Hx as [<-|Hx]; [apply disc_gstep; auto|].
  pose proof (disc_gstep s e H1). specialize (IH _ H2 _ Hx). lia.
Qed.

(* ---------- capacity ---------- *)
Definition qlen (s : gstate) : N := N.of_nat (length (queue (pl s))).

(* a step never changes the size; the queue grows by at most one, and only from below size *)
Lemma cap_gstep s e :
  size (pl (fst (gstep s e))) = size (pl s) /\
  (qlen (fst (gstep s e)) <= qlen s \/
   (qlen (fst (gstep s e)) = qlen s + 1 /\ qlen s < size (pl s))).
Proof.
  destruct s as [p f l]. unfold qlen. destruct e as [t ci ch w|t|t]; cbn [gstep pl fresh_id ths].
  - destruct (nth_error l t) as [c|]; [|simpl; split; [reflexivity|left; lia]].
    destruct c as [| | |r tag|r tag c|r tag c|r c]; cbn [step].
    + destruct ci; simpl; try (split; [reflexivity|left; lia]).
      * unfold pop_or_wait. destruct p as [d q sz]; simpl. destruct q; simpl; split; try reflexivity; left; lia.
      * destruct (start_fill (disc p + 1) (size p) f). simpl. split; [reflexivity|left; lia].
      * split; [reflexivity|left]. rewrite map_length. lia.
    + simpl; split; [reflexivity|left; lia].
    + unfold pop_or_wait. destruct p as [d q sz]; simpl. destruct q; simpl; split; try reflexivity; left; lia.
    + destruct ch; simpl; split; try reflexivity; left; lia.
    + simpl; split; [reflexivity|left; lia].
    + unfold is_full. destruct (size p <=? N.of_nat (length (queue p))) eqn:Ef;
        [simpl; split; [reflexivity|left; lia]|].
      destruct (negb (disc p =? tag)); [simpl; split; [reflexivity|left; lia]|].
      destruct (after c f). simpl.
      apply N.leb_gt in Ef. split; [reflexivity|right]. rewrite app_length. simpl. lia.
    + destruct (after c f). simpl; split; [reflexivity|left; lia].
  - destruct (nth_error l t) as [[]|]; simpl; split; try reflexivity; left; lia.
  - destruct (nth_error l t) as [[]|]; simpl; split; try reflexivity; left; lia.
Qed.

Lemma cap_exec s sched B :
  qlen s <= N.max (size (pl s)) B ->
  size (pl (exec s sched)) = size (pl s) /\ qlen (exec s sched) <= N.max (size (pl s)) B.
Proof.
  revert s. induction sched as [|e r IH]; intros s H; simpl; [split; [reflexivity|exact H]|].
  destruct (cap_gstep s e) as [Hs Hq].
  assert (H' : qlen (fst (gstep s e)) <= N.max (size (pl (fst (gstep s e)))) B) by (rewrite Hs; lia).
  destruct (IH _ H') as [A1 A2]. rewrite Hs in *. split; assumption.
Qed.

(* ---------- wake-ups ---------- *)
(* K: while a thread is blocked, every queued resource has a wake-up in flight for it *)
Definition K (s : gstate) : Prop :=
  (cnt is_waiting (ths s) > 0)%nat -> (length (queue (pl s)) <= cnt is_woken (ths s))%nat.

Lemma after_not_blocked c f : is_waiting (fst (after c f)) = false /\ is_woken (fst (after c f)) = false.
Proof.
  destruct c as [|g k]; simpl; [auto|]. unfold start_fill. destruct (k =? 0); simpl; auto.
Qed.

Lemma K_gstep s e : K s -> K (fst (gstep s e)).
Proof.
  destruct s as [p f l]. unfold K. cbn [pl ths]. intros HK.
  destruct e as [t ci ch w|t|t]; cbn [gstep pl fresh_id ths].
  - destruct (nth_error l t) as [c|] eqn:En; [|simpl; exact HK].
    assert (A : forall s', is_waiting c = false -> is_woken c = false ->
                  is_waiting s' = false -> is_woken s' = false ->
                  (cnt is_waiting (set_nth l t s') > 0)%nat ->
                  (length (queue p) <= cnt is_woken (set_nth l t s'))%nat).
    { intros s' E3 E4 E1 E2. pose proof (cnt_set_nth is_waiting l t _ s' En). pose proof (cnt_set_nth is_woken l t _ s' En).
      rewrite E1, E2, E3, E4 in *. simpl in *. lia. }
    destruct c as [| | |r tag|r tag c|r tag c|r c]; cbn [step].
    + destruct ci.
      * simpl. apply A; reflexivity.
      * unfold pop_or_wait. destruct p as [d q sz]; simpl in *. destruct q as [|r q]; simpl.
        -- lia.
        -- pose proof (cnt_set_nth is_waiting l t _ (Holding r d) En).
           pose proof (cnt_set_nth is_woken l t _ (Holding r d) En). simpl in *. lia.
      * destruct (start_fill (disc p + 1) (size p) f). simpl. lia.
      * simpl. rewrite map_length. apply A; reflexivity.
      * simpl. lia.
      * simpl. lia.
      * simpl. apply A; reflexivity.
      * simpl. apply A; reflexivity.
    + simpl. pose proof (cnt_set_nth is_waiting l t _ Waiting En). pose proof (cnt_set_nth is_woken l t _ Waiting En).
      simpl in *. lia.
    + unfold pop_or_wait. destruct p as [d q sz]; simpl in *. destruct q as [|r q]; simpl.
      * lia.
      * pose proof (cnt_set_nth is_waiting l t _ (Holding r d) En).
        pose proof (cnt_set_nth is_woken l t _ (Holding r d) En). simpl in *. lia.
    + destruct ch; simpl; apply A; reflexivity.
    + simpl; apply A; reflexivity.
    + destruct (is_full p); [simpl; apply A; reflexivity|].
      destruct (negb (disc p =? tag)); [simpl; apply A; reflexivity|].
      destruct (after c f) as [s' f'] eqn:Ea.
      destruct (after_not_blocked c f) as [E1 E2]. rewrite Ea in E1, E2. simpl in E1, E2.
      pose proof (cnt_set_nth is_waiting l t _ s' En) as C1. pose proof (cnt_set_nth is_woken l t _ s' En) as C2.
      rewrite E1 in C1. rewrite E2 in C2. simpl in C1, C2.
      simpl. rewrite app_length. simpl.
      destruct (Nat.eq_dec (cnt is_waiting (set_nth l t s')) 0) as [Z|NZ].
      * rewrite (notify_one_none _ w Z). lia.
      * destruct (notify_one_cnt (set_nth l t s') w) as [N1 N2]; [lia|]. lia.
    + destruct (after c f) as [s' f'] eqn:Ea.
      destruct (after_not_blocked c f) as [E1 E2]. rewrite Ea in E1, E2. simpl in E1, E2.
      simpl. apply A; auto.
  - destruct (nth_error l t) as [s|] eqn:En; [|simpl; exact HK].
    destruct s; simpl; try exact HK.
    pose proof (cnt_set_nth is_waiting l t _ Idle En). pose proof (cnt_set_nth is_woken l t _ Idle En).
    simpl in *. lia.
  - destruct (nth_error l t) as [s|] eqn:En; [|simpl; exact HK].
    destruct s; simpl; try exact HK.
    pose proof (cnt_set_nth is_waiting l t _ Woken En). pose proof (cnt_set_nth is_woken l t _ Woken En).
    simpl in *. lia.
Qed.

Lemma K_exec s sched : K s -> K (exec s sched).
Proof. revert s. induction sched as [|e r IH]; intros s H; simpl; auto. apply IH, K_gstep, H. Qed.

Lemma cnt_repeat_idle f n : f Idle = false -> cnt f (repeat Idle n) = 0%nat.
Proof. intros H. induction n; simpl; [reflexivity|]. rewrite cnt_cons, H. simpl. exact IHn. Qed.

Lemma K_init sz q0 n : K (init sz q0 n).
Proof. unfold K. simpl. rewrite cnt_repeat_idle by reflexivity. lia. Qed.

(* a push while a thread is blocked wakes exactly one blocked thread *)
Lemma push_wakes s e :
  length (queue (pl (fst (gstep s e)))) = S (length (queue (pl s))) ->
  (cnt is_waiting (ths s) > 0)%nat ->
  cnt is_woken (ths (fst (gstep s e))) = S (cnt is_woken (ths s)) /\
  S (cnt is_waiting (ths (fst (gstep s e)))) = cnt is_waiting (ths s).
Proof.
  destruct s as [p f l]. cbn [pl ths].
  destruct e as [t ci ch w|t|t]; cbn [gstep pl fresh_id ths].
  - destruct (nth_error l t) as [c|] eqn:En; [|simpl; lia].
    destruct c as [| | |r tag|r tag c|r tag c|r c]; cbn [step].
    + destruct ci; simpl; try lia.
      * unfold pop_or_wait. destruct p as [d q sz]; simpl. destruct q; simpl; lia.
      * destruct (start_fill (disc p + 1) (size p) f). simpl. lia.
      * rewrite map_length. lia.
    + simpl; lia.
    + unfold pop_or_wait. destruct p as [d q sz]; simpl. destruct q; simpl; lia.
    + destruct ch; simpl; lia.
    + simpl; lia.
    + destruct (is_full p); [simpl; lia|].
      destruct (negb (disc p =? tag)); [simpl; lia|].
      destruct (after c f) as [s' f'] eqn:Ea.
      destruct (after_not_blocked c f) as [E1 E2]. rewrite Ea in E1, E2. simpl in E1, E2.
      pose proof (cnt_set_nth is_waiting l t _ s' En) as C1. pose proof (cnt_set_nth is_woken l t _ s' En) as C2.
      rewrite E1 in C1. rewrite E2 in C2. simpl in C1, C2.
      simpl. intros _ HW.
      destruct (notify_one_cnt (set_nth l t s') w) as [N1 N2]; lia.
    + destruct (after c f). simpl; lia.
  - destruct (nth_error l t) as [[]|]; simpl; lia.
  - destruct (nth_error l t) as [[]|]; simpl; lia.
Qed.

(* progress of a woken thread: with a non-empty queue its step is a hand-out *)
Lemma woken_takes s t ci ch w :
  nth_error (ths s) t = Some Woken -> queue (pl s) <> [] ->
  exists r, snd (gstep s (Step t ci ch w)) = OHandout r (disc (pl s)) /\ hd_error (queue (pl s)) = Some r.
Proof.
  destruct s as [p f l]. cbn [pl ths]. intros En Hq. cbn [gstep pl fresh_id ths]. rewrite En. cbn [step].
  unfold pop_or_wait. destruct p as [d q sz]; simpl in *. destruct q as [|r q]; [contradiction|].
  exists r. simpl. auto.
Qed.

(* a give-back whose tag is not the current discriminant leaves the queue untouched, whatever the
   interleaving that led there; one whose tag is current and finds room appends exactly its resource *)
Lemma give_back_outcome s t ci ch w r tag c :
  nth_error (ths s) t = Some (GBPush r tag c) ->
  let s' := fst (gstep s (Step t ci ch w)) in
  (tag <> disc (pl s) -> queue (pl s') = queue (pl s)) /\
  (tag = disc (pl s) -> qlen s < size (pl s) -> queue (pl s') = queue (pl s) ++ [r]) /\
  (size (pl s) <= qlen s -> queue (pl s') = queue (pl s)).
Proof.
  destruct s as [p f l]. cbn [pl ths]. intros En. cbn [gstep pl fresh_id ths]. rewrite En. cbn [step].
  unfold is_full, qlen. cbn [pl].
  destruct (size p <=? N.of_nat (length (queue p))) eqn:Ef.
  - apply N.leb_le in Ef. simpl. repeat split; auto. intros _ H. lia.
  - apply N.leb_gt in Ef. destruct (disc p =? tag) eqn:Ed; simpl.
    + destruct (after c f) as [s' f']. apply N.eqb_eq in Ed. simpl. repeat split; auto; intros; try congruence; lia.
    + apply N.eqb_neq in Ed. repeat split; auto; intros; try congruence; lia.
Qed.

(* ---------- the refresh is atomic; callbacks ---------- *)
Definition is_clear (e : ev) : bool := match e with Step _ CiClear _ _ => true | _ => false end.

(* Between two visible states (the states other threads can observe are exactly the states between
   events): the discriminant moves only together with a complete drain, in the same step; and
   while the discriminant stays, nothing leaves the queue except its head, handed out (clear(),
   the legacy entry point, excepted).  So no thread ever sees a queue that is empty or partially
   drained under the old generation because a refresh is in progress. *)
Ltac ra := simpl; split; intros; try congruence; try contradiction; try discriminate; try lia; auto 6.

Lemma refresh_atomic s e :
  let s' := fst (gstep s e) in
  (ev_ok e -> disc (pl s') <> disc (pl s) -> disc (pl s') = disc (pl s) + 1 /\ queue (pl s') = []) /\
  (is_clear e = false -> disc (pl s') = disc (pl s) ->
     queue (pl s') = queue (pl s) \/ queue (pl s') = map reset_res (queue (pl s)) \/
     (exists r, queue (pl s) = r :: queue (pl s') /\ snd (gstep s e) = OHandout r (disc (pl s))) \/
     (exists r, queue (pl s') = queue (pl s) ++ [r])).
Proof.
  destruct s as [p f l]. destruct e as [t ci ch w|t|t]; cbn [gstep pl fresh_id ths].
  - destruct (nth_error l t) as [c|]; [|ra].
    destruct c as [| | |r tag|r tag c|r tag c|r c]; cbn [step].
    + destruct ci; try (ra; fail).
      * unfold pop_or_wait. destruct p as [d q sz]; simpl. destruct q as [|r q]; [ra|].
        simpl; split; intros; [congruence|]. right; right; left. exists r. auto.
      * destruct (start_fill (disc p + 1) (size p) f). ra.
    + ra.
    + unfold pop_or_wait. destruct p as [d q sz]; simpl. destruct q as [|r q]; [ra|].
      simpl; split; intros; [congruence|]. right; right; left. exists r. auto.
    + destruct ch; ra.
    + ra.
    + destruct (is_full p); [ra|].
      destruct (negb (disc p =? tag)); [ra|].
      destruct (after c f). simpl. split; intros; [congruence|]. right; right; right. exists r. reflexivity.
    + destruct (after c f). ra.
  - destruct (nth_error l t) as [[]|]; ra.
  - destruct (nth_error l t) as [[]|]; ra.
Qed.

(* the callbacks of a refresh: the Drop of every drained resource runs under both locks, and the
   only other callback is the reset of the refresher's own first new resource *)
Lemma refresh_cbs s t ch w :
  nth_error (ths s) t = Some Idle ->
  gstep_cbs s (Step t CiRefresh ch w) =
    map (mkcb CbDrop true true) (queue (pl s)) ++
    (if size (pl s) =? 0 then []
     else [mkcb CbReset false false {| rid := fresh_id s; built_for := disc (pl s) + 1; dirty := false |}]).
Proof.
  destruct s as [p f l]. cbn [pl ths fresh_id gstep_cbs]. intros ->. unfold step_cbs. cbn [step].
  unfold start_fill. destruct (size p =? 0); reflexivity.
Qed.

(* every callback either runs under the queue lock on a queued resource, or runs with no lock held
   on the stepped thread's own resource (not queued: the thread stops in it) *)
Definition own_cb (s' : gstate) (t : nat) (c : cb) : Prop :=
  match nth_error (ths s') t with Some c' => pc_cb c' = [c] | None => False end.

Lemma pc_cb_open s c : In c (pc_cb s) -> cb_qlock c = false /\ cb_dlock c = false /\ pc_cb s = [c].
Proof. destruct s; simpl; try contradiction; intros [<-|[]]; auto. Qed.

Lemma in_map_mkcb k ql dl q c : In c (map (mkcb k ql dl) q) ->
  cb_qlock c = ql /\ cb_dlock c = dl /\ exists r, In r q /\ cb_rid c = rid r.
Proof. intros H. apply in_map_iff in H. destruct H as [r [<- Hr]]. simpl. eauto. Qed.

Definition pc_of (x : pool * N * pc * out * bool) : pc := let '(_, _, s', _, _) := x in s'.

Lemma step_cbs_classify p f s ci ch c :
  In c (step_cbs p f s ci ch) ->
  (cb_qlock c = true /\ exists r, In r (queue p) /\ cb_rid c = rid r) \/
  (cb_qlock c = false /\ cb_dlock c = false /\ pc_cb (pc_of (step p f s ci ch)) = [c]).
Proof.
  unfold step_cbs, pc_of. destruct (step p f s ci ch) as [[[[p' f'] s'] o] b] eqn:Es.
  assert (Own : In c (pc_cb s') -> cb_qlock c = false /\ cb_dlock c = false /\ pc_cb s' = [c]) by apply pc_cb_open.
  assert (Q : forall k dl, In c (map (mkcb k true dl) (queue p)) ->
              cb_qlock c = true /\ exists r, In r (queue p) /\ cb_rid c = rid r).
  { intros k dl H. destruct (in_map_mkcb _ _ _ _ _ H) as [A [_ B]]. auto. }
  destruct s; try (intros H; right; auto; fail); try contradiction.
  destruct ci; try contradiction; try (intros H; right; auto; fail);
    try (intros H; left; eapply Q; exact H; fail);
    (intros H; apply in_app_or in H; destruct H as [H|H]; [left; eapply Q; exact H|right; auto]).
Qed.
