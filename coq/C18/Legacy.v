(* C18/Legacy.v — the pool as it was BEFORE the three fixes (repository state at the hook commit
   39cc58658), same modelling style as Model.v, executable definitions only.  Not the model of
   today's code: kept to document, by machine-checked witnesses (Refuted.v), why each fix is
   needed.  Each witness was also observed on the real pre-fix pool through the yield hook.

     give_back_resource             { count() == size ? -> discard }  ;  { lock queue; discriminant <> tag -> discard | push }
     give_back_resource_pool_item   { read the pool's CURRENT discriminant }  then give_back_resource with it
     compute_cache                  { read discriminant } ; { set_discriminant g } ; { clear } ; size x give_back_resource(new, g) *)
From MV Require Import Base.Prelude.
Open Scope N_scope.

Record lres := { lrid : N; lbuilt_for : N }.
Record lpool := { ldisc : N; lqueue : list lres; lsize : N }.

Inductive lcont := LCIdle | LCFill (g k : N).
Inductive lpc :=
| LIdle
| LHolding (r : lres) (tag : N)
| LGBItemRead (r : lres) (tag : N)          (* give_back_resource_pool_item: about to read the pool's discriminant *)
| LGBCount (r : lres) (tag : N) (c : lcont)  (* give_back_resource: size test (count() takes and releases the lock) *)
| LGBPush (r : lres) (tag : N) (c : lcont)   (* give_back_resource: lock queue, compare discriminant, push *)
| LRefSet (g : N)                            (* compute_cache: set_discriminant g *)
| LRefClear (g : N)                          (* compute_cache: clear *)
| LRefFill (g k : N).                        (* compute_cache: k new resources left to give back *)

Inductive lchoice := LAcquire | LRefresh | LDrop | LGiveItem | LNone.

Definition lafter (c : lcont) : lpc := match c with LCIdle => LIdle | LCFill g k => LRefFill g k end.

Definition lstep (p : lpool) (s : lpc) (ch : lchoice) (fresh : N) : lpool * lpc * option lres :=
  match s with
  | LIdle =>
    match ch with
    | LAcquire => match lqueue p with
                  | r :: q => ({| ldisc := ldisc p; lqueue := q; lsize := lsize p |}, LHolding r (ldisc p), Some r)
                  | [] => (p, LIdle, None)
                  end
    | LRefresh => (p, LRefSet (ldisc p + 1), None)
    | _ => (p, LIdle, None)
    end
  | LHolding r tag =>
    match ch with
    | LDrop => (p, LGBCount r tag LCIdle, None)
    | LGiveItem => (p, LGBItemRead r tag, None)
    | _ => (p, s, None)
    end
  | LGBItemRead r tag => (p, LGBCount r (ldisc p) LCIdle, None)
  | LGBCount r tag c =>
    if N.of_nat (length (lqueue p)) =? lsize p then (p, lafter c, None) else (p, LGBPush r tag c, None)
  | LGBPush r tag c =>
    if negb (ldisc p =? tag) then (p, lafter c, None)
    else ({| ldisc := ldisc p; lqueue := lqueue p ++ [r]; lsize := lsize p |}, lafter c, None)
  | LRefSet g => ({| ldisc := g; lqueue := lqueue p; lsize := lsize p |}, LRefClear g, None)
  | LRefClear g => ({| ldisc := ldisc p; lqueue := []; lsize := lsize p |}, LRefFill g (lsize p), None)
  | LRefFill g k =>
    if k =? 0 then (p, LIdle, None)
    else (p, LGBCount {| lrid := fresh; lbuilt_for := g |} g (LCFill g (k - 1)), None)
  end.

Definition lgstate := (lpool * list lpc)%type.
Fixpoint lset_nth {A} (l : list A) (i : nat) (x : A) : list A :=
  match l, i with
  | [], _ => []
  | _ :: r, O => x :: r
  | a :: r, S j => a :: lset_nth r j x
  end.
Definition lgstep (g : lgstate) (t : nat) (ch : lchoice) (fresh : N) : lgstate * option lres :=
  let '(p, ths) := g in
  match nth_error ths t with
  | Some s => let '(p', s', out) := lstep p s ch fresh in ((p', lset_nth ths t s'), out)
  | None => (g, None)
  end.

(* runs a schedule; records (thread, resource id, generation it was built for, discriminant at
   the hand-out) for every hand-out, and the longest queue seen *)
Fixpoint lrun (g : lgstate) (sched : list (nat * lchoice)) (fresh : N) (outs : list (nat * N * N * N)) (maxq : nat)
  : list (nat * N * N * N) * nat :=
  match sched with
  | [] => (rev outs, maxq)
  | (t, ch) :: r =>
    let '(g', out) := lgstep g t ch fresh in
    lrun g' r (fresh + 1)
         (match out with Some x => (t, lrid x, lbuilt_for x, ldisc (fst g')) :: outs | None => outs end)
         (Nat.max maxq (length (lqueue (fst g'))))
  end.

Definition linit (sz : N) (k n : nat) : lgstate :=
  ({| ldisc := 0; lqueue := map (fun i => {| lrid := N.of_nat i; lbuilt_for := 0 |}) (seq 1 k); lsize := sz |},
   repeat LIdle n).
