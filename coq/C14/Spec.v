(* C14/Spec.v — predicates used in the statements of the C14 theorems. *)
From Coq Require Import Lia.
From MV Require Import Base.Prelude C14.Model.
Open Scope N_scope.

(* histories *)
Definition no_crash (l : list ev) : Prop :=
  Forall (fun e => match e with Crash _ => False | _ => True end) l.
(* histories in which the only forbidden event is a crash between certificate insert and open-message update *)
Definition no_cert_cut (l : list ev) : Prop := Forall (fun e => e <> Crash CutCertInserted) l.
Definition reachable (k : N) (all : list N) (s : st) : Prop := exists l, no_crash l /\ s = run_st k all l.
(* reachable with arbitrary crashes (C15 alphabet) *)
Definition reachable_c (k : N) (all : list N) (s : st) : Prop := exists l, s = run_st k all l.

(* first index of a certificate of epoch e *)
Fixpoint first_idx (cs : list cert) (e : N) : option nat :=
  match cs with
  | [] => None
  | c :: r => if c_epoch c =? e then Some 0%nat else option_map S (first_idx r e)
  end.
(* the master certificate of epoch e according to the rule: first of epoch e, else first of epoch e-1 *)
Definition mfirst (cs : list cert) (e : N) : option nat :=
  match first_idx cs e with Some j => Some j | None => first_idx cs (e - 1) end.

Definition cert_ents (cs : list cert) : list entity :=
  flat_map (fun c => match c_ent c with Some x => [x] | None => [] end) cs.

(* the stored chain, built the way the aggregator builds it *)
Inductive chain : list cert -> Prop :=
| chain_gen g : c_parent g = None -> c_ent g = None -> 1 <= c_epoch g -> chain [g]
| chain_snoc cs c j p x le :
    chain cs -> c_ent c = Some x -> en_epoch x = c_epoch c -> c_parent c = Some j ->
    last_epoch cs = Some le -> le <= c_epoch c -> c_epoch c <= le + 1 ->
    mfirst cs (c_epoch c) = Some j -> nth_error cs j = Some p -> link_ok p c = true ->
    chain (cs ++ [c]).

(* T1 *)
Definition epochs_ok (cs : list cert) (ep : N) : Prop :=
  (forall i c, nth_error cs i = Some c -> 1 <= c_epoch c /\ c_epoch c <= ep) /\
  (forall i c c', nth_error cs i = Some c -> nth_error cs (S i) = Some c' ->
                  c_epoch c <= c_epoch c' /\ c_epoch c' <= c_epoch c + 1).

(* T2 *)
Definition parent_rule (cs : list cert) : Prop :=
  (exists g, nth_error cs 0 = Some g /\ c_ent g = None /\ c_parent g = None) /\
  (forall i c, nth_error cs i = Some c ->
     match c_ent c with
     | None => i = 0%nat /\ c_parent c = None
     | Some x => exists j, c_parent c = Some j /\ (j < i)%nat /\ en_epoch x = c_epoch c /\
                           mfirst (firstn i cs) (c_epoch c) = Some j
     end).

(* T3 *)
Definition links_ok (cs : list cert) : Prop :=
  forall i c, nth_error cs i = Some c -> c_ent c <> None ->
    exists j p, c_parent c = Some j /\ (j < i)%nat /\ nth_error cs j = Some p /\ link_ok p c = true.
(* follow the parent links from index i; Some 0 = arrived at the genesis *)
Fixpoint walk (cs : list cert) (fuel i : nat) : option nat :=
  match fuel with
  | O => None
  | S f => match nth_error cs i with
           | None => None
           | Some c => match c_parent c with None => Some i | Some j => walk cs f j end
           end
  end.

(* T4 *)
Definition sublist_of (a b : list N) : Prop := forall p, In p a -> In p b.
Definition keys_ok (cs : list cert) (regs : list (N * list N)) : Prop :=
  forall c, In c cs -> c_ent c <> None ->
    c_set c = reg_at regs (c_epoch c - 1) /\ c_next c = reg_at regs (c_epoch c) /\
    sublist_of (c_signers c) (c_set c).

(* T8 *)
Definition ents_ok (ents : list sent) (cs : list cert) : Prop :=
  forall e, In e ents -> exists c, nth_error cs (se_cert e) = Some c /\ c_ent c = Some (se_ent e).

(* supporting invariants *)
Definition cep (cs : list cert) (env : tpoint) : Prop := forall c, In c cs -> c_epoch c <= tp_epoch env.
Definition flag (cs : list cert) (oms : list om) (env : tpoint) : Prop :=
  forall x, In x (cert_ents cs) ->
    en_epoch x < tp_epoch env \/ exists o, find_om oms x = Some o /\ om_cert o = true.

Definition Inv1 (b : bool) (s : st) : Prop :=
  chain (s_certs s) /\ cep (s_certs s) (s_env s) /\
  ents_ok (s_ents s) (s_certs s) /\ NoDup (map se_ent (s_ents s)) /\
  (b = true -> flag (s_certs s) (s_oms s) (s_env s) /\ NoDup (cert_ents (s_certs s))).

(* the effect of a cycle that stores a certificate (T6): s is the state after the expiry check *)
Definition sealed0 (k : N) (c : option cut) (s s' : st) (x : entity) : Prop :=
  exists o d j p,
    find_om (s_oms s) x = Some o /\ om_cert o = false /\ om_exp o = false /\
    s_ed s = Some d /\ ed_comp d = true /\ quorum k (om_sigs o) = true /\
    master (s_certs s) (en_epoch x) = Some j /\ nth_error (s_certs s) j = Some p /\
    let crt := {| c_epoch := en_epoch x; c_ent := Some x; c_parent := Some j;
                  c_signers := filter (fun q => mem q (map fst (om_sigs o))) (ed_cur d);
                  c_set := ed_cur d; c_next := om_next o |} in
    link_ok p crt = true /\
    s_env s' = s_env s /\
    s_certs s' = s_certs s ++ [crt] /\
    (s_ents s' = s_ents s \/
     (existsb (fun e => ent_eqb (se_ent e) x) (s_ents s) = false /\
      s_ents s' = s_ents s ++ [{| se_ent := x; se_cert := length (s_certs s) |}])) /\
    ((c = Some CutCertInserted /\ s_oms s' = s_oms s) \/
     (c <> Some CutCertInserted /\ s_oms s' = upd_om (s_oms s) x om_set_cert)).
Definition sealed (k : N) (c : option cut) (s s' : st) : Prop :=
  exists cur x, s_rt s = Signing cur x /\ en_epoch x = tp_epoch (s_env s) /\
                (tp_epoch cur <? tp_epoch (s_env s)) = false /\
                sealed0 k c (set_oms s (mark_expired (s_oms s) x)) s' x.

(* open-message flag order used by the effect lemmas *)
Definition oms_le (ep : N) (oms oms' : list om) : Prop :=
  forall x o, find_om oms x = Some o -> om_cert o = true ->
    en_epoch x < ep \/ exists o', find_om oms' x = Some o' /\ om_cert o' = true.
Definition good (f : om -> om) : Prop :=
  forall o, om_ent (f o) = om_ent o /\ (om_cert o = true -> om_cert (f o) = true).

(* T7: the epoch-initialisation branch of the Idle cycle and its precompute error *)
Definition idle_init (s : st) (prev : option tpoint) : bool :=
  match prev with None => true | Some p => tp_epoch p <? tp_epoch (s_env s) end.
Definition precompute_fails (s : st) (prev : option tpoint) : bool :=
  (idle_init s prev && match genesis_epoch (s_certs s) with Some g => g <? tp_epoch (s_env s) | None => false end)
  && (is_nil (reg_at (s_regs s) (tp_epoch (s_env s) - 1)) || is_nil (reg_at (s_regs s) (tp_epoch (s_env s)))).

(* T4 supporting invariants: epoch service data, runtime state, open messages *)
Definition ed_ok (ed : option edata) (regs : list (N * list N)) (env : tpoint) : Prop :=
  forall d, ed = Some d ->
    ed_cur d = reg_at regs (ed_ep d - 1) /\ ed_nxt d = reg_at regs (ed_ep d) /\ ed_ep d <= tp_epoch env.
Definition rt_ok (r : rt) (env : tpoint) (ed : option edata) : Prop :=
  match r with
  | Idle (Some p) => tp_epoch p < tp_epoch env
  | Ready cur => tp_epoch cur <= tp_epoch env /\ (forall d, ed = Some d -> ed_ep d = tp_epoch cur)
  | Signing cur x => tp_epoch cur <= tp_epoch env /\ (forall d, ed = Some d -> ed_ep d = tp_epoch cur) /\
                     en_epoch x = tp_epoch cur
  | _ => True
  end.
Definition om_ok (oms : list om) (env : tpoint) (ed : option edata) (regs : list (N * list N)) : Prop :=
  forall o, In o oms ->
    en_epoch (om_ent o) <= tp_epoch env /\
    (forall d, ed = Some d -> en_epoch (om_ent o) = ed_ep d) /\
    om_next o = reg_at regs (en_epoch (om_ent o)) /\
    (forall p ix, In (p, ix) (om_sigs o) -> mem p (reg_at regs (en_epoch (om_ent o) - 1)) = true).
Definition Inv2 (s : st) : Prop :=
  keys_ok (s_certs s) (s_regs s) /\ ed_ok (s_ed s) (s_regs s) (s_env s) /\
  rt_ok (s_rt s) (s_env s) (s_ed s) /\ om_ok (s_oms s) (s_env s) (s_ed s) (s_regs s).
