(* C14/Proofs3.v — step properties: certificates are only stored by a Signing cycle (T6), gap => blocked (T7). *)
From Coq Require Import Lia.
From MV Require Import Base.Prelude C14.Model C14.Spec C14.Proofs1 C14.Proofs2.
Open Scope N_scope.

Definition cut_of (e : ev) : option cut := match e with Crash c => Some c | _ => None end.
Definition is_cycle (e : ev) : Prop := match e with Tick | Crash _ => True | _ => False end.

(* every event either leaves the certificates alone or is a sealing cycle *)
Lemma astep_eff k s e :
  (s_certs (astep k s e) = s_certs s /\ s_ents (astep k s e) = s_ents s) \/
  (is_cycle e /\ sealed k (cut_of e) s (astep k s e)).
Proof.
  destruct e; cbn [astep cut_of is_cycle]; sc; auto.
  - destruct (tick_eff k None s) as [(Q1 & Q2 & Q3 & Q4)|S]; auto.
  - destruct (s_round s); [destruct (_ =? _)|]; auto.
  - destruct (on_sig_quiet 0 s g x) as (Q1 & Q2 & Q3 & Q4); auto.
  - destruct (tick_eff k (Some c) s) as [(Q1 & Q2 & Q3 & Q4)|S]; auto.
Qed.

Lemma sealed_certs k c s s' : sealed k c s s' -> exists crt, s_certs s' = s_certs s ++ [crt].
Proof.
  intros (cur & x & R & Hx & Lt & (o & d & j & p & F & C1 & C2 & D & C3 & Q & M & Np & S)).
  cbn zeta in S. destruct S as (L & Env & Cs & _). sc. eexists; exact Cs.
Qed.

(* T6 *)
Lemma t6_any k s e : (length (s_certs s) < length (s_certs (astep k s e)))%nat ->
  is_cycle e /\ sealed k (cut_of e) s (astep k s e).
Proof.
  intros H. destruct (astep_eff k s e) as [[Q _]|S]; [rewrite Q in H; lia|exact S].
Qed.
Lemma t6 k s e : match e with Crash _ => False | _ => True end ->
  (length (s_certs s) < length (s_certs (astep k s e)))%nat ->
  e = Tick /\ sealed k None s (astep k s e).
Proof.
  intros Hc H. destruct (t6_any k s e H) as [C S]. destruct e; cbn in C, Hc; try contradiction.
  split; [reflexivity|exact S].
Qed.
(* the sealed open message was not due *)
Lemma sealed_not_due k c s s' : sealed k c s s' ->
  exists cur x o, s_rt s = Signing cur x /\ find_om (s_oms s) x = Some o /\
                  om_cert o = false /\ om_exp o = false /\ om_due o = false /\ quorum k (om_sigs o) = true.
Proof.
  intros (cur & x & R & Hx & Lt & (o & d & j & p & F & C1 & C2 & D & C3 & Q & M & Np & S)). sc.
  unfold mark_expired in F. rewrite find_om_upd in F by (intros o0; destruct (om_due o0); reflexivity).
  destruct (find_om (s_oms s) x) as [o0|] eqn:F0; cbn [option_map] in F; [|discriminate].
  injection F as <-. destruct (find_om_ent _ _ _ F0) as [E0 _]. rewrite E0, ent_eqb_refl in *.
  exists cur, x, o0. destruct (om_due o0) eqn:Du; cbn in C2; [discriminate|]. auto 10.
Qed.

(* T7 *)
Lemma t7_blocked_no_cert k s e since : s_rt s = BlockedGap since -> s_certs (astep k s e) = s_certs s.
Proof.
  intros R. destruct (astep_eff k s e) as [[Q _]|[_ (cur & x & R' & _)]]; [exact Q|congruence].
Qed.
Lemma certs_grow_only_signing k s e : s_certs (astep k s e) <> s_certs s -> exists cur x, s_rt s = Signing cur x.
Proof.
  intros H. destruct (astep_eff k s e) as [[Q _]|[_ (cur & x & R' & _)]]; [contradiction|eauto].
Qed.

Lemma t7_gap_blocks k s prev le : chain (s_certs s) ->
  s_rt s = Idle prev -> last_epoch (s_certs s) = Some le -> le + 1 < tp_epoch (s_env s) ->
  precompute_fails s prev = false ->
  s_rt (astep k s Tick) = BlockedGap (s_env s) /\ s_certs (astep k s Tick) = s_certs s /\
  forall c, s_certs (astep k s (Crash c)) = s_certs s /\
            s_rt (astep k s (Crash c)) = BlockedGap (s_env s).
Proof.
  intros CH R Le Gap Pf. destruct (chain_genesis _ CH) as (g & le' & G & Le' & G1 & G2).
  assert (le' = le) by congruence. subst le'.
  assert (HG : has_gap (tp_epoch (s_env s)) le = true) by (unfold has_gap; apply N.ltb_lt; lia).
  unfold precompute_fails, idle_init in Pf. rewrite G in Pf.
  assert (X : forall c, s_rt (fst (tick_at k c s)) = BlockedGap (s_env s) /\ s_certs (fst (tick_at k c s)) = s_certs s).
  { intros c. unfold tick_at. rewrite R, G, Le. cbn zeta. cbn [ed_cur ed_nxt ed_ep]. rewrite Pf, HG.
    repeat match goal with |- context [if ?b then _ else _] => destruct b end; sc; auto. }
  cbn [astep]. split; [apply X|]. split; [apply X|]. intros c; split; apply X.
Qed.
