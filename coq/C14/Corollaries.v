(* C14/Corollaries.v — the property statements as corollaries of the invariants, and the scenarios. *)
From Coq Require Import Lia.
From MV Require Import Base.Prelude C14.Model C14.Spec C14.Proofs1 C14.Proofs2 C14.Proofs3 C14.Proofs4.
Open Scope N_scope.

Lemma inv1_any k all l : Inv1 false (run_st k all l).
Proof. apply inv1_run; [apply inv1_init|discriminate]. Qed.
Lemma inv1_nocut k all l : no_cert_cut l -> Inv1 true (run_st k all l).
Proof. intros H. apply inv1_run; [apply inv1_init|auto]. Qed.

Lemma chain_any k all l : chain (s_certs (run_st k all l)).
Proof. destruct (inv1_any k all l) as (A & _). exact A. Qed.

(* T1 *)
Lemma t1_any k all l : epochs_ok (s_certs (run_st k all l)) (tp_epoch (s_env (run_st k all l))).
Proof. destruct (inv1_any k all l) as (A & B & _). apply chain_epochs; auto. Qed.
Lemma t1 k all l : no_crash l -> epochs_ok (s_certs (run_st k all l)) (tp_epoch (s_env (run_st k all l))).
Proof. intros _. apply t1_any. Qed.

(* T2 *)
Lemma t2_any k all l : parent_rule (s_certs (run_st k all l)) /\
  forall e, master (s_certs (run_st k all l)) e = mfirst (s_certs (run_st k all l)) e.
Proof. destruct (inv1_any k all l) as (A & _). split; [apply chain_parent_rule|apply master_mfirst]; auto. Qed.
Lemma t2 k all l : no_crash l -> parent_rule (s_certs (run_st k all l)) /\
  forall e, master (s_certs (run_st k all l)) e = mfirst (s_certs (run_st k all l)) e.
Proof. intros _. apply t2_any. Qed.

(* T3 *)
Lemma t3_any k all l : links_ok (s_certs (run_st k all l)) /\
  forall i, (i < length (s_certs (run_st k all l)))%nat -> walk (s_certs (run_st k all l)) (S i) i = Some 0%nat.
Proof.
  destruct (inv1_any k all l) as (A & _). split; [apply chain_links; auto|].
  intros i Hi. apply chain_walk; auto.
Qed.
Lemma t3 k all l : no_crash l -> links_ok (s_certs (run_st k all l)) /\
  forall i, (i < length (s_certs (run_st k all l)))%nat -> walk (s_certs (run_st k all l)) (S i) i = Some 0%nat.
Proof. intros _. apply t3_any. Qed.

(* T5 *)
Lemma t5_nocut k all l : no_cert_cut l -> NoDup (cert_ents (s_certs (run_st k all l))).
Proof. intros H. destruct (inv1_nocut k all l H) as (_ & _ & _ & _ & E). apply E; reflexivity. Qed.
Lemma t5 k all l : no_crash l -> NoDup (cert_ents (s_certs (run_st k all l))).
Proof. intros H. apply t5_nocut, no_crash_no_cut, H. Qed.
Lemma t5_flag k all l : no_cert_cut l ->
  flag (s_certs (run_st k all l)) (s_oms (run_st k all l)) (s_env (run_st k all l)).
Proof. intros H. destruct (inv1_nocut k all l H) as (_ & _ & _ & _ & E). apply E; reflexivity. Qed.

(* T8 *)
Lemma t8_any k all l : ents_ok (s_ents (run_st k all l)) (s_certs (run_st k all l)) /\
  NoDup (map se_ent (s_ents (run_st k all l))).
Proof. destruct (inv1_any k all l) as (_ & _ & C & D & _). auto. Qed.
Lemma t8 k all l : no_crash l -> ents_ok (s_ents (run_st k all l)) (s_certs (run_st k all l)) /\
  NoDup (map se_ent (s_ents (run_st k all l))).
Proof. intros _. apply t8_any. Qed.

(* T4 *)
Lemma inv2_any k all l : Inv2 (run_st k all l).
Proof. apply inv12_run; [apply inv1_init|apply inv2_init]. Qed.
Lemma t4_any k all l : keys_ok (s_certs (run_st k all l)) (s_regs (run_st k all l)).
Proof. destruct (inv2_any k all l) as (K & _). exact K. Qed.
Lemma t4 k all l : no_crash l -> keys_ok (s_certs (run_st k all l)) (s_regs (run_st k all l)).
Proof. intros _. apply t4_any. Qed.
Lemma t4_support k all l : no_crash l -> Inv2 (run_st k all l).
Proof. intros _. apply inv2_any. Qed.

(* T6 with the membership of the stored signers, in reachable states *)
Lemma t6_full k all l e :
  (length (s_certs (run_st k all l)) < length (s_certs (astep k (run_st k all l) e)))%nat ->
  is_cycle e /\
  exists cur x o crt,
    s_rt (run_st k all l) = Signing cur x /\ en_epoch x = tp_epoch (s_env (run_st k all l)) /\
    find_om (s_oms (run_st k all l)) x = Some o /\
    om_cert o = false /\ om_exp o = false /\ om_due o = false /\ quorum k (om_sigs o) = true /\
    (forall p ix, In (p, ix) (om_sigs o) ->
                  mem p (reg_at (s_regs (run_st k all l)) (en_epoch x - 1)) = true) /\
    s_certs (astep k (run_st k all l) e) = s_certs (run_st k all l) ++ [crt] /\
    c_ent crt = Some x /\ c_epoch crt = en_epoch x.
Proof.
  set (s := run_st k all l). intros H. destruct (t6_any k s e H) as [C S]. split; [exact C|].
  destruct (inv2_any k all l) as (_ & _ & _ & Om). fold s in Om.
  destruct S as (cur & x & R & Hx & Lt & (o & d & j & p & F & C1 & C2 & D & C3 & Q & M & Np & S)).
  cbn zeta in S. destruct S as (L & Env & Cs & _). sc.
  unfold mark_expired in F. rewrite find_om_upd in F by (intros o0; destruct (om_due o0); reflexivity).
  destruct (find_om (s_oms s) x) as [o0|] eqn:F0; cbn [option_map] in F; [|discriminate].
  injection F as <-. destruct (find_om_ent _ _ _ F0) as [E0 I0]. rewrite E0, ent_eqb_refl in *.
  destruct (Om o0 I0) as (_ & _ & _ & O4). rewrite E0 in O4.
  destruct (om_due o0) eqn:Du; cbn in C2; [discriminate|].
  eexists cur, x, o0, _. split; [exact R|]. split; [exact Hx|]. split; [exact F0|].
  split; [exact C1|]. split; [exact C2|]. split; [exact Du|]. split; [exact Q|]. split; [exact O4|].
  split; [exact Cs|]. split; reflexivity.
Qed.
Lemma t6_full_nocrash k all l e : no_crash l -> match e with Crash _ => False | _ => True end ->
  (length (s_certs (run_st k all l)) < length (s_certs (astep k (run_st k all l) e)))%nat ->
  e = Tick /\
  exists cur x o crt,
    s_rt (run_st k all l) = Signing cur x /\ en_epoch x = tp_epoch (s_env (run_st k all l)) /\
    find_om (s_oms (run_st k all l)) x = Some o /\
    om_cert o = false /\ om_exp o = false /\ om_due o = false /\ quorum k (om_sigs o) = true /\
    (forall p ix, In (p, ix) (om_sigs o) ->
                  mem p (reg_at (s_regs (run_st k all l)) (en_epoch x - 1)) = true) /\
    s_certs (astep k (run_st k all l) e) = s_certs (run_st k all l) ++ [crt] /\
    c_ent crt = Some x /\ c_epoch crt = en_epoch x.
Proof.
  intros _ Hc H. destruct (t6_full k all l e H) as [C S]. split; [|exact S].
  destruct e; cbn in C, Hc; try contradiction. reflexivity.
Qed.

(* ---------- scenarios ---------- *)
Definition x2 : entity := {| en_ty := MSD; en_epoch := 2; en_imm := 0 |}.
Definition xc : entity := {| en_ty := CDB; en_epoch := 2; en_imm := 1 |}.
Definition sg_of (x : entity) (p : N) : sg :=
  {| sg_party := p; sg_set := [0;1;2]; sg_signed := x; sg_idxs := [p; p + 10]; sg_dmq := false |}.
Definition prefix2 : list ev :=
  [Tick; Reg 0; Reg 1; NewEpoch; Tick; Tick; Tick; Sig (sg_of x2 0) x2; Sig (sg_of x2 1) x2].
(* epoch 2: the stake distribution, then the database *)
Definition scenario : list ev :=
  prefix2 ++ [Tick; Tick; Sig (sg_of xc 0) xc; Sig (sg_of xc 1) xc; Tick].
(* crash after the certificate insert, before the open message is marked *)
Definition scenario_cut : list ev := prefix2 ++ [Crash CutCertInserted; Tick; Tick; Tick].

Lemma scenario_ok : no_crash scenario /\
  map c_ent (s_certs (run_st 3 [0;1;2] scenario)) = [None; Some x2; Some xc] /\
  map c_parent (s_certs (run_st 3 [0;1;2] scenario)) = [None; Some 0%nat; Some 1%nat] /\
  map se_cert (s_ents (run_st 3 [0;1;2] scenario)) = [1%nat; 2%nat].
Proof. split; [repeat constructor|]. vm_compute. auto. Qed.

Lemma scenario_cut_dup :
  cert_ents (s_certs (run_st 3 [0;1;2] scenario_cut)) = [x2; x2] /\
  ~ NoDup (cert_ents (s_certs (run_st 3 [0;1;2] scenario_cut))).
Proof.
  assert (E : cert_ents (s_certs (run_st 3 [0;1;2] scenario_cut)) = [x2; x2]) by (vm_compute; reflexivity).
  split; [exact E|]. rewrite E. intros H. inversion H; subst. apply H2. left; reflexivity.
Qed.

(* ---------- ingress paths (HTTP route / DMQ consumer) ---------- *)
(* whatever the ingress path, a single signature changes the open messages only when it is valid for
   the entity of an existing, non-certified, non-expired open message under the registration set in
   force (the DMQ path skips the authentication, never this verification) *)
Lemma stored_sig_valid s g x :
  s_oms (on_sig s g x) <> s_oms s ->
  exists d o, s_ed s = Some d /\ ed_comp d = true /\ find_om (s_oms s) x = Some o /\
              om_cert o = false /\ om_exp o = false /\ sig_valid_for (ed_cur d) g x = true.
Proof.
  unfold on_sig, register. destruct (authenticated _ _); [|intros H; now elim H].
  destruct (find_om (s_oms s) x) as [o|] eqn:F; [|intros H; now elim H].
  destruct (om_cert o) eqn:C; [intros H; now elim H|].
  destruct (om_exp o) eqn:E; [intros H; now elim H|].
  destruct (s_ed s) as [d|]; [|intros H; now elim H].
  destruct (ed_comp d) eqn:Cp; cbn [andb]; [|intros H; now elim H].
  destruct (sig_valid_for (ed_cur d) g x) eqn:V; [|intros H; now elim H].
  intros _. exists d, o. repeat split; auto.
Qed.
(* a signature never touches certificates, signed entities, the runtime state or the registrations *)
Lemma on_sig_frame s g x :
  s_certs (on_sig s g x) = s_certs s /\ s_ents (on_sig s g x) = s_ents s /\
  s_rt (on_sig s g x) = s_rt s /\ s_regs (on_sig s g x) = s_regs s.
Proof.
  unfold on_sig. destruct (authenticated _ _); [|auto].
  destruct (register s x g); cbn; auto.
Qed.
(* only an authenticated signature (route) or a DMQ one is ever buffered *)
Lemma buffered_only_without_open_message s g x :
  s_buf (on_sig s g x) <> s_buf s -> find_om (s_oms s) x = None /\ authenticated (s_ed s) g = true.
Proof.
  unfold on_sig, register. destruct (authenticated _ _) eqn:A; [|intros H; now elim H].
  destruct (find_om (s_oms s) x) as [o|]; [|auto].
  destruct (om_cert o); [intros H; now elim H|]. destruct (om_exp o); [intros H; now elim H|].
  destruct (s_ed s) as [d|]; [|intros H; now elim H].
  destruct (ed_comp d && sig_valid_for (ed_cur d) g x); intros H; now elim H.
Qed.

(* signers that saw the epoch change before the aggregator: signatures for the stake distribution of
   epoch 3, made under the registrations of epoch 2 (the aggregator's NEXT set), arrive while the
   aggregator is still in epoch 2; they are authenticated by the next-set rule, buffered, handed over
   when the open message of epoch 3 is created, and seal it with no further signature *)
Definition x3 : entity := {| en_ty := MSD; en_epoch := 3; en_imm := 0 |}.
Definition sg_early (p : N) : sg :=
  {| sg_party := p; sg_set := [0;1]; sg_signed := x3; sg_idxs := [p; p + 10]; sg_dmq := false |}.
Definition scenario_early : list ev :=
  scenario ++ [Reg 0; Reg 1; Reg 2; NewEpoch; Sig (sg_early 0) x3; Sig (sg_early 1) x3; Tick; Tick; Tick; Tick].
Lemma scenario_early_ok :
  map obs_buf (s_buf (run_st 3 [0;1;2] (scenario ++ [Reg 0; Reg 1; Reg 2; NewEpoch; Sig (sg_early 0) x3; Sig (sg_early 1) x3])))
    = [OL [ON 0; ON 0]; OL [ON 0; ON 1]] /\
  map c_ent (s_certs (run_st 3 [0;1;2] scenario_early)) = [None; Some x2; Some xc; Some x3] /\
  map c_set (s_certs (run_st 3 [0;1;2] scenario_early)) = [[0;1;2]; [0;1;2]; [0;1;2]; [0;1]] /\
  s_buf (run_st 3 [0;1;2] scenario_early) = [].
Proof. vm_compute. auto. Qed.
(* garbage from the DMQ (made under a set that is not in force, for another entity) is buffered without
   any check, skipped at the hand-over, stays in the buffer and changes no certificate *)
Definition sg_junk : sg :=
  {| sg_party := 2; sg_set := [2]; sg_signed := x2; sg_idxs := [1;2;3;4;5]; sg_dmq := true |}.
Definition scenario_dmq : list ev :=
  prefix2 ++ [Sig sg_junk xc; Tick; Tick; Sig (sg_of xc 0) xc; Sig (sg_of xc 1) xc; Tick].
Lemma scenario_dmq_ok :
  map obs_cert (s_certs (run_st 3 [0;1;2] scenario_dmq)) = map obs_cert (s_certs (run_st 3 [0;1;2] scenario)) /\
  map obs_buf (s_buf (run_st 3 [0;1;2] scenario_dmq)) = [OL [ON 2; ON 2]] /\
  s_buf (run_st 3 [0;1;2] (prefix2 ++ [Sig (sg_of xc 2) xc])) <> [] /\
  s_buf (run_st 3 [0;1;2] (prefix2 ++ [Sig {| sg_party := 2; sg_set := [2]; sg_signed := x2; sg_idxs := [1]; sg_dmq := false |} xc])) = [].
Proof. vm_compute. repeat split; auto. discriminate. Qed.
