(* C14/Model.v — the leader aggregator as a state machine over its database.
   Executable definitions only.  Shared by C14 (Tick = tick with no cut) and
   C15 (Crash c = tick stopped at the named persistence cut, then restart).

   Sources mirrored (as they are today, see DESIGN 6D):
     runtime/state_machine.rs      cycle_idle / cycle_blocked / cycle_ready / cycle_signing
     runtime/runner.rs             get_current_non_certified_open_message, is_open_message_outdated,
                                   mark_open_message_if_expired, inform_new_epoch, precompute_epoch_data
     services/certifier/certifier_service.rs   register_single_signature, create_certificate,
                                   verify_certificate_chain (epoch gap), inform_epoch (clean_epoch)
     services/certifier/buffered_certifier.rs  buffering + hand-over at open-message creation
     services/signed_entity.rs     create_artifact_task (signed entity insert, unique (type, beacon))
     services/epoch_service.rs     inform_epoch / precompute_epoch_data (signer sets by epoch offsets)
     services/signer_registration/leader.rs    registration round
     tools/single_signature_authenticator.rs   current-or-next authentication (HTTP route)
     services/signature_processor.rs           DMQ ingress: authenticated without verification
     database/query/certificate/get_master_certificate.rs

   Idealisations: a certificate is a row; its aggregate key is the *set* of
   registered parties it commits to (H-inj: equal keys <-> equal sets, stakes and
   keys of a party are fixed); a single signature is (party, registration set it
   was produced under, entity whose message was signed, won lottery indices) and
   verifies under a registration set S for message m iff set = S, party in S and
   m is the signed message (S-ideal); the won indices are supplied by the harness
   from the real lottery (RO); aggregation succeeds iff the stored signatures
   carry at least k distinct indices (C02).  Wall-clock expiry is the event
   [Expire] (the row's expires_at is now in the past). *)
From MV Require Import Base.Prelude.
Open Scope N_scope.

(* ---------- entities, time points ---------- *)
Inductive ety := MSD | CDB.      (* allowed discriminants, in BTreeSet order *)
Definition ety_eqb (a b : ety) : bool :=
  match a, b with MSD, MSD => true | CDB, CDB => true | _, _ => false end.
Definition ety_code (t : ety) : N := match t with MSD => 0 | CDB => 2 end.

(* MithrilStakeDistribution(epoch) = (MSD, epoch, 0); CardanoDatabase(epoch, immutable) *)
Record entity := { en_ty : ety; en_epoch : N; en_imm : N }.
Definition ent_eqb (a b : entity) : bool :=
  ety_eqb (en_ty a) (en_ty b) && (en_epoch a =? en_epoch b) && (en_imm a =? en_imm b).

Record tpoint := { tp_epoch : N; tp_imm : N }.
(* SignedEntityConfig::time_point_to_signed_entity *)
Definition entity_of (t : ety) (tp : tpoint) : entity :=
  match t with
  | MSD => {| en_ty := MSD; en_epoch := tp_epoch tp; en_imm := 0 |}
  | CDB => {| en_ty := CDB; en_epoch := tp_epoch tp; en_imm := tp_imm tp |}
  end.

(* ---------- sets of parties: strictly sorted lists ---------- *)
Fixpoint mem (p : N) (l : list N) : bool :=
  match l with [] => false | x :: r => (x =? p) || mem p r end.
Fixpoint set_eqb (a b : list N) : bool :=
  match a, b with
  | [], [] => true
  | x :: a', y :: b' => (x =? y) && set_eqb a' b'
  | _, _ => false
  end.
Fixpoint insert (p : N) (l : list N) : list N :=
  match l with
  | [] => [p]
  | x :: r => if p <? x then p :: l else if p =? x then l else x :: insert p r
  end.
Definition is_nil {A} (l : list A) : bool := match l with [] => true | _ => false end.

(* ---------- rows ---------- *)
(* sg_dmq: ingress path.  false = POST /register-signatures (the route authenticates the signature
   against the message the signer announces, under the current or the next stake distribution, and
   drops it otherwise); true = DMQ consumer (SequentialSignatureProcessor::process_signatures marks
   every received signature Authenticated without verifying it, then calls the same certifier) *)
Record sg := { sg_party : N; sg_set : list N; sg_signed : entity; sg_idxs : list N; sg_dmq : bool }.

Record om := {
  om_ent : entity;            (* (type, beacon); epoch_setting_id = en_epoch *)
  om_next : list N;           (* next aggregate key committed in the protocol message *)
  om_cert : bool; om_exp : bool;
  om_due : bool;              (* expires_at < now *)
  om_sigs : list (N * list N) (* single_signature rows: party -> won indices *)
}.

Record cert := {
  c_epoch : N;
  c_ent : option entity;      (* None = genesis *)
  c_parent : option nat;      (* rowid order position of the parent *)
  c_signers : list N;         (* metadata signers *)
  c_set : list N;             (* aggregate verification key (set it commits to) *)
  c_next : list N             (* next aggregate verification key in the signed message *)
}.

Record sent := { se_ent : entity; se_cert : nat }.

Record edata := { ed_ep : N; ed_cur : list N; ed_nxt : list N; ed_comp : bool }.

Inductive rt :=
| Idle (prev : option tpoint)
| BlockedGap (since : tpoint)
| BlockedGenesis (since : tpoint)
| Ready (cur : tpoint)
| Signing (cur : tpoint) (x : entity).

Record st := {
  s_rt : rt;
  s_env : tpoint;                       (* what the chain observer / immutable observer report *)
  s_oms : list om;
  s_certs : list cert;                  (* rowid order *)
  s_ents : list sent;
  s_buf : list (ety * sg);              (* rowid order, key (type, party) *)
  s_regs : list (N * list N);           (* verification-key store: epoch -> parties *)
  s_round : option N;                   (* in-memory registration round *)
  s_ed : option edata                   (* in-memory epoch service data *)
}.

Definition set_rt (s : st) (r : rt) : st :=
  {| s_rt := r; s_env := s_env s; s_oms := s_oms s; s_certs := s_certs s; s_ents := s_ents s;
     s_buf := s_buf s; s_regs := s_regs s; s_round := s_round s; s_ed := s_ed s |}.
Definition set_env (s : st) (e : tpoint) : st :=
  {| s_rt := s_rt s; s_env := e; s_oms := s_oms s; s_certs := s_certs s; s_ents := s_ents s;
     s_buf := s_buf s; s_regs := s_regs s; s_round := s_round s; s_ed := s_ed s |}.
Definition set_oms (s : st) (o : list om) : st :=
  {| s_rt := s_rt s; s_env := s_env s; s_oms := o; s_certs := s_certs s; s_ents := s_ents s;
     s_buf := s_buf s; s_regs := s_regs s; s_round := s_round s; s_ed := s_ed s |}.
Definition set_certs (s : st) (c : list cert) : st :=
  {| s_rt := s_rt s; s_env := s_env s; s_oms := s_oms s; s_certs := c; s_ents := s_ents s;
     s_buf := s_buf s; s_regs := s_regs s; s_round := s_round s; s_ed := s_ed s |}.
Definition set_ents (s : st) (e : list sent) : st :=
  {| s_rt := s_rt s; s_env := s_env s; s_oms := s_oms s; s_certs := s_certs s; s_ents := e;
     s_buf := s_buf s; s_regs := s_regs s; s_round := s_round s; s_ed := s_ed s |}.
Definition set_buf (s : st) (b : list (ety * sg)) : st :=
  {| s_rt := s_rt s; s_env := s_env s; s_oms := s_oms s; s_certs := s_certs s; s_ents := s_ents s;
     s_buf := b; s_regs := s_regs s; s_round := s_round s; s_ed := s_ed s |}.
Definition set_regs (s : st) (r : list (N * list N)) : st :=
  {| s_rt := s_rt s; s_env := s_env s; s_oms := s_oms s; s_certs := s_certs s; s_ents := s_ents s;
     s_buf := s_buf s; s_regs := r; s_round := s_round s; s_ed := s_ed s |}.
Definition set_mem (s : st) (round : option N) (ed : option edata) : st :=
  {| s_rt := s_rt s; s_env := s_env s; s_oms := s_oms s; s_certs := s_certs s; s_ents := s_ents s;
     s_buf := s_buf s; s_regs := s_regs s; s_round := round; s_ed := ed |}.

(* ---------- stores ---------- *)
Fixpoint reg_at (regs : list (N * list N)) (e : N) : list N :=
  match regs with
  | [] => []
  | (e', l) :: r => if e' =? e then l else reg_at r e
  end.
Fixpoint reg_add (regs : list (N * list N)) (e p : N) : list (N * list N) :=
  match regs with
  | [] => [(e, [p])]
  | (e', l) :: r => if e' =? e then (e', insert p l) :: r else (e', l) :: reg_add r e p
  end.

Definition find_om (oms : list om) (x : entity) : option om :=
  find (fun o => ent_eqb (om_ent o) x) oms.
Definition upd_om (oms : list om) (x : entity) (f : om -> om) : list om :=
  map (fun o => if ent_eqb (om_ent o) x then f o else o) oms.
Definition om_set_exp (o : om) : om :=
  {| om_ent := om_ent o; om_next := om_next o; om_cert := om_cert o; om_exp := true;
     om_due := om_due o; om_sigs := om_sigs o |}.
Definition om_set_due (o : om) : om :=
  {| om_ent := om_ent o; om_next := om_next o; om_cert := om_cert o; om_exp := om_exp o;
     om_due := true; om_sigs := om_sigs o |}.
Definition om_set_cert (o : om) : om :=
  {| om_ent := om_ent o; om_next := om_next o; om_cert := true; om_exp := om_exp o;
     om_due := om_due o; om_sigs := om_sigs o |}.
(* insert or replace at (open message, party, registration epoch) *)
Definition om_add_sig (p : N) (ix : list N) (o : om) : om :=
  {| om_ent := om_ent o; om_next := om_next o; om_cert := om_cert o; om_exp := om_exp o;
     om_due := om_due o;
     om_sigs := filter (fun r => negb (fst r =? p)) (om_sigs o) ++ [(p, ix)] |}.
(* certifier: mark_open_message_if_expired = get_expired_open_message (type, beacon, expires_at < now) + update *)
Definition mark_expired (oms : list om) (x : entity) : list om :=
  upd_om oms x (fun o => if om_due o then om_set_exp o else o).

(* ---------- certificates ---------- *)
Definition epoch_at (cs : list cert) (j : nat) : option N :=
  match nth_error cs j with Some c => Some (c_epoch c) | None => None end.
(* "parent_certificate_id is null or certificate.epoch != parent_certificate.epoch" (left join) *)
Definition first_of_epoch (cs : list cert) (c : cert) : bool :=
  match c_parent c with
  | None => true
  | Some j => match epoch_at cs j with
              | Some e => negb (e =? c_epoch c)
              | None => false          (* dangling parent: the joined epoch is NULL, comparison is NULL *)
              end
  end.
(* MasterCertificateQuery::for_epoch e: epoch between e-1 and e, first of its epoch, highest rowid *)
Fixpoint master_from (cs all : list cert) (i : nat) (e : N) (acc : option nat) : option nat :=
  match cs with
  | [] => acc
  | c :: r =>
      let hit := ((e - 1 <=? c_epoch c) && (c_epoch c <=? e)) && first_of_epoch all c in
      master_from r all (S i) e (if hit then Some i else acc)
  end.
Definition master (cs : list cert) (e : N) : option nat := master_from cs cs 0 e None.

Definition genesis_epoch (cs : list cert) : option N :=
  (* get_latest_genesis_certificate: latest row with no parent *)
  fold_left (fun acc c => match c_parent c with None => Some (c_epoch c) | Some _ => acc end) cs None.
Definition last_epoch (cs : list cert) : option N :=
  match rev cs with c :: _ => Some (c_epoch c) | [] => None end.
(* Epoch::has_gap_with: abs_diff > 1 *)
Definition has_gap (a b : N) : bool := 1 <? (N.max a b - N.min a b).

(* MithrilCertificateVerifier::verify_certificate on a fresh multi-signature certificate:
   the parent must be stored, and the aggregate key must be the parent's (same epoch) or the
   next key the parent signed (previous epoch); has_gap_with is symmetric (C03 finding kept) *)
Definition link_ok (parent c : cert) : bool :=
  if c_epoch parent =? c_epoch c then set_eqb (c_set parent) (c_set c)
  else negb (has_gap (c_epoch parent) (c_epoch c)) && set_eqb (c_next parent) (c_set c).

(* ---------- signatures ---------- *)
Definition sig_valid_for (S : list N) (s : sg) (x : entity) : bool :=
  set_eqb (sg_set s) S && mem (sg_party s) S && ent_eqb (sg_signed s) x.
(* authentication by the HTTP route: the signature verifies for the message the signer
   says it signed, under the current or the next stake distribution; the DMQ path authenticates
   unconditionally (signature_processor.rs: authenticate_signature) *)
Definition authenticated (ed : option edata) (s : sg) : bool :=
  sg_dmq s ||
  match ed with
  | Some d => ed_comp d &&
      ((set_eqb (sg_set s) (ed_cur d) && mem (sg_party s) (ed_cur d)) ||
       (set_eqb (sg_set s) (ed_nxt d) && mem (sg_party s) (ed_nxt d)))
  | None => false
  end.

Fixpoint dedup (l : list N) : list N :=
  match l with [] => [] | x :: r => if mem x r then dedup r else x :: dedup r end.
Definition distinct_indices (sigs : list (N * list N)) : N :=
  N.of_nat (length (dedup (concat (map snd sigs)))).
Definition quorum (k : N) (sigs : list (N * list N)) : bool := k <=? distinct_indices sigs.

(* insert or replace into buffered_single_signature, key (type, party) *)
Definition buf_add (b : list (ety * sg)) (t : ety) (s : sg) : list (ety * sg) :=
  filter (fun r => negb (ety_eqb (fst r) t && (sg_party (snd r) =? sg_party s))) b ++ [(t, s)].

Inductive reg_res := RegStored (oms : list om) | RegNotFound | RegRefused.
(* MithrilCertifierService::register_single_signature *)
Definition register (s : st) (x : entity) (g : sg) : reg_res :=
  match find_om (s_oms s) x with
  | None => RegNotFound
  | Some o =>
      if om_cert o then RegRefused else if om_exp o then RegRefused else
      match s_ed s with
      | Some d => if ed_comp d && sig_valid_for (ed_cur d) g x
                  then RegStored (upd_om (s_oms s) x (om_add_sig (sg_party g) (sg_idxs g)))
                  else RegRefused
      | None => RegRefused
      end
  end.
(* route handler / DMQ processor + BufferedCertifierService::register_single_signature *)
Definition on_sig (s : st) (g : sg) (x : entity) : st :=
  if authenticated (s_ed s) g then
    match register s x g with
    | RegStored oms => set_oms s oms
    | RegNotFound => set_buf s (buf_add (s_buf s) (en_ty x) g)
    | RegRefused => s
    end
  else s.

(* ---------- crash cuts (C15); C14 runs with no cut ---------- *)
Inductive cut :=
| CutOmCreated            (* open message inserted, hand-over not started *)
| CutBufRegistered (n : nat)  (* after the (n+1)-th buffered signature was registered, before removal *)
| CutBufRemoved           (* after the buffered rows were removed *)
| CutCertInserted         (* certificate inserted, open message not yet marked certified *)
| CutOmCertified          (* open message marked, artifact not started *)
| CutArtifactComputed     (* artifact computed, signed entity not stored *)
| CutEntityStored.        (* signed entity stored *)
Definition cut_is (c : option cut) (k : cut) : bool :=
  match c, k with
  | Some CutOmCreated, CutOmCreated | Some CutBufRemoved, CutBufRemoved
  | Some CutCertInserted, CutCertInserted | Some CutOmCertified, CutOmCertified
  | Some CutArtifactComputed, CutArtifactComputed | Some CutEntityStored, CutEntityStored => true
  | _, _ => false
  end.

(* hand-over of the buffered signatures of a discriminant to the new open message x:
   newest first; valid ones are stored and collected for removal, invalid ones skipped.
   Returns (open messages, parties to remove, crashed) *)
Fixpoint handover (S : list N) (x : entity) (bufs : list sg) (oms : list om) (rm : list N)
         (stop : option nat) : list om * list N * bool :=
  match bufs with
  | [] => (oms, rm, false)
  | g :: r =>
      if sig_valid_for S g x then
        let oms' := upd_om oms x (om_add_sig (sg_party g) (sg_idxs g)) in
        match stop with
        | Some O => (oms', sg_party g :: rm, true)
        | Some (S n) => handover S x r oms' (sg_party g :: rm) (Some n)
        | None => handover S x r oms' (sg_party g :: rm) None
        end
      else handover S x r oms rm stop
  end.

(* the process died: in-memory state is gone, the runtime restarts in Idle *)
Definition restart (s : st) : st := set_mem (set_rt s (Idle None)) None None.

(* result of a tick: new state, and whether the armed cut was reached (then the state is the restarted one) *)
Definition crashed (s : st) : st * bool := (restart s, true).
Definition fine (s : st) : st * bool := (s, false).

(* create the open message for x (none exists), hand the buffered signatures over, go to Signing *)
Definition open_round (c : option cut) (s : st) (d : edata) (tp : tpoint) (x : entity) : st * bool :=
  if negb (ed_comp d) then fine s     (* compute_protocol_message needs the next aggregate key: error, state kept *)
  else
    let o := {| om_ent := x; om_next := ed_nxt d; om_cert := false; om_exp := false; om_due := false; om_sigs := [] |} in
    let s1 := set_oms s (s_oms s ++ [o]) in
    if cut_is c CutOmCreated then crashed s1 else
    let bufs := rev (map snd (filter (fun r => ety_eqb (fst r) (en_ty x)) (s_buf s1))) in
    let stop := match c with Some (CutBufRegistered n) => Some n | _ => None end in
    let '(oms2, rm, dead) := handover (ed_cur d) x bufs (s_oms s1) [] stop in
    let s2 := set_oms s1 oms2 in
    if dead then crashed s2 else
    let s3 := set_buf s2 (filter (fun r => negb (ety_eqb (fst r) (en_ty x) && mem (sg_party (snd r)) rm)) (s_buf s2)) in
    if cut_is c CutBufRemoved then crashed s3 else
    fine (set_rt s3 (Signing tp x)).

(* AggregatorRunner::get_current_non_certified_open_message over the allowed entity types *)
Fixpoint ready_scan (c : option cut) (s : st) (d : edata) (tp : tpoint) (ts : list ety) : st * bool :=
  match ts with
  | [] => fine (set_rt s (Ready tp))
  | t :: r =>
      let x := entity_of t tp in
      let s1 := set_oms s (mark_expired (s_oms s) x) in
      match find_om (s_oms s1) x with
      | None => open_round c s1 d tp x
      | Some o => if negb (om_cert o) && negb (om_exp o) then fine (set_rt s1 (Signing tp x))
                  else ready_scan c s1 d tp r
      end
  end.

(* CertifierService::create_certificate + SignedEntityService::create_artifact *)
Definition seal (k : N) (c : option cut) (s : st) (cur : tpoint) (x : entity) : st * bool :=
  match find_om (s_oms s) x with
  | None => fine s
  | Some o =>
      if om_cert o then fine s else if om_exp o then fine s else
      match master (s_certs s) (en_epoch x), genesis_epoch (s_certs s), s_ed s with
      | Some j, Some _, Some d =>
          if negb (ed_comp d) then fine s else
          if negb (quorum k (om_sigs o)) then fine s      (* NotEnoughSignatures: None, KeepState *)
          else
            let crt := {| c_epoch := en_epoch x; c_ent := Some x; c_parent := Some j;
                          c_signers := filter (fun p => mem p (map fst (om_sigs o))) (ed_cur d);
                          c_set := ed_cur d; c_next := om_next o |} in
            match nth_error (s_certs s) j with
            | Some parent =>
                if negb (link_ok parent crt) then fine s   (* self-verification fails: error, nothing stored *)
                else
                  let idx := length (s_certs s) in
                  let s1 := set_certs s (s_certs s ++ [crt]) in
                  if cut_is c CutCertInserted then crashed s1 else
                  let s2 := set_oms s1 (upd_om (s_oms s1) x om_set_cert) in
                  if cut_is c CutOmCertified then crashed s2 else
                  if cut_is c CutArtifactComputed then crashed s2 else
                  (* signed_entity unique (type, beacon): a second insert fails, the error is only logged *)
                  let s3 := if existsb (fun e => ent_eqb (se_ent e) x) (s_ents s2) then s2
                            else set_ents s2 (s_ents s2 ++ [{| se_ent := x; se_cert := idx |}]) in
                  if cut_is c CutEntityStored then crashed s3 else
                  fine (set_rt s3 (Ready cur))
            | None => fine s
            end
      | _, _, _ => fine s
      end
  end.

Definition all_types : list ety := [MSD; CDB].

(* one cycle of the state machine (leader) *)
Definition tick_at (k : N) (c : option cut) (s : st) : st * bool :=
  let tp := s_env s in
  match s_rt s with
  | Idle prev =>
      let init := match prev with None => true | Some p => tp_epoch p <? tp_epoch tp end in
      let gen := genesis_epoch (s_certs s) in
      (* execute_epoch_initialization_tasks: close round, inform_new_epoch (clean open messages of
         earlier epochs, refresh epoch service), open round for the recording epoch *)
      let d0 := {| ed_ep := tp_epoch tp; ed_cur := reg_at (s_regs s) (tp_epoch tp - 1);
                   ed_nxt := reg_at (s_regs s) (tp_epoch tp); ed_comp := false |} in
      let s1 := if init
                then set_mem (set_oms s (filter (fun o => tp_epoch tp <=? en_epoch (om_ent o)) (s_oms s)))
                             (Some (tp_epoch tp + 1)) (Some d0)
                else s in
      let pre := init && match gen with Some g => g <? tp_epoch tp | None => false end in
      if pre && (is_nil (ed_cur d0) || is_nil (ed_nxt d0)) then fine s1   (* precompute fails: state kept *)
      else
        let s2 := if pre then set_mem s1 (s_round s1)
                    (Some {| ed_ep := ed_ep d0; ed_cur := ed_cur d0; ed_nxt := ed_nxt d0; ed_comp := true |})
                  else s1 in
        match gen, last_epoch (s_certs s) with
        | Some g, Some le =>
            if has_gap (tp_epoch tp) le then fine (set_rt s2 (BlockedGap tp))
            else if g =? tp_epoch tp then fine (set_rt s2 (BlockedGenesis tp))
            else fine (set_rt s2 (Ready tp))
        | _, _ => fine s2            (* no genesis: outside the modelled alphabet (initial state has one) *)
        end
  | BlockedGap since =>
      if tp_epoch since <? tp_epoch tp then fine (set_rt s (Idle (Some since))) else fine s
  | BlockedGenesis since =>
      if tp_epoch since <? tp_epoch tp then fine (set_rt s (Idle (Some since))) else fine s
  | Ready cur =>
      if tp_epoch cur <? tp_epoch tp then fine (set_rt s (Idle (Some cur)))
      else match s_ed s with
           | Some d => ready_scan c s d tp all_types
           | None => fine s
           end
  | Signing cur x =>
      (* is_open_message_outdated is evaluated first (it marks the message expired when due) *)
      let s1 := set_oms s (mark_expired (s_oms s) x) in
      let is_exp := match find_om (s_oms s1) x with Some o => om_exp o | None => false end in
      match s_ed s with
      | None => fine s1
      | Some _ =>
          let newer := negb (ent_eqb (entity_of (en_ty x) tp) x) in
          if tp_epoch cur <? tp_epoch tp then fine (set_rt s1 (Idle (Some cur)))
          else if newer || is_exp then fine (set_rt s1 (Ready cur))
          else seal k c s1 cur x
      end
  end.

(* ---------- events ---------- *)
Inductive ev :=
| Tick
| NewEpoch            (* the chain moves to the next epoch *)
| SkipEpoch           (* the chain is observed two epochs later *)
| NewImm              (* a new immutable file *)
| Reg (p : N)         (* signer registration through the registerer, for the chain's recording epoch *)
| Sig (g : sg) (x : entity)   (* single signature g announced for signed entity x (HTTP ingress) *)
| Expire (x : entity) (* the open message of x is now past its expires_at *)
| Restart             (* clean stop between cycles, restart on the same database *)
| Crash (c : cut).    (* C15: the next cycle stops at cut c if it reaches it, then restart *)

Definition astep (k : N) (s : st) (e : ev) : st :=
  match e with
  | Tick => fst (tick_at k None s)
  | Crash c => fst (tick_at k (Some c) s)
  | NewEpoch => set_env s {| tp_epoch := tp_epoch (s_env s) + 1; tp_imm := tp_imm (s_env s) |}
  | SkipEpoch => set_env s {| tp_epoch := tp_epoch (s_env s) + 2; tp_imm := tp_imm (s_env s) |}
  | NewImm => set_env s {| tp_epoch := tp_epoch (s_env s); tp_imm := tp_imm (s_env s) + 1 |}
  | Reg p =>
      match s_round s with
      | Some r => if r =? tp_epoch (s_env s) + 1 then set_regs s (reg_add (s_regs s) r p) else s
      | None => s
      end
  | Sig g x => on_sig s g x
  | Expire x => set_oms s (upd_om (s_oms s) x om_set_due)
  | Restart => restart s
  end.

(* initial state: database bootstrapped with a genesis certificate at epoch 1 over the
   parties [all] (verification-key store filled for epochs 0 and 1), runtime not started *)
Definition init (all : list N) : st :=
  {| s_rt := Idle None; s_env := {| tp_epoch := 1; tp_imm := 1 |}; s_oms := [];
     s_certs := [{| c_epoch := 1; c_ent := None; c_parent := None; c_signers := []; c_set := all; c_next := all |}];
     s_ents := []; s_buf := []; s_regs := [(0, all); (1, all)]; s_round := None; s_ed := None |}.

Definition run_from (k : N) (s : st) (l : list ev) : st := fold_left (astep k) l s.
Definition run_st (k : N) (all : list N) (l : list ev) : st := run_from k (init all) l.

(* ---------- observation ---------- *)
Definition obs_ent (x : entity) : obs := OL [ON (ety_code (en_ty x)); ON (en_epoch x); ON (en_imm x)].
Definition obs_rt (r : rt) : obs :=
  ON (match r with Idle _ => 0 | Ready _ => 1 | Signing _ _ => 2 | BlockedGap _ => 3 | BlockedGenesis _ => 4 end).
Definition obs_cert (c : cert) : obs :=
  OL [ON (c_epoch c); OOpt (option_map obs_ent (c_ent c));
      OOpt (option_map (fun j => ON (N.of_nat j)) (c_parent c)); OLN (c_signers c); OLN (c_set c); OLN (c_next c)].
(* canonical orders: open messages and signed entities by (type, epoch, immutable); signers ascending *)
Definition ent_key (x : entity) : N := (ety_code (en_ty x) * 1000000 + en_epoch x * 1000 + en_imm x).
Fixpoint ins_by {A} (key : A -> N) (a : A) (l : list A) : list A :=
  match l with [] => [a] | b :: r => if key a <=? key b then a :: l else b :: ins_by key a r end.
Definition sort_by {A} (key : A -> N) (l : list A) : list A := fold_right (ins_by key) [] l.
Definition obs_om (o : om) : obs :=
  OL [obs_ent (om_ent o); OB (om_cert o); OB (om_exp o); OLN (sort_by (fun p => p) (map fst (om_sigs o)))].
Definition obs_sent (e : sent) : obs := OL [obs_ent (se_ent e); ON (N.of_nat (se_cert e))].
Definition obs_buf (r : ety * sg) : obs := OL [ON (ety_code (fst r)); ON (sg_party (snd r))].
Definition obs_st (s : st) : obs :=
  OL [obs_rt (s_rt s);
      OL (map obs_cert (s_certs s));
      OL (map obs_om (sort_by (fun o => ent_key (om_ent o)) (s_oms s)));
      OL (map obs_sent (sort_by (fun e => ent_key (se_ent e)) (s_ents s)));
      OL (map obs_buf (sort_by (fun r => ety_code (fst r) * 1000 + sg_party (snd r)) (s_buf s)))].

Fixpoint trace (k : N) (s : st) (l : list ev) : list obs :=
  match l with
  | [] => []
  | e :: r => let s' := astep k s e in obs_st s' :: trace k s' r
  end.
(* one case = protocol quorum k, the parties, an event list; observed after every event *)
Definition run (k : N) (all : list N) (l : list ev) : obs := OL (trace k (init all) l).
