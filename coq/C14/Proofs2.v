(* C14/Proofs2.v — effect of one cycle on (env, certs, ents, oms); the core invariant Inv1. *)
From Coq Require Import Lia.
From MV Require Import Base.Prelude C14.Model C14.Spec C14.Proofs1.
Open Scope N_scope.

Ltac sc := cbn [fst snd crashed fine restart set_mem set_rt set_oms set_certs set_ents set_buf set_env set_regs
                s_rt s_env s_oms s_certs s_ents s_buf s_regs s_round s_ed tp_epoch tp_imm] in *.

Lemma NoDup_snoc {A} (l : list A) a : NoDup l -> ~ In a l -> NoDup (l ++ [a]).
Proof.
  induction l as [|b r IH]; cbn; intros H Hn.
  - constructor; [intros []|constructor].
  - inversion H; subst. constructor.
    + rewrite in_app_iff; cbn. intros [?|[?|[]]]; [auto|subst; apply Hn; left; auto].
    + apply IH; auto.
Qed.

(* ---------- find_om ---------- *)
Lemma find_om_upd oms x f y : (forall o, om_ent (f o) = om_ent o) ->
  find_om (upd_om oms x f) y =
  option_map (fun o => if ent_eqb (om_ent o) x then f o else o) (find_om oms y).
Proof.
  intros Hf. unfold find_om, upd_om. induction oms as [|a r IH]; cbn [map find option_map]; [reflexivity|].
  destruct (ent_eqb (om_ent a) x) eqn:E.
  - rewrite Hf. destruct (ent_eqb (om_ent a) y); cbn [option_map]; [rewrite E; reflexivity|exact IH].
  - destruct (ent_eqb (om_ent a) y); cbn [option_map]; [rewrite E; reflexivity|exact IH].
Qed.

Lemma find_om_app oms o y : find_om (oms ++ [o]) y =
  match find_om oms y with
  | Some o' => Some o'
  | None => if ent_eqb (om_ent o) y then Some o else None
  end.
Proof.
  unfold find_om. induction oms as [|a r IH]; cbn [app find]; [reflexivity|].
  destruct (ent_eqb (om_ent a) y); auto.
Qed.

Lemma find_om_filter oms P y o :
  find_om oms y = Some o -> P o = true -> find_om (filter P oms) y = Some o.
Proof.
  unfold find_om. induction oms as [|a r IH]; cbn [find filter]; [discriminate|]. intros H HP.
  destruct (ent_eqb (om_ent a) y) eqn:E.
  - injection H as ->. rewrite HP. cbn [find]. rewrite E. reflexivity.
  - destruct (P a); cbn [find]; [rewrite E|]; auto.
Qed.

Lemma find_om_ent oms x o : find_om oms x = Some o -> om_ent o = x /\ In o oms.
Proof.
  unfold find_om; intros H. apply find_some in H. destruct H as [H1 H2].
  apply ent_eqb_eq in H2. auto.
Qed.

(* ---------- oms_le ---------- *)
Lemma oms_le_refl ep oms : oms_le ep oms oms.
Proof. intros x o H1 H2; right; eauto. Qed.
Lemma oms_le_trans ep a b c : oms_le ep a b -> oms_le ep b c -> oms_le ep a c.
Proof.
  intros H1 H2 x o F C. destruct (H1 x o F C) as [?|(o' & F' & C')]; [left; auto|]. eapply H2; eauto.
Qed.
Lemma oms_le_upd ep oms x f : good f -> oms_le ep oms (upd_om oms x f).
Proof.
  intros G y o F C. right. rewrite find_om_upd by (intros; apply G). rewrite F. cbn [option_map].
  eexists; split; [reflexivity|]. destruct (ent_eqb (om_ent o) x); [apply G|]; auto.
Qed.
Lemma oms_le_app ep oms o : oms_le ep oms (oms ++ [o]).
Proof. intros y o' F C. right. rewrite find_om_app, F. eauto. Qed.
Lemma oms_le_filter ep oms : oms_le ep oms (filter (fun o => ep <=? en_epoch (om_ent o)) oms).
Proof.
  intros y o F C. destruct (N.ltb_spec (en_epoch y) ep); [left; auto|right]. exists o; split; auto.
  apply find_om_filter; auto. destruct (find_om_ent _ _ _ F) as [-> _]. apply N.leb_le; auto.
Qed.
Lemma oms_le_mono ep ep' a b : ep <= ep' -> oms_le ep a b -> oms_le ep' a b.
Proof. intros L H x o F C. destruct (H x o F C); [left; lia|right; auto]. Qed.

Lemma good_exp : good (fun o => if om_due o then om_set_exp o else o).
Proof. intros o; destruct (om_due o); cbn; auto. Qed.
Lemma good_due : good om_set_due. Proof. intros o; cbn; auto. Qed.
Lemma good_cert : good om_set_cert. Proof. intros o; cbn; auto. Qed.
Lemma good_add p ix : good (om_add_sig p ix). Proof. intros o; cbn; auto. Qed.

Lemma handover_le ep S x bufs : forall oms0 oms rm stop, oms_le ep oms0 oms ->
  oms_le ep oms0 (fst (fst (handover S x bufs oms rm stop))).
Proof.
  induction bufs as [|g r IH]; intros oms0 oms rm stop H; cbn [handover fst]; [exact H|].
  destruct (sig_valid_for S g x); [|apply IH; exact H].
  assert (H' : oms_le ep oms0 (upd_om oms x (om_add_sig (sg_party g) (sg_idxs g)))).
  { eapply oms_le_trans; [exact H|apply oms_le_upd, good_add]. }
  destruct stop as [[|n]|]; [exact H'|apply IH; exact H'|apply IH; exact H'].
Qed.

(* ---------- quiet steps ---------- *)
Definition quiet (ep : N) (s s' : st) : Prop :=
  s_env s' = s_env s /\ s_certs s' = s_certs s /\ s_ents s' = s_ents s /\ oms_le ep (s_oms s) (s_oms s').

Lemma quiet_refl ep s : quiet ep s s.
Proof. unfold quiet. auto using oms_le_refl. Qed.
Lemma quiet_trans ep a b c : quiet ep a b -> quiet ep b c -> quiet ep a c.
Proof.
  unfold quiet. intros (A1 & A2 & A3 & A4) (B1 & B2 & B3 & B4).
  refine (conj _ (conj _ (conj _ _))); try congruence. eapply oms_le_trans; eauto.
Qed.
Ltac qt := unfold quiet in *; sc; refine (conj _ (conj _ (conj _ _))); try reflexivity; try tauto.

Lemma open_round_quiet ep c s d tp x : quiet ep s (fst (open_round c s d tp x)).
Proof.
  unfold open_round. destruct (negb (ed_comp d)); [apply quiet_refl|].
  destruct (cut_is c CutOmCreated); [qt; try apply oms_le_app|].
  match goal with |- context [handover ?a ?b ?c ?d ?e ?f] =>
    pose proof (handover_le ep a b c (s_oms s) d e f) as HL;
    destruct (handover a b c d e f) as [[oms2 rm] dead] eqn:Hh end.
  cbn [fst] in HL. sc. specialize (HL (oms_le_app _ _ _)).
  destruct dead; [qt; try exact HL|].
  destruct (cut_is c CutBufRemoved); qt; try exact HL.
Qed.

Lemma ready_scan_quiet ep c d tp ts : forall s, quiet ep s (fst (ready_scan c s d tp ts)).
Proof.
  induction ts as [|t r IH]; intros s; cbn [ready_scan].
  - qt; try apply oms_le_refl.
  - assert (Q : quiet ep s (set_oms s (mark_expired (s_oms s) (entity_of t tp)))).
    { qt; try apply oms_le_upd, good_exp. }
    destruct (find_om _ _) as [o|].
    + destruct (negb (om_cert o) && negb (om_exp o)).
      * qt; try apply oms_le_upd, good_exp.
      * eapply quiet_trans; [exact Q|apply IH].
    + eapply quiet_trans; [exact Q|apply open_round_quiet].
Qed.

Lemma seal_eff ep k c s cur x :
  quiet ep s (fst (seal k c s cur x)) \/ sealed0 k c s (fst (seal k c s cur x)) x.
Proof.
  unfold seal.
  destruct (find_om (s_oms s) x) as [o|] eqn:F; [|left; apply quiet_refl].
  destruct (om_cert o) eqn:C1; [left; apply quiet_refl|].
  destruct (om_exp o) eqn:C2; [left; apply quiet_refl|].
  destruct (master (s_certs s) (en_epoch x)) as [j|] eqn:M; [|left; apply quiet_refl].
  destruct (genesis_epoch (s_certs s)); [|left; apply quiet_refl].
  destruct (s_ed s) as [d|] eqn:D; [|left; apply quiet_refl].
  destruct (ed_comp d) eqn:C3; cbn [negb]; [|left; apply quiet_refl].
  destruct (quorum k (om_sigs o)) eqn:Q; cbn [negb]; [|left; apply quiet_refl].
  destruct (nth_error (s_certs s) j) as [p|] eqn:Np; [|left; apply quiet_refl].
  destruct (link_ok p _) eqn:L; cbn [negb]; [|left; apply quiet_refl].
  right. exists o, d, j, p.
  refine (conj F (conj C1 (conj C2 (conj D (conj C3 (conj Q (conj M (conj Np _)))))))).
  cbn zeta. split; [exact L|].
  destruct c as [[| | | | | |]|]; cbn [cut_is]; sc;
    try (match goal with |- context [existsb ?f ?l] => destruct (existsb f l) eqn:X end); sc;
    (split; [reflexivity|]); (split; [reflexivity|]);
    (split; [first [left; reflexivity | right; split; [first [assumption|reflexivity]|reflexivity]]
            |first [left; split; reflexivity | right; split; [discriminate|reflexivity]]]).
Qed.

Lemma on_sig_quiet ep s g x : quiet ep s (on_sig s g x).
Proof.
  unfold on_sig, register. destruct (authenticated _ _); [|apply quiet_refl].
  destruct (find_om _ _) as [o|]; [|qt; try apply oms_le_refl].
  destruct (om_cert o); [apply quiet_refl|]. destruct (om_exp o); [apply quiet_refl|].
  destruct (s_ed s) as [d|]; [|apply quiet_refl].
  destruct (ed_comp d && _); [|apply quiet_refl].
  qt; try apply oms_le_upd, good_add.
Qed.

Lemma entity_of_epoch t tp : en_epoch (entity_of t tp) = tp_epoch tp.
Proof. destruct t; reflexivity. Qed.

(* the effect of one cycle, with or without an armed cut *)
Lemma tick_eff k c s :
  quiet (tp_epoch (s_env s)) s (fst (tick_at k c s)) \/ sealed k c s (fst (tick_at k c s)).
Proof.
  unfold tick_at. destruct (s_rt s) as [prev|since|since|cur|cur x] eqn:R.
  - left. cbn zeta.
    repeat match goal with
           | |- context [if ?b then _ else _] => destruct b
           | |- context [match ?o with Some _ => _ | None => _ end] => destruct o
           end; qt; try first [apply oms_le_refl | apply oms_le_filter].
  - left. destruct (_ <? _); qt; try apply oms_le_refl.
  - left. destruct (_ <? _); qt; try apply oms_le_refl.
  - left. destruct (_ <? _); [qt; try apply oms_le_refl|].
    destruct (s_ed s); [apply ready_scan_quiet|apply quiet_refl].
  - cbn zeta.
    assert (Q : quiet (tp_epoch (s_env s)) s (set_oms s (mark_expired (s_oms s) x))).
    { qt; try apply oms_le_upd, good_exp. }
    destruct (s_ed s) as [d|] eqn:D; [|left; exact Q].
    destruct (tp_epoch cur <? tp_epoch (s_env s)) eqn:Lt; [left; qt; try apply oms_le_upd, good_exp|].
    destruct (negb _ || _) eqn:NE; [left; qt; try apply oms_le_upd, good_exp|].
    apply orb_false_elim in NE. destruct NE as [N1 N2]. apply negb_false_iff in N1.
    apply ent_eqb_eq in N1.
    pose proof (entity_of_epoch (en_ty x) (s_env s)) as Hx. rewrite N1 in Hx.
    destruct (seal_eff (tp_epoch (s_env s)) k c (set_oms s (mark_expired (s_oms s) x)) cur x) as [Q'|S].
    + left. eapply quiet_trans; eauto.
    + right. exists cur, x. auto.
Qed.

(* ---------- Inv1 ---------- *)
Lemma inv1_quiet b s s' : Inv1 b s ->
  tp_epoch (s_env s) <= tp_epoch (s_env s') -> s_certs s' = s_certs s -> s_ents s' = s_ents s ->
  oms_le (tp_epoch (s_env s')) (s_oms s) (s_oms s') -> Inv1 b s'.
Proof.
  unfold Inv1. intros (A & B & C & D & E) L -> -> O.
  split; [auto|]. split; [intros c Hc; specialize (B c Hc); lia|]. split; [auto|]. split; [auto|].
  intros Hb. destruct (E Hb) as [F N]. split; [|auto]. intros x Hx.
  destruct (F x Hx) as [?|(o & Fo & Co)]; [left; lia|].
  destruct (O x o Fo Co); [left; auto|right; auto].
Qed.

Lemma cert_ents_app cs c : cert_ents (cs ++ [c]) = cert_ents cs ++ match c_ent c with Some x => [x] | None => [] end.
Proof. unfold cert_ents. rewrite flat_map_app. cbn. rewrite app_nil_r. reflexivity. Qed.

Lemma inv1_sealed b k c s s' x : Inv1 b s -> en_epoch x = tp_epoch (s_env s) ->
  sealed0 k c s s' x -> (b = true -> c <> Some CutCertInserted) -> Inv1 b s'.
Proof.
  intros (A & B & C & D & E) Hx (o & d & j & p & F & C1 & C2 & Ded & C3 & Q & M & Np & S) Hb.
  cbn zeta in S. destruct S as (L & Env & Cs & En & Om).
  set (crt := {| c_epoch := en_epoch x; c_ent := Some x; c_parent := Some j;
                 c_signers := filter (fun q => mem q (map fst (om_sigs o))) (ed_cur d);
                 c_set := ed_cur d; c_next := om_next o |}) in *.
  assert (CH : chain (s_certs s ++ [crt])).
  { destruct (chain_le _ A) as (le & cl & Le & I & Ecl & Al).
    rewrite (master_mfirst _ A) in M.
    apply chain_snoc with (j := j) (p := p) (x := x) (le := le); auto.
    - specialize (B cl I). cbn [crt c_epoch]. lia.
    - cbn [crt c_epoch]. unfold mfirst in M.
      destruct (first_idx (s_certs s) (en_epoch x)) as [j0|] eqn:F1.
      + destruct (first_idx_some _ _ _ F1) as (c0 & N0 & E0). apply nth_error_In in N0.
        apply Al in N0. lia.
      + destruct (first_idx_some _ _ _ M) as (c0 & N0 & E0). apply nth_error_In in N0.
        apply Al in N0. lia. }
  unfold Inv1. rewrite Cs, Env. split; [exact CH|]. split.
  { intros c0 Hin. apply in_app_or in Hin. destruct Hin as [Hin|[<-|[]]]; [auto|]. cbn [crt c_epoch]. lia. }
  split.
  { assert (Old : forall e, In e (s_ents s) -> exists c0, nth_error (s_certs s ++ [crt]) (se_cert e) = Some c0 /\ c_ent c0 = Some (se_ent e)).
    { intros e He. destruct (C e He) as (c0 & N0 & E0). exists c0. split; [|auto].
      rewrite nth_error_app1; auto. apply nth_error_Some; congruence. }
    destruct En as [->|[X ->]]; [exact Old|].
    intros e He. apply in_app_or in He. destruct He as [He|[<-|[]]]; [auto|].
    exists crt. cbn [se_cert se_ent]. rewrite nth_error_app2, Nat.sub_diag by lia. auto. }
  split.
  { destruct En as [->|[X ->]]; [auto|]. rewrite map_app. cbn [map se_ent]. apply NoDup_snoc; auto.
    intros Hin. apply in_map_iff in Hin. destruct Hin as (e0 & E0 & I0).
    assert (existsb (fun e => ent_eqb (se_ent e) x) (s_ents s) = true).
    { apply existsb_exists. exists e0. split; auto. rewrite E0. apply ent_eqb_refl. }
    congruence. }
  intros Hbt. destruct (E Hbt) as [Fl Nd]. specialize (Hb Hbt).
  destruct Om as [[-> _]|[_ ->]]; [congruence|].
  unfold flag. rewrite !cert_ents_app. cbn [crt c_ent]. split.
  - intros y Hy. apply in_app_or in Hy. destruct Hy as [Hy|[<-|[]]].
    + destruct (Fl y Hy) as [?|(o' & F' & C')]; [left; auto|right].
      destruct (oms_le_upd 0 (s_oms s) x om_set_cert good_cert y o' F' C') as [?|?]; [lia|auto].
    + right. rewrite find_om_upd by reflexivity. rewrite F. cbn [option_map].
      destruct (find_om_ent _ _ _ F) as [Eo _]. rewrite Eo, ent_eqb_refl. eexists; split; reflexivity.
  - apply NoDup_snoc; auto. intros Hin. destruct (Fl x Hin) as [?|(o' & F' & C')]; [lia|].
    rewrite F in F'. injection F' as <-. congruence.
Qed.

Lemma inv1_tick b k c s : Inv1 b s -> (b = true -> c <> Some CutCertInserted) ->
  Inv1 b (fst (tick_at k c s)).
Proof.
  intros I Hb. destruct (tick_eff k c s) as [(Q1 & Q2 & Q3 & Q4)|(cur & x & R & Hx & Lt & S)].
  - apply (inv1_quiet b s); auto. rewrite Q1; lia. rewrite Q1; auto.
  - eapply inv1_sealed; [| |exact S|exact Hb]; sc; [|exact Hx].
    apply (inv1_quiet b s); sc; auto; [lia|]. apply oms_le_upd, good_exp.
Qed.

Lemma inv1_step b k s e : Inv1 b s -> (b = true -> e <> Crash CutCertInserted) -> Inv1 b (astep k s e).
Proof.
  intros I Hb. destruct e; cbn [astep].
  - apply inv1_tick; auto. discriminate.
  - apply (inv1_quiet b s); sc; auto; [lia|apply oms_le_refl].
  - apply (inv1_quiet b s); sc; auto; [lia|apply oms_le_refl].
  - apply (inv1_quiet b s); sc; auto; [lia|apply oms_le_refl].
  - destruct (s_round s); [destruct (_ =? _)|]; auto.
  - destruct (on_sig_quiet (tp_epoch (s_env s)) s g x) as (Q1 & Q2 & Q3 & Q4).
    apply (inv1_quiet b s); auto; rewrite Q1; [lia|auto].
  - apply (inv1_quiet b s); sc; auto; [lia|apply oms_le_upd, good_due].
  - apply (inv1_quiet b s); sc; auto; [lia|apply oms_le_refl].
  - apply inv1_tick; auto. intros Hbt E. injection E as ->. apply (Hb Hbt). reflexivity.
Qed.

Lemma inv1_init b all : Inv1 b (init all).
Proof.
  unfold Inv1, init; sc. split; [apply chain_gen; cbn; auto; lia|].
  split; [intros c [<-|[]]; cbn; lia|]. split; [intros e []|]. split; [constructor|].
  intros _. split; [intros x []|constructor].
Qed.

Lemma inv1_run b k : forall l s, Inv1 b s -> (b = true -> no_cert_cut l) -> Inv1 b (run_from k s l).
Proof.
  induction l as [|e l IH]; cbn [run_from fold_left]; intros s I Hb; [exact I|].
  apply IH.
  - apply inv1_step; auto. intros Hbt. specialize (Hb Hbt). inversion Hb; auto.
  - intros Hbt. specialize (Hb Hbt). inversion Hb; auto.
Qed.

Lemma no_crash_no_cut l : no_crash l -> no_cert_cut l.
Proof.
  unfold no_crash, no_cert_cut. intros H. eapply Forall_impl; [|exact H].
  intros e He E. subst e. exact He.
Qed.
