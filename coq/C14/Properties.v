(* C14/Properties.v — the property theorems, nothing else.
   C14: the certificate chain stored by the leader aggregator (no crash in the history).
   Theorems named *_any hold for every history, Crash events of every cut included (C15);
   C14_T5_nocut holds for every history without [Crash CutCertInserted]. *)
From MV Require Import Base.Prelude C14.Model C14.Spec C14.Proofs1 C14.Proofs2 C14.Proofs3 C14.Proofs4 C14.Corollaries.
Open Scope N_scope.

(* vocabulary *)
Theorem C14_ent_eqb_eq : forall a b, ent_eqb a b = true <-> a = b.
Proof. exact ent_eqb_eq. Qed.
Theorem C14_first_idx_spec : forall cs e j, first_idx cs e = Some j <->
  (exists c, nth_error cs j = Some c /\ c_epoch c = e) /\
  (forall i c, (i < j)%nat -> nth_error cs i = Some c -> c_epoch c <> e).
Proof. exact first_idx_spec. Qed.

(* T1: epochs along the stored chain are >= 1, <= the chain's epoch, non-decreasing, without gap *)
Theorem C14_T1 : forall k all l, no_crash l ->
  epochs_ok (s_certs (run_st k all l)) (tp_epoch (s_env (run_st k all l))).
Proof. exact t1. Qed.
Theorem C14_T1_any : forall k all l,
  epochs_ok (s_certs (run_st k all l)) (tp_epoch (s_env (run_st k all l))).
Proof. exact t1_any. Qed.

(* T2: parent-link rule, and the master-certificate query computes it *)
Theorem C14_master_lemma : forall cs, chain cs -> forall e, master cs e = mfirst cs e.
Proof. exact master_mfirst. Qed.
Theorem C14_T2 : forall k all l, no_crash l ->
  parent_rule (s_certs (run_st k all l)) /\
  forall e, master (s_certs (run_st k all l)) e = mfirst (s_certs (run_st k all l)) e.
Proof. exact t2. Qed.
Theorem C14_T2_any : forall k all l,
  parent_rule (s_certs (run_st k all l)) /\
  forall e, master (s_certs (run_st k all l)) e = mfirst (s_certs (run_st k all l)) e.
Proof. exact t2_any. Qed.

(* T3: every link passes the verifier's structural check; following parents reaches the genesis *)
Theorem C14_T3 : forall k all l, no_crash l ->
  links_ok (s_certs (run_st k all l)) /\
  forall i, (i < length (s_certs (run_st k all l)))%nat ->
            walk (s_certs (run_st k all l)) (S i) i = Some 0%nat.
Proof. exact t3. Qed.
Theorem C14_T3_any : forall k all l,
  links_ok (s_certs (run_st k all l)) /\
  forall i, (i < length (s_certs (run_st k all l)))%nat ->
            walk (s_certs (run_st k all l)) (S i) i = Some 0%nat.
Proof. exact t3_any. Qed.

(* T4: a certificate of epoch e is made under the registrations of epoch e-1 and commits to those of
   epoch e; its signers are among its key's parties.  Inv2 = supporting invariants (epoch data, runtime
   state, open messages: epochs, next key, stored signers are members) *)
Theorem C14_T4 : forall k all l, no_crash l -> keys_ok (s_certs (run_st k all l)) (s_regs (run_st k all l)).
Proof. exact t4. Qed.
Theorem C14_T4_any : forall k all l, keys_ok (s_certs (run_st k all l)) (s_regs (run_st k all l)).
Proof. exact t4_any. Qed.
Theorem C14_T4_support : forall k all l, no_crash l -> Inv2 (run_st k all l).
Proof. exact t4_support. Qed.
Theorem C14_T4_support_any : forall k all l, Inv2 (run_st k all l).
Proof. exact inv2_any. Qed.

(* T5: no signed entity is certified twice *)
Theorem C14_T5 : forall k all l, no_crash l -> NoDup (cert_ents (s_certs (run_st k all l))).
Proof. exact t5. Qed.
Theorem C14_T5_nocut : forall k all l, no_cert_cut l -> NoDup (cert_ents (s_certs (run_st k all l))).
Proof. exact t5_nocut. Qed.
Theorem C14_T5_flag : forall k all l, no_cert_cut l ->
  flag (s_certs (run_st k all l)) (s_oms (run_st k all l)) (s_env (run_st k all l)).
Proof. exact t5_flag. Qed.

(* T6: a certificate is only stored by the cycle of a Signing state, for the entity being signed, of the
   current epoch, whose open message is neither certified nor expired (nor due) and carries a quorum;
   [sealed] (Spec.v) lists the complete effect.  Holds in every state, reachable or not. *)
Theorem C14_T6 : forall k s e, match e with Crash _ => False | _ => True end ->
  (length (s_certs s) < length (s_certs (astep k s e)))%nat ->
  e = Tick /\ sealed k None s (astep k s e).
Proof. exact t6. Qed.
Theorem C14_T6_any : forall k s e, (length (s_certs s) < length (s_certs (astep k s e)))%nat ->
  is_cycle e /\ sealed k (cut_of e) s (astep k s e).
Proof. exact t6_any. Qed.
Theorem C14_T6_open_message : forall k c s s', sealed k c s s' ->
  exists cur x o, s_rt s = Signing cur x /\ find_om (s_oms s) x = Some o /\
                  om_cert o = false /\ om_exp o = false /\ om_due o = false /\ quorum k (om_sigs o) = true.
Proof. exact sealed_not_due. Qed.

(* T6 in reachable states, with the membership of the stored signers *)
Theorem C14_T6_reachable : forall k all l e, no_crash l -> match e with Crash _ => False | _ => True end ->
  (length (s_certs (run_st k all l)) < length (s_certs (astep k (run_st k all l) e)))%nat ->
  e = Tick /\
  exists cur x o crt,
    s_rt (run_st k all l) = Signing cur x /\ en_epoch x = tp_epoch (s_env (run_st k all l)) /\
    find_om (s_oms (run_st k all l)) x = Some o /\
    om_cert o = false /\ om_exp o = false /\ om_due o = false /\ quorum k (om_sigs o) = true /\
    (forall p ix, In (p, ix) (om_sigs o) ->
                  mem p (reg_at (s_regs (run_st k all l)) (en_epoch x - 1)) = true) /\
    s_certs (astep k (run_st k all l) e) = s_certs (run_st k all l) ++ [crt] /\
    c_ent crt = Some x /\ c_epoch crt = en_epoch x.
Proof. exact t6_full_nocrash. Qed.
Theorem C14_T6_reachable_any : forall k all l e,
  (length (s_certs (run_st k all l)) < length (s_certs (astep k (run_st k all l) e)))%nat ->
  is_cycle e /\
  exists cur x o crt,
    s_rt (run_st k all l) = Signing cur x /\ en_epoch x = tp_epoch (s_env (run_st k all l)) /\
    find_om (s_oms (run_st k all l)) x = Some o /\
    om_cert o = false /\ om_exp o = false /\ om_due o = false /\ quorum k (om_sigs o) = true /\
    (forall p ix, In (p, ix) (om_sigs o) ->
                  mem p (reg_at (s_regs (run_st k all l)) (en_epoch x - 1)) = true) /\
    s_certs (astep k (run_st k all l) e) = s_certs (run_st k all l) ++ [crt] /\
    c_ent crt = Some x /\ c_epoch crt = en_epoch x.
Proof. exact t6_full. Qed.

(* T6, ingress paths: through the HTTP route or the DMQ consumer (which does not authenticate), a single
   signature is stored only when valid for an existing open, non-certified, non-expired message under the
   registration set in force; it never touches certificates, artifacts, runtime state or registrations;
   it is buffered only when no open message exists and it is authenticated (route) or came by DMQ *)
Theorem C14_stored_signature_valid_any_ingress : forall s g x,
  s_oms (on_sig s g x) <> s_oms s ->
  exists d o, s_ed s = Some d /\ ed_comp d = true /\ find_om (s_oms s) x = Some o /\
              om_cert o = false /\ om_exp o = false /\ sig_valid_for (ed_cur d) g x = true.
Proof. exact stored_sig_valid. Qed.
Theorem C14_signature_frame : forall s g x,
  s_certs (on_sig s g x) = s_certs s /\ s_ents (on_sig s g x) = s_ents s /\
  s_rt (on_sig s g x) = s_rt s /\ s_regs (on_sig s g x) = s_regs s.
Proof. exact on_sig_frame. Qed.
Theorem C14_buffered_only_without_open_message : forall s g x,
  s_buf (on_sig s g x) <> s_buf s -> find_om (s_oms s) x = None /\ authenticated (s_ed s) g = true.
Proof. exact buffered_only_without_open_message. Qed.

(* T7: an epoch gap blocks the state machine and no certificate is stored while it is blocked *)
Theorem C14_T7_gap_blocks : forall k s prev le, chain (s_certs s) ->
  s_rt s = Idle prev -> last_epoch (s_certs s) = Some le -> le + 1 < tp_epoch (s_env s) ->
  precompute_fails s prev = false ->
  s_rt (astep k s Tick) = BlockedGap (s_env s) /\ s_certs (astep k s Tick) = s_certs s /\
  forall c, s_certs (astep k s (Crash c)) = s_certs s /\
            s_rt (astep k s (Crash c)) = BlockedGap (s_env s).
Proof. exact t7_gap_blocks. Qed.
Theorem C14_T7_reachable_chain : forall k all l, chain (s_certs (run_st k all l)).
Proof. exact chain_any. Qed.
Theorem C14_T7_blocked_no_cert : forall k s e since,
  s_rt s = BlockedGap since -> s_certs (astep k s e) = s_certs s.
Proof. exact t7_blocked_no_cert. Qed.
Theorem C14_certs_grow_only_signing : forall k s e,
  s_certs (astep k s e) <> s_certs s -> exists cur x, s_rt s = Signing cur x.
Proof. exact certs_grow_only_signing. Qed.

(* T8: signed-entity rows reference the certificate of their entity, one row per entity *)
Theorem C14_T8 : forall k all l, no_crash l ->
  ents_ok (s_ents (run_st k all l)) (s_certs (run_st k all l)) /\
  NoDup (map se_ent (s_ents (run_st k all l))).
Proof. exact t8. Qed.
Theorem C14_T8_any : forall k all l,
  ents_ok (s_ents (run_st k all l)) (s_certs (run_st k all l)) /\
  NoDup (map se_ent (s_ents (run_st k all l))).
Proof. exact t8_any. Qed.

(* non-vacuity: genesis, then the stake distribution and the database of epoch 2 are certified *)
Example C14_nonvacuous : no_crash scenario /\
  map c_ent (s_certs (run_st 3 [0;1;2] scenario)) = [None; Some x2; Some xc] /\
  map c_parent (s_certs (run_st 3 [0;1;2] scenario)) = [None; Some 0%nat; Some 1%nat] /\
  map se_cert (s_ents (run_st 3 [0;1;2] scenario)) = [1%nat; 2%nat].
Proof. exact scenario_ok. Qed.
(* signatures of the next epoch sent before the aggregator saw the epoch change are buffered (next-set
   authentication), handed over when the open message is created and seal it *)
Example C14_early_next_epoch_signatures :
  map obs_buf (s_buf (run_st 3 [0;1;2] (scenario ++ [Reg 0; Reg 1; Reg 2; NewEpoch; Sig (sg_early 0) x3; Sig (sg_early 1) x3])))
    = [OL [ON 0; ON 0]; OL [ON 0; ON 1]] /\
  map c_ent (s_certs (run_st 3 [0;1;2] scenario_early)) = [None; Some x2; Some xc; Some x3] /\
  map c_set (s_certs (run_st 3 [0;1;2] scenario_early)) = [[0;1;2]; [0;1;2]; [0;1;2]; [0;1]] /\
  s_buf (run_st 3 [0;1;2] scenario_early) = [].
Proof. exact scenario_early_ok. Qed.
(* unauthenticated garbage from the DMQ is buffered, skipped at the hand-over, changes no certificate;
   the same signature through the HTTP route is dropped *)
Example C14_dmq_garbage_harmless :
  map obs_cert (s_certs (run_st 3 [0;1;2] scenario_dmq)) = map obs_cert (s_certs (run_st 3 [0;1;2] scenario)) /\
  map obs_buf (s_buf (run_st 3 [0;1;2] scenario_dmq)) = [OL [ON 2; ON 2]] /\
  s_buf (run_st 3 [0;1;2] (prefix2 ++ [Sig (sg_of xc 2) xc])) <> [] /\
  s_buf (run_st 3 [0;1;2] (prefix2 ++ [Sig {| sg_party := 2; sg_set := [2]; sg_signed := x2; sg_idxs := [1]; sg_dmq := false |} xc])) = [].
Proof. exact scenario_dmq_ok. Qed.
(* T5 needs its hypothesis: a crash between certificate insert and open-message update certifies twice *)
Example C14_T5_cert_cut_breaks :
  cert_ents (s_certs (run_st 3 [0;1;2] scenario_cut)) = [x2; x2] /\
  ~ NoDup (cert_ents (s_certs (run_st 3 [0;1;2] scenario_cut))).
Proof. exact scenario_cut_dup. Qed.
