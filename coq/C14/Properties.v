(* C14/Properties.v — the property theorems, nothing else.
   C14: the certificate chain stored by the leader aggregator (no crash in the history).
   Theorems named *_any hold for every history, Crash events of every cut included (C15);
   C14_T5_nocut holds for every history without [Crash CutCertInserted]. *)
From MV Require Import Base.Prelude C14.Model C14.Spec C14.Proofs1 C14.Proofs2 C14.Corollaries.
Open Scope N_scope.

(* vocabulary *)
Theorem C14_ent_eqb_eq : forall a b, ent_eqb a b = true <-> a = b.
Proof. exact ent_eqb_eq. Qed.
Theorem C14_first_idx_spec : forall cs e j, first_idx cs e = Some j <->
  (exists c, nth_error cs j = Some c /\ c_epoch c = e) /\
  (forall i c, (i < j)%nat -> nth_error cs i = Some c -> c_epoch c <> e).
Proof. exact first_idx_spec. Qed.

(* T1: epochs along the stored chain are >= 1, <= the chain's epoch, non-decreasing, without gap *)
Theorem C14_T1 : forall k all l, no_crash l ->
  epochs_ok (s_certs (run_st k all l)) (tp_epoch (s_env (run_st k all l))).
Proof. exact t1. Qed.
Theorem C14_T1_any : forall k all l,
  epochs_ok (s_certs (run_st k all l)) (tp_epoch (s_env (run_st k all l))).
Proof. exact t1_any. Qed.

(* T2: parent-link rule, and the master-certificate query computes it *)
Theorem C14_master_lemma : forall cs, chain cs -> forall e, master cs e = mfirst cs e.
Proof. exact master_mfirst. Qed.
Theorem C14_T2 : forall k all l, no_crash l ->
  parent_rule (s_certs (run_st k all l)) /\
  forall e, master (s_certs (run_st k all l)) e = mfirst (s_certs (run_st k all l)) e.
Proof. exact t2. Qed.
Theorem C14_T2_any : forall k all l,
  parent_rule (s_certs (run_st k all l)) /\
  forall e, master (s_certs (run_st k all l)) e = mfirst (s_certs (run_st k all l)) e.
Proof. exact t2_any. Qed.

(* T3: every link passes the verifier's structural check; following parents reaches the genesis *)
Theorem C14_T3 : forall k all l, no_crash l ->
  links_ok (s_certs (run_st k all l)) /\
  forall i, (i < length (s_certs (run_st k all l)))%nat ->
            walk (s_certs (run_st k all l)) (S i) i = Some 0%nat.
Proof. exact t3. Qed.
Theorem C14_T3_any : forall k all l,
  links_ok (s_certs (run_st k all l)) /\
  forall i, (i < length (s_certs (run_st k all l)))%nat ->
            walk (s_certs (run_st k all l)) (S i) i = Some 0%nat.
Proof. exact t3_any. Qed.

(* T5: no signed entity is certified twice *)
Theorem C14_T5 : forall k all l, no_crash l -> NoDup (cert_ents (s_certs (run_st k all l))).
Proof. exact t5. Qed.
Theorem C14_T5_nocut : forall k all l, no_cert_cut l -> NoDup (cert_ents (s_certs (run_st k all l))).
Proof. exact t5_nocut. Qed.
Theorem C14_T5_flag : forall k all l, no_cert_cut l ->
  flag (s_certs (run_st k all l)) (s_oms (run_st k all l)) (s_env (run_st k all l)).
Proof. exact t5_flag. Qed.

(* T8: signed-entity rows reference the certificate of their entity, one row per entity *)
Theorem C14_T8 : forall k all l, no_crash l ->
  ents_ok (s_ents (run_st k all l)) (s_certs (run_st k all l)) /\
  NoDup (map se_ent (s_ents (run_st k all l))).
Proof. exact t8. Qed.
Theorem C14_T8_any : forall k all l,
  ents_ok (s_ents (run_st k all l)) (s_certs (run_st k all l)) /\
  NoDup (map se_ent (s_ents (run_st k all l))).
Proof. exact t8_any. Qed.

(* non-vacuity: genesis, then the stake distribution and the database of epoch 2 are certified *)
Example C14_nonvacuous : no_crash scenario /\
  map c_ent (s_certs (run_st 3 [0;1;2] scenario)) = [None; Some x2; Some xc] /\
  map c_parent (s_certs (run_st 3 [0;1;2] scenario)) = [None; Some 0%nat; Some 1%nat] /\
  map se_cert (s_ents (run_st 3 [0;1;2] scenario)) = [1%nat; 2%nat].
Proof. exact scenario_ok. Qed.
(* T5 needs its hypothesis: a crash between certificate insert and open-message update certifies twice *)
Example C14_T5_cert_cut_breaks :
  cert_ents (s_certs (run_st 3 [0;1;2] scenario_cut)) = [x2; x2] /\
  ~ NoDup (cert_ents (s_certs (run_st 3 [0;1;2] scenario_cut))).
Proof. exact scenario_cut_dup. Qed.
