(* C14/Proofs1.v — certificate-list lemmas: first_idx, the chain, the master-certificate lemma. *)
From Coq Require Import Lia.
From MV Require Import Base.Prelude C14.Model C14.Spec.
Open Scope N_scope.

Lemma ety_eqb_eq a b : ety_eqb a b = true <-> a = b.
Proof. destruct a, b; cbn; split; intros; congruence. Qed.

Lemma ent_eqb_eq a b : ent_eqb a b = true <-> a = b.
Proof.
  destruct a as [t e i], b as [t' e' i']; unfold ent_eqb; cbn [en_ty en_epoch en_imm].
  rewrite !andb_true_iff, !N.eqb_eq, ety_eqb_eq. split.
  - intros [[-> ->] ->]; reflexivity.
  - intros H; inversion H; auto.
Qed.
Lemma ent_eqb_refl a : ent_eqb a a = true.
Proof. apply ent_eqb_eq; reflexivity. Qed.

(* ---------- first_idx ---------- *)
Lemma first_idx_app cs c e : first_idx (cs ++ [c]) e =
  match first_idx cs e with
  | Some j => Some j
  | None => if c_epoch c =? e then Some (length cs) else None
  end.
Proof.
  induction cs as [|a r IH]; cbn [app first_idx length].
  - destruct (c_epoch c =? e); reflexivity.
  - destruct (c_epoch a =? e); [reflexivity|]. rewrite IH.
    destruct (first_idx r e); cbn [option_map]; [reflexivity|].
    destruct (c_epoch c =? e); reflexivity.
Qed.

Lemma first_idx_some cs e j : first_idx cs e = Some j ->
  exists c, nth_error cs j = Some c /\ c_epoch c = e.
Proof.
  revert j; induction cs as [|a r IH]; cbn [first_idx]; intros j H; [discriminate|].
  destruct (N.eqb_spec (c_epoch a) e).
  - injection H as <-. exists a; cbn; auto.
  - destruct (first_idx r e) as [j'|] eqn:E; cbn in H; [|discriminate]. injection H as <-.
    destruct (IH j' eq_refl) as [c [H1 H2]]. exists c; cbn; auto.
Qed.

Lemma first_idx_in cs c : In c cs -> first_idx cs (c_epoch c) <> None.
Proof.
  induction cs as [|a r IH]; cbn [first_idx In]; [tauto|]. intros [->|H].
  - rewrite N.eqb_refl; discriminate.
  - destruct (c_epoch a =? c_epoch c); [discriminate|]. specialize (IH H).
    destruct (first_idx r (c_epoch c)); cbn; congruence.
Qed.

(* first_idx is characterised by: the epoch matches at j and at no earlier index *)
Lemma first_idx_spec cs e j : first_idx cs e = Some j <->
  (exists c, nth_error cs j = Some c /\ c_epoch c = e) /\
  (forall i c, (i < j)%nat -> nth_error cs i = Some c -> c_epoch c <> e).
Proof.
  revert j; induction cs as [|a r IH]; intros j; cbn [first_idx].
  - split; [discriminate|]. intros [[c [H _]] _]. destruct j; discriminate.
  - destruct (N.eqb_spec (c_epoch a) e) as [E|E].
    + split.
      * intros H; injection H as <-. split; [exists a; cbn; auto|]. intros; lia.
      * intros [_ H]. destruct j; [reflexivity|]. exfalso. apply (H 0%nat a); [lia|reflexivity|exact E].
    + split.
      * destruct (first_idx r e) as [j'|] eqn:F; cbn [option_map]; [|discriminate].
        intros H; injection H as <-. destruct (proj1 (IH j') eq_refl) as [F1 F2]. split; [exact F1|].
        intros i c Hi Hn. destruct i; cbn in Hn; [injection Hn as <-; exact E|].
        apply (F2 i); [lia|exact Hn].
      * intros [[c [H1 H2]] H3]. destruct j; cbn in H1; [injection H1 as <-; contradiction|].
        assert (F : first_idx r e = Some j).
        { apply IH. split; [exists c; auto|]. intros i c0 Hi Hn. apply (H3 (S i)); [lia|exact Hn]. }
        rewrite F; reflexivity.
Qed.

(* ---------- last_epoch ---------- *)
Lemma last_epoch_app cs c : last_epoch (cs ++ [c]) = Some (c_epoch c).
Proof. unfold last_epoch. rewrite rev_unit. reflexivity. Qed.

Lemma last_epoch_nth cs le i c0 :
  last_epoch cs = Some le -> nth_error cs i = Some c0 -> S i = length cs -> c_epoch c0 = le.
Proof.
  induction cs as [|z r _] using rev_ind; intros H1 H2 H3.
  - destruct i; discriminate.
  - rewrite last_epoch_app in H1. injection H1 as <-.
    rewrite app_length in H3; cbn in H3. assert (i = length r) by lia. subst.
    rewrite nth_error_app2 in H2 by lia. rewrite Nat.sub_diag in H2. cbn in H2. congruence.
Qed.

(* ---------- chain facts ---------- *)
Lemma chain_le cs : chain cs ->
  exists le cl, last_epoch cs = Some le /\ In cl cs /\ c_epoch cl = le /\
                (forall c, In c cs -> 1 <= c_epoch c /\ c_epoch c <= le).
Proof.
  induction 1 as [g Hp He Hg | cs c j p x le Hc IH Hent Hep Hpar Hle H1 H2 Hm Hn Hl].
  - exists (c_epoch g), g. cbn. split; [reflexivity|]. split; [auto|]. split; [reflexivity|].
    intros c [<-|[]]; lia.
  - destruct IH as (le' & cl & L & I & E & A). assert (Q : le' = le) by congruence. rewrite Q in *. clear Q.
    exists (c_epoch c), c. rewrite last_epoch_app. split; [reflexivity|].
    split; [apply in_or_app; right; left; reflexivity|]. split; [reflexivity|].
    intros c0 Hin. apply in_app_or in Hin. destruct Hin as [Hin|[<-|[]]].
    + apply A in Hin. lia.
    + specialize (A cl I). lia.
Qed.

Lemma chain_parents cs : chain cs ->
  forall c, In c cs -> forall j, c_parent c = Some j -> (j < length cs)%nat.
Proof.
  induction 1 as [g Hp He Hg | cs c j p x le Hc IH Hent Hep Hpar Hle H1 H2 Hm Hn Hl]; intros c0 Hin j0 Hj.
  - destruct Hin as [<-|[]]. congruence.
  - rewrite app_length; cbn [length]. apply in_app_or in Hin. destruct Hin as [Hin|[<-|[]]].
    + specialize (IH _ Hin _ Hj). lia.
    + assert (j0 = j) by congruence. subst.
      assert (j < length cs)%nat by (apply nth_error_Some; congruence). lia.
Qed.

Lemma foe_app cs c c' : (forall j, c_parent c' = Some j -> (j < length cs)%nat) ->
  first_of_epoch (cs ++ [c]) c' = first_of_epoch cs c'.
Proof.
  intros H. unfold first_of_epoch, epoch_at. destruct (c_parent c') as [j|]; [|reflexivity].
  rewrite nth_error_app1 by auto. reflexivity.
Qed.

Lemma master_from_app l1 l2 all i e acc :
  master_from (l1 ++ l2) all i e acc = master_from l2 all (i + length l1)%nat e (master_from l1 all i e acc).
Proof.
  revert i acc; induction l1 as [|a r IH]; intros i acc; cbn [app master_from length].
  - rewrite Nat.add_0_r; reflexivity.
  - rewrite IH. replace (S i + length r)%nat with (i + S (length r))%nat by lia. reflexivity.
Qed.

Lemma master_from_ext l all all' i e acc :
  (forall c, In c l -> first_of_epoch all c = first_of_epoch all' c) ->
  master_from l all i e acc = master_from l all' i e acc.
Proof.
  revert i acc; induction l as [|a r IH]; intros i acc H; cbn [master_from]; [reflexivity|].
  rewrite (H a (or_introl eq_refl)). apply IH. intros; apply H; right; auto.
Qed.

Lemma master_snoc cs c e : chain cs ->
  master (cs ++ [c]) e =
  if ((e - 1 <=? c_epoch c) && (c_epoch c <=? e)) && first_of_epoch (cs ++ [c]) c
  then Some (length cs) else master cs e.
Proof.
  intros Hc. unfold master. rewrite master_from_app. cbn [master_from].
  rewrite (master_from_ext cs (cs ++ [c]) cs); [reflexivity|].
  intros c' Hin. apply foe_app. apply chain_parents; auto.
Qed.

(* KEY LEMMA: the SQL master-certificate query returns the first certificate of the epoch if there
   is one, otherwise the first certificate of the previous epoch *)
Lemma master_mfirst cs : chain cs -> forall e, master cs e = mfirst cs e.
Proof.
  induction 1 as [g Hp He Hg | cs c j p x le Hc IH Hent Hep Hpar Hle H1 H2 Hm Hn Hl]; intro e.
  - unfold master, mfirst; cbn [master_from first_idx]. unfold first_of_epoch; rewrite Hp.
    cbn [option_map].
    destruct (N.leb_spec (e - 1) (c_epoch g)), (N.leb_spec (c_epoch g) e),
             (N.eqb_spec (c_epoch g) e), (N.eqb_spec (c_epoch g) (e - 1));
      cbn [andb]; try reflexivity; lia.
  - rewrite master_snoc by assumption. rewrite IH.
    assert (Hj : (j < length cs)%nat) by (apply nth_error_Some; congruence).
    unfold first_of_epoch, epoch_at. rewrite Hpar. rewrite nth_error_app1 by exact Hj. rewrite Hn.
    destruct (chain_le _ Hc) as (le' & cl & L & I & E & A).
    assert (Q : le' = le) by congruence. rewrite Q in *. clear Q.
    assert (Hfl : first_idx cs le <> None) by (rewrite <- E; apply first_idx_in; auto).
    assert (Hb : forall e' j', first_idx cs e' = Some j' -> 1 <= e' /\ e' <= le).
    { intros e' j' F. destruct (first_idx_some _ _ _ F) as (c0 & N0 & <-). apply A.
      eapply nth_error_In; eauto. }
    assert (Hle1 : 1 <= le) by (specialize (A cl I); lia).
    unfold mfirst in *. rewrite !first_idx_app.
    destruct (first_idx cs (c_epoch c)) as [j0|] eqn:F1.
    + assert (j0 = j) by congruence. subst j0.
      destruct (first_idx_some _ _ _ F1) as (c0 & N0 & E0).
      assert (c0 = p) by congruence. subst c0. rewrite E0, N.eqb_refl. cbn [negb]. rewrite andb_false_r.
      destruct (first_idx cs e) eqn:F2; [reflexivity|].
      destruct (N.eqb_spec (c_epoch c) e); [subst; congruence|].
      destruct (first_idx cs (e - 1)) eqn:F3; [reflexivity|].
      destruct (N.eqb_spec (c_epoch c) (e - 1)) as [E1|E1]; [rewrite E1 in F1; congruence|reflexivity].
    + destruct (first_idx_some _ _ _ Hm) as (c0 & N0 & E0).
      assert (c0 = p) by congruence. subst c0.
      assert (c_epoch c <> le) by (intros Q; rewrite Q in F1; congruence).
      assert (Hne : (c_epoch p =? c_epoch c) = false) by (apply N.eqb_neq; lia).
      rewrite Hne. cbn [negb]. rewrite andb_true_r.
      destruct (N.leb_spec (e - 1) (c_epoch c)), (N.leb_spec (c_epoch c) e); cbn [andb].
      * destruct (first_idx cs e) eqn:F2; [apply Hb in F2; lia|].
        destruct (N.eqb_spec (c_epoch c) e); [reflexivity|].
        replace (e - 1) with (c_epoch c) by lia. rewrite F1, N.eqb_refl. reflexivity.
      * destruct (first_idx cs e) eqn:F2; [reflexivity|].
        destruct (N.eqb_spec (c_epoch c) e); [lia|].
        destruct (first_idx cs (e - 1)) eqn:F3; [reflexivity|].
        destruct (N.eqb_spec (c_epoch c) (e - 1)); [lia|reflexivity].
      * destruct (first_idx cs e) eqn:F2; [reflexivity|].
        destruct (N.eqb_spec (c_epoch c) e); [lia|].
        destruct (first_idx cs (e - 1)) eqn:F3; [reflexivity|].
        destruct (N.eqb_spec (c_epoch c) (e - 1)); [lia|reflexivity].
      * destruct (first_idx cs e) eqn:F2; [reflexivity|].
        destruct (N.eqb_spec (c_epoch c) e); [lia|].
        destruct (first_idx cs (e - 1)) eqn:F3; [reflexivity|].
        destruct (N.eqb_spec (c_epoch c) (e - 1)); [lia|reflexivity].
Qed.

(* ---------- index forms ---------- *)
Lemma chain_idx cs : chain cs -> forall i c, nth_error cs i = Some c ->
  (i = 0%nat /\ c_ent c = None /\ c_parent c = None) \/
  (exists x j p, c_ent c = Some x /\ en_epoch x = c_epoch c /\ c_parent c = Some j /\ (j < i)%nat /\
                 nth_error cs j = Some p /\ link_ok p c = true /\
                 mfirst (firstn i cs) (c_epoch c) = Some j).
Proof.
  induction 1 as [g Hp He Hg | cs c j p x le Hc IH Hent Hep Hpar Hle H1 H2 Hm Hn Hl]; intros i c0 Hi.
  - destruct i; cbn in Hi.
    + injection Hi as <-. left; auto.
    + destruct i; discriminate.
  - destruct (Nat.lt_ge_cases i (length cs)) as [Hlt|Hge].
    + rewrite nth_error_app1 in Hi by auto.
      destruct (IH _ _ Hi) as [?|(x0 & j0 & p0 & A1 & A2 & A3 & A4 & A5 & A6 & A7)]; [left; auto|right].
      exists x0, j0, p0. split; [auto|]. split; [auto|]. split; [auto|]. split; [auto|].
      split; [rewrite nth_error_app1 by lia; auto|]. split; [auto|].
      rewrite firstn_app. replace (i - length cs)%nat with 0%nat by lia. cbn [firstn].
      rewrite app_nil_r; auto.
    + rewrite nth_error_app2 in Hi by auto.
      destruct (i - length cs)%nat as [|n] eqn:D; cbn in Hi; [|destruct n; discriminate].
      injection Hi as <-. assert (i = length cs) by lia; subst i. right. exists x, j, p.
      assert (j < length cs)%nat by (apply nth_error_Some; congruence).
      split; [auto|]. split; [auto|]. split; [auto|]. split; [auto|].
      split; [rewrite nth_error_app1; auto|]. split; [auto|].
      rewrite firstn_app, Nat.sub_diag, firstn_all. cbn [firstn]. rewrite app_nil_r; auto.
Qed.

Lemma chain_steps cs : chain cs -> forall i c c',
  nth_error cs i = Some c -> nth_error cs (S i) = Some c' ->
  c_epoch c <= c_epoch c' /\ c_epoch c' <= c_epoch c + 1.
Proof.
  induction 1 as [g Hp He Hg | cs c j p x le Hc IH Hent Hep Hpar Hle H1 H2 Hm Hn Hl]; intros i c0 c1 Hi Hs.
  - cbn in Hs. destruct i; discriminate.
  - destruct (Nat.lt_ge_cases (S i) (length cs)) as [Hlt|Hge].
    + rewrite nth_error_app1 in Hi by lia. rewrite nth_error_app1 in Hs by lia. eapply IH; eauto.
    + assert (S i < length (cs ++ [c]))%nat by (apply nth_error_Some; congruence).
      rewrite app_length in H; cbn in H. assert (S i = length cs) by lia.
      rewrite nth_error_app2 in Hs by lia. replace (S i - length cs)%nat with 0%nat in Hs by lia.
      cbn in Hs. injection Hs as <-. rewrite nth_error_app1 in Hi by lia.
      rewrite (last_epoch_nth _ _ _ _ Hle Hi H0). lia.
Qed.

Lemma chain_epochs cs env : chain cs -> cep cs env -> epochs_ok cs (tp_epoch env).
Proof.
  intros Hc He. split.
  - intros i c Hi. apply nth_error_In in Hi. destruct (chain_le _ Hc) as (le & cl & L & I & E & A).
    split; [apply A; auto|apply He; auto].
  - apply chain_steps; auto.
Qed.

Lemma chain_parent_rule cs : chain cs -> parent_rule cs.
Proof.
  intros Hc. split.
  - destruct cs as [|g r]; [inversion Hc; destruct cs; discriminate|].
    exists g. split; [reflexivity|].
    destruct (chain_idx _ Hc 0%nat g eq_refl) as [(_ & A & B)|(x & j & p & _ & _ & _ & L & _)]; [auto|lia].
  - intros i c Hi.
    destruct (chain_idx _ Hc _ _ Hi) as [(-> & A & B)|(x & j & p & A1 & A2 & A3 & A4 & A5 & A6 & A7)].
    + rewrite A; auto.
    + rewrite A1. exists j; auto.
Qed.

Lemma chain_links cs : chain cs -> links_ok cs.
Proof.
  intros Hc i c Hi Hne.
  destruct (chain_idx _ Hc _ _ Hi) as [(-> & A & B)|(x & j & p & A1 & A2 & A3 & A4 & A5 & A6 & A7)].
  - congruence.
  - exists j, p; auto.
Qed.

Lemma chain_walk cs : chain cs -> forall n i, (i < length cs)%nat -> (i < n)%nat -> walk cs n i = Some 0%nat.
Proof.
  intros Hc. induction n as [|n IHn]; intros i Hl Hn; [lia|]. cbn [walk].
  destruct (nth_error cs i) as [c|] eqn:E; [|apply nth_error_None in E; lia].
  destruct (chain_idx _ Hc _ _ E) as [(-> & _ & ->)|(x & j & p & _ & _ & -> & L & _)]; [reflexivity|].
  apply IHn; lia.
Qed.

(* genesis: the latest certificate without parent is the first row *)
Lemma chain_genesis cs : chain cs ->
  exists g le, genesis_epoch cs = Some g /\ last_epoch cs = Some le /\ 1 <= g /\ g <= le.
Proof.
  induction 1 as [g Hp He Hg | cs c j p x le Hc IH Hent Hep Hpar Hle H1 H2 Hm Hn Hl].
  - exists (c_epoch g), (c_epoch g). unfold genesis_epoch, last_epoch. cbn. rewrite Hp.
    split; [reflexivity|]. split; [reflexivity|]. lia.
  - destruct IH as (g0 & le0 & G & L & A & B). exists g0, (c_epoch c).
    unfold genesis_epoch in *. rewrite fold_left_app. cbn [fold_left]. rewrite Hpar.
    rewrite last_epoch_app. split; [exact G|]. split; [reflexivity|].
    assert (le0 = le) by congruence. lia.
Qed.
