(* C14/Proofs4.v — Inv2: keys of the epoch (T4), epoch data, runtime state, open messages.
   Preserved by every event, Crash of every cut included. *)
From Coq Require Import Lia.
From MV Require Import Base.Prelude C14.Model C14.Spec C14.Proofs1 C14.Proofs2.
Open Scope N_scope.

Definition good2 (regs : list (N * list N)) (x : entity) (f : om -> om) : Prop :=
  forall o, om_ent (f o) = om_ent o /\ om_next (f o) = om_next o /\
    forall q ix, In (q, ix) (om_sigs (f o)) ->
                 In (q, ix) (om_sigs o) \/ mem q (reg_at regs (en_epoch x - 1)) = true.

Lemma om_ok_upd oms env ed regs x f :
  om_ok oms env ed regs -> good2 regs x f -> om_ok (upd_om oms x f) env ed regs.
Proof.
  intros H G o' Hin. unfold upd_om in Hin. apply in_map_iff in Hin. destruct Hin as (o & <- & Hin).
  destruct (H o Hin) as (A & B & C & D). destruct (ent_eqb (om_ent o) x) eqn:E; [|exact (conj A (conj B (conj C D)))].
  destruct (G o) as (G1 & G2 & G3). rewrite G1, G2. split; [auto|]. split; [auto|]. split; [auto|].
  intros q ix Hq. destruct (G3 q ix Hq) as [Hs|Hs]; [exact (D q ix Hs)|]. apply ent_eqb_eq in E. rewrite E. exact Hs.
Qed.
Lemma good2_exp regs x : good2 regs x (fun o => if om_due o then om_set_exp o else o).
Proof. intros o; destruct (om_due o); cbn; auto. Qed.
Lemma good2_due regs x : good2 regs x om_set_due. Proof. intros o; cbn; auto. Qed.
Lemma good2_cert regs x : good2 regs x om_set_cert. Proof. intros o; cbn; auto. Qed.
Lemma good2_add regs x p ix : mem p (reg_at regs (en_epoch x - 1)) = true -> good2 regs x (om_add_sig p ix).
Proof.
  intros M o. cbn [om_add_sig om_ent om_next om_sigs]. split; [auto|]. split; [auto|].
  intros q ix' Hq. apply in_app_or in Hq. destruct Hq as [Hq|[Hq|[]]].
  - apply filter_In in Hq. left; tauto.
  - injection Hq as <- <-. right; auto.
Qed.
Lemma om_ok_none oms env ed regs : om_ok oms env ed regs -> om_ok oms env None regs.
Proof.
  intros H o Hin. destruct (H o Hin) as (A & B & C & D). split; [auto|]. split; [intros d [=]|auto].
Qed.
Lemma om_ok_filter oms env ed regs d : om_ok oms env ed regs -> ed_ep d = tp_epoch env ->
  om_ok (filter (fun o => tp_epoch env <=? en_epoch (om_ent o)) oms) env (Some d) regs.
Proof.
  intros H E o Hin. apply filter_In in Hin. destruct Hin as [Hin L]. apply N.leb_le in L.
  destruct (H o Hin) as (A & B & C & D). split; [auto|]. split; [|auto].
  intros d' Hd. injection Hd as <-. lia.
Qed.
Lemma om_ok_app oms env ed regs o : om_ok oms env ed regs ->
  en_epoch (om_ent o) <= tp_epoch env -> (forall d, ed = Some d -> en_epoch (om_ent o) = ed_ep d) ->
  om_next o = reg_at regs (en_epoch (om_ent o)) -> om_sigs o = [] -> om_ok (oms ++ [o]) env ed regs.
Proof.
  intros H A B C D o' Hin. apply in_app_or in Hin. destruct Hin as [Hin|[<-|[]]]; [auto|].
  split; [auto|]. split; [auto|]. split; [auto|]. rewrite D. intros p ix [].
Qed.
Lemma handover_ind (P : list om -> Prop) S x bufs : forall oms rm stop, P oms ->
  (forall oms g, P oms -> sig_valid_for S g x = true ->
                 P (upd_om oms x (om_add_sig (sg_party g) (sg_idxs g)))) ->
  P (fst (fst (handover S x bufs oms rm stop))).
Proof.
  induction bufs as [|g r IH]; intros oms rm stop H Hs; cbn [handover fst]; [exact H|].
  destruct (sig_valid_for S g x) eqn:V; [|apply IH; [exact H|exact Hs]].
  destruct stop as [[|n]|]; cbn [fst];
    [apply Hs; [exact H|exact V]|apply IH; [apply Hs; [exact H|exact V]|exact Hs]
    |apply IH; [apply Hs; [exact H|exact V]|exact Hs]].
Qed.
Lemma sig_valid_mem S g x : sig_valid_for S g x = true -> mem (sg_party g) S = true.
Proof.
  unfold sig_valid_for. intros V. apply andb_true_iff in V. destruct V as [V _].
  apply andb_true_iff in V. tauto.
Qed.

Lemma reg_at_add_ne regs r p e : e <> r -> reg_at (reg_add regs r p) e = reg_at regs e.
Proof.
  intros Ne. induction regs as [|[e' l] rest IH]; cbn [reg_add reg_at].
  - destruct (N.eqb_spec r e); [congruence|reflexivity].
  - destruct (N.eqb_spec e' r) as [E|E]; cbn [reg_at].
    + destruct (N.eqb_spec e' e); [congruence|reflexivity].
    + destruct (e' =? e); auto.
Qed.

(* ---------- basic preservation ---------- *)
Lemma inv2_set_rt s r : Inv2 s -> rt_ok r (s_env s) (s_ed s) -> Inv2 (set_rt s r).
Proof. unfold Inv2; sc; tauto. Qed.
Lemma inv2_set_oms s oms : Inv2 s -> om_ok oms (s_env s) (s_ed s) (s_regs s) -> Inv2 (set_oms s oms).
Proof. unfold Inv2; sc; tauto. Qed.
Lemma inv2_restart s : Inv2 s -> Inv2 (restart s).
Proof.
  unfold Inv2; sc. intros (A & B & C & D). split; [auto|]. split; [intros d [=]|].
  split; [exact I|]. eapply om_ok_none; eauto.
Qed.
Lemma inv2_env s e' : Inv2 s -> tp_epoch (s_env s) <= tp_epoch e' -> Inv2 (set_env s e').
Proof.
  unfold Inv2; sc. intros (K & Ed & Rt & Om) L. split; [auto|]. split.
  { intros d Hd. destruct (Ed d Hd) as (? & ? & ?). split; [auto|]. split; [auto|lia]. }
  split.
  { destruct (s_rt s) as [[p|]|since|since|cur|cur x]; cbn [rt_ok] in *; auto;
      [lia|destruct Rt; split; [lia|auto]|destruct Rt as (? & ? & ?); split; [lia|auto]]. }
  intros o Hin. destruct (Om o Hin) as (? & ? & ? & ?). split; [lia|auto].
Qed.

Lemma open_round_inv2 c s d tp x : Inv2 s -> s_ed s = Some d -> ed_ep d = tp_epoch tp -> s_env s = tp ->
  en_epoch x = tp_epoch tp -> Inv2 (fst (open_round c s d tp x)).
Proof.
  intros Hi D E Env Hx. subst tp. unfold open_round. destruct (negb (ed_comp d)); [exact Hi|].
  destruct Hi as (K & Ed & Rt & Om). destruct (Ed d D) as (E1 & E2 & E3).
  assert (Om1 : om_ok (s_oms s ++ [{| om_ent := x; om_next := ed_nxt d; om_cert := false; om_exp := false;
                                     om_due := false; om_sigs := [] |}]) (s_env s) (s_ed s) (s_regs s)).
  { apply om_ok_app; cbn [om_ent om_next om_sigs]; auto; [lia| |rewrite Hx, <- E; auto].
    intros d' Hd'. rewrite D in Hd'. injection Hd' as <-. lia. }
  destruct (cut_is c CutOmCreated); [apply inv2_restart; unfold Inv2; sc; auto|].
  match goal with |- context [handover ?a ?b ?c ?d ?e ?f] =>
    pose proof (handover_ind (fun oms => om_ok oms (s_env s) (s_ed s) (s_regs s)) a b c d e f) as HL;
    destruct (handover a b c d e f) as [[oms2 rm] dead] eqn:Hh end.
  cbn [fst] in HL. sc. specialize (HL Om1).
  assert (Om2 : om_ok oms2 (s_env s) (s_ed s) (s_regs s)).
  { apply HL. intros oms g P V. apply om_ok_upd; auto. apply good2_add.
    apply sig_valid_mem in V. rewrite Hx, <- E, <- E1. exact V. }
  destruct dead; [apply inv2_restart; unfold Inv2; sc; auto|].
  destruct (cut_is c CutBufRemoved); [apply inv2_restart; unfold Inv2; sc; auto|].
  unfold Inv2; sc. split; [auto|]. split; [auto|]. split; [|auto].
  cbn [rt_ok]. split; [lia|]. split; [|auto]. intros d' Hd'. rewrite D in Hd'. injection Hd' as <-. auto.
Qed.

Lemma ready_scan_inv2 c d tp ts : forall s, Inv2 s -> s_ed s = Some d -> ed_ep d = tp_epoch tp ->
  s_env s = tp -> Inv2 (fst (ready_scan c s d tp ts)).
Proof.
  induction ts as [|t r IH]; intros s Hi D E Env; cbn [ready_scan].
  - sc. apply inv2_set_rt; auto. cbn [rt_ok]. split; [subst; lia|].
    intros d' Hd'. rewrite D in Hd'. injection Hd' as <-. auto.
  - assert (I1 : Inv2 (set_oms s (mark_expired (s_oms s) (entity_of t tp)))).
    { apply inv2_set_oms; auto. apply om_ok_upd; [apply Hi|apply good2_exp]. }
    destruct (find_om _ _) as [o|].
    + destruct (negb (om_cert o) && negb (om_exp o)).
      * sc. apply inv2_set_rt; auto. sc. cbn [rt_ok]. split; [subst; lia|]. split; [|apply entity_of_epoch].
        intros d' Hd'. rewrite D in Hd'. injection Hd' as <-. auto.
      * apply IH; auto.
    + apply open_round_inv2; auto. apply entity_of_epoch.
Qed.

Lemma inv2_leaf s s' crt x : Inv2 s ->
  s_regs s' = s_regs s -> s_env s' = s_env s -> s_certs s' = s_certs s ++ [crt] ->
  (c_set crt = reg_at (s_regs s) (c_epoch crt - 1) /\ c_next crt = reg_at (s_regs s) (c_epoch crt) /\
   sublist_of (c_signers crt) (c_set crt)) ->
  (s_oms s' = s_oms s \/ s_oms s' = upd_om (s_oms s) x om_set_cert) ->
  (s_ed s' = s_ed s \/ s_ed s' = None) ->
  rt_ok (s_rt s') (s_env s) (s_ed s') -> Inv2 s'.
Proof.
  intros (K & Ed & Rt & Om) H1 H2 H3 Kc Ho He Hr. unfold Inv2. rewrite H1, H2, H3.
  split. { intros c0 Hin Hne. apply in_app_or in Hin. destruct Hin as [Hin|[<-|[]]]; auto. }
  assert (Om' : om_ok (s_oms s') (s_env s) (s_ed s) (s_regs s)).
  { destruct Ho as [->| ->]; [auto|]. apply om_ok_upd; auto. apply good2_cert. }
  split. { destruct He as [->| ->]; [auto|intros d [=]]. }
  split; [exact Hr|]. destruct He as [->| ->]; [auto|]. eapply om_ok_none; eauto.
Qed.

Lemma seal_inv2 k c s cur x : Inv2 s -> s_rt s = Signing cur x ->
  (tp_epoch cur <? tp_epoch (s_env s)) = false -> Inv2 (fst (seal k c s cur x)).
Proof.
  intros Hi R Lt. unfold seal.
  destruct (find_om (s_oms s) x) as [o|] eqn:F; [|exact Hi].
  destruct (om_cert o) eqn:C1; [exact Hi|].
  destruct (om_exp o) eqn:C2; [exact Hi|].
  destruct (master (s_certs s) (en_epoch x)) as [j|] eqn:M; [|exact Hi].
  destruct (genesis_epoch (s_certs s)); [|exact Hi].
  destruct (s_ed s) as [d|] eqn:D; [|exact Hi].
  destruct (ed_comp d) eqn:C3; cbn [negb]; [|exact Hi].
  destruct (quorum k (om_sigs o)) eqn:Q; cbn [negb]; [|exact Hi].
  destruct (nth_error (s_certs s) j) as [p|] eqn:Np; [|exact Hi].
  destruct (link_ok p _) eqn:L; cbn [negb]; [|exact Hi].
  pose proof Hi as (K & Ed & Rt & Om). rewrite R in Rt. cbn [rt_ok] in Rt. destruct Rt as (R1 & R2 & R3).
  apply N.ltb_ge in Lt. rewrite D in R2, Ed. specialize (R2 d eq_refl). destruct (Ed d eq_refl) as (E1 & E2 & E3).
  destruct (find_om_ent _ _ _ F) as [Eo Io]. destruct (Om o Io) as (O1 & O2 & O3 & O4).
  assert (RtR : rt_ok (Ready cur) (s_env s) (Some d)).
  { cbn [rt_ok]. split; [auto|]. intros d' Hd'. injection Hd' as <-. auto. }
  assert (Kc : forall crt, crt = {| c_epoch := en_epoch x; c_ent := Some x; c_parent := Some j;
                 c_signers := filter (fun q => mem q (map fst (om_sigs o))) (ed_cur d);
                 c_set := ed_cur d; c_next := om_next o |} ->
            c_set crt = reg_at (s_regs s) (c_epoch crt - 1) /\ c_next crt = reg_at (s_regs s) (c_epoch crt) /\
            sublist_of (c_signers crt) (c_set crt)).
  { intros crt ->. cbn [c_set c_next c_epoch c_signers]. rewrite O3, Eo, E1, R3, R2.
    split; [auto|]. split; [auto|]. intros q Hq. apply filter_In in Hq. tauto. }
  destruct c as [[| | | | | |]|]; cbn [cut_is]; sc;
    try (match goal with |- context [existsb ?f ?l] => destruct (existsb f l) eqn:X end); sc;
    (eapply (inv2_leaf s _ _ x Hi); sc;
     [reflexivity|reflexivity|reflexivity|apply Kc; reflexivity
     |first [left; reflexivity|right; reflexivity]
     |first [left; reflexivity|right; reflexivity]
     |first [exact I|rewrite D; exact RtR]]).
Qed.

Lemma inv2_idle_leaf s s' comp : Inv2 s ->
  s_regs s' = s_regs s -> s_env s' = s_env s -> s_certs s' = s_certs s ->
  s_oms s' = filter (fun o => tp_epoch (s_env s) <=? en_epoch (om_ent o)) (s_oms s) ->
  s_ed s' = Some {| ed_ep := tp_epoch (s_env s); ed_cur := reg_at (s_regs s) (tp_epoch (s_env s) - 1);
                    ed_nxt := reg_at (s_regs s) (tp_epoch (s_env s)); ed_comp := comp |} ->
  rt_ok (s_rt s') (s_env s) (s_ed s') -> Inv2 s'.
Proof.
  intros (K & Ed & Rt & Om) H1 H2 H3 H4 H5 Hr. unfold Inv2. rewrite H1, H2, H3, H4. split; [auto|].
  split. { rewrite H5. intros d Hd. injection Hd as <-. cbn. split; [auto|]. split; [auto|lia]. }
  split; [exact Hr|]. rewrite H5. eapply om_ok_filter; eauto.
Qed.

Lemma tick_inv2 k c s : Inv2 s -> Inv2 (fst (tick_at k c s)).
Proof.
  intros Hi. pose proof Hi as (K & Ed & Rt & Om). unfold tick_at.
  destruct (s_rt s) as [prev|since|since|cur|cur x] eqn:R.
  - assert (Hinit : match prev with None => true | Some p => tp_epoch p <? tp_epoch (s_env s) end = true).
    { destruct prev; [apply N.ltb_lt; exact Rt|reflexivity]. }
    cbn zeta. rewrite Hinit. cbn [andb ed_cur ed_nxt ed_ep].
    repeat match goal with
           | |- context [if ?b then _ else _] => destruct b
           | |- context [match ?o with Some _ => _ | None => _ end] => destruct o
           end; sc;
      (eapply (inv2_idle_leaf s _ _ Hi); sc;
       [reflexivity|reflexivity|reflexivity|reflexivity|reflexivity|
        rewrite ?R; first [exact Rt | exact I
                          | cbn [rt_ok]; split; [apply N.le_refl|intros d' Hd'; injection Hd' as <-; reflexivity]]]).
  - destruct (_ <? _) eqn:L; sc; [|exact Hi]. apply inv2_set_rt; auto. cbn [rt_ok]. apply N.ltb_lt; auto.
  - destruct (_ <? _) eqn:L; sc; [|exact Hi]. apply inv2_set_rt; auto. cbn [rt_ok]. apply N.ltb_lt; auto.
  - cbn [rt_ok] in Rt. destruct Rt as (R1 & R2).
    destruct (_ <? _) eqn:L; sc.
    + apply inv2_set_rt; auto. cbn [rt_ok]. apply N.ltb_lt; auto.
    + apply N.ltb_ge in L. destruct (s_ed s) as [d|] eqn:D; [|exact Hi].
      apply ready_scan_inv2; auto. rewrite (R2 d eq_refl). lia.
  - cbn zeta. cbn [rt_ok] in Rt. destruct Rt as (R1 & R2 & R3).
    assert (I1 : Inv2 (set_oms s (mark_expired (s_oms s) x))).
    { apply inv2_set_oms; auto. apply om_ok_upd; [auto|apply good2_exp]. }
    destruct (s_ed s) as [d|] eqn:D; [|exact I1].
    destruct (tp_epoch cur <? tp_epoch (s_env s)) eqn:L; sc.
    + apply inv2_set_rt; auto. cbn [rt_ok]. apply N.ltb_lt; auto.
    + destruct (negb _ || _); sc.
      * apply inv2_set_rt; auto. sc. cbn [rt_ok]. rewrite D. split; auto.
      * apply seal_inv2; auto.
Qed.

Lemma inv2_step k s e : Inv1 false s -> Inv2 s -> Inv2 (astep k s e).
Proof.
  intros (CH & CE & _) Hi. pose proof Hi as (K & Ed & Rt & Om). destruct e; cbn [astep].
  - apply tick_inv2; auto.
  - apply inv2_env; auto. sc; lia.
  - apply inv2_env; auto. sc; lia.
  - apply inv2_env; auto. sc; lia.
  - destruct (s_round s) as [r|]; [|exact Hi]. destruct (N.eqb_spec r (tp_epoch (s_env s) + 1)) as [->|]; [|exact Hi].
    unfold Inv2; sc. split.
    { intros c0 Hin Hne. specialize (CE c0 Hin). rewrite !reg_at_add_ne by lia. auto. }
    split. { intros d Hd. destruct (Ed d Hd) as (? & ? & ?). rewrite !reg_at_add_ne by lia. auto. }
    split; [auto|]. intros o Hin. destruct (Om o Hin) as (? & ? & ? & ?). rewrite !reg_at_add_ne by lia. auto.
  - unfold on_sig, register. destruct (authenticated _ _); [|exact Hi].
    destruct (find_om (s_oms s) x) as [o|] eqn:F; [|exact Hi].
    destruct (om_cert o); [exact Hi|]. destruct (om_exp o); [exact Hi|].
    destruct (s_ed s) as [d|] eqn:D; [|exact Hi].
    destruct (ed_comp d && sig_valid_for (ed_cur d) g x) eqn:V; [|exact Hi].
    apply andb_true_iff in V. destruct V as [_ V]. apply sig_valid_mem in V.
    destruct (find_om_ent _ _ _ F) as [Eo Io]. destruct (Om o Io) as (O1 & O2 & O3 & O4).
    destruct (Ed d eq_refl) as (E1 & E2 & E3).
    apply inv2_set_oms; auto. sc. rewrite D. apply om_ok_upd; auto. apply good2_add.
    rewrite <- Eo, (O2 d eq_refl), <- E1. exact V.
  - apply inv2_set_oms; auto. apply om_ok_upd; auto. apply good2_due.
  - apply inv2_restart; auto.
  - apply tick_inv2; auto.
Qed.

Lemma inv2_init all : Inv2 (init all).
Proof.
  unfold Inv2, init; sc. split; [intros c [<-|[]] H; cbn in H; congruence|].
  split; [intros d [=]|]. split; [exact I|]. intros o [].
Qed.

Lemma inv12_run k : forall l s, Inv1 false s -> Inv2 s -> Inv2 (run_from k s l).
Proof.
  induction l as [|e l IH]; cbn [run_from fold_left]; intros s I1 I2; [exact I2|].
  apply IH; [apply inv1_step; auto; discriminate|apply inv2_step; auto].
Qed.
