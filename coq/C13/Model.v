(* C13/Model.v — chain importer over the repository's schema semantics, driven by a
   chain-sync server.  Executable definitions only.
   Sources (mirrored as they are today, defects included):
     mithril-cardano-node-chain/src/chain_importer/{service,blocks_and_transactions_importer,
       block_ranges_importer}.rs, chain_scanner/chain_reader_block_streamer.rs,
     mithril-persistence/src/database/{cardano_transaction_migration.rs (schema),
       repository/cardano_transaction_repository.rs, query/**},
     mithril-common/src/entities/block_range.rs,
     mithril-common/src/signable_builder/cardano_{blocks_,}transactions.rs.
   Hashes are ideal (Base/SymHash.v): a block-range root is the digest of the ordered leaf
   list, the signed root the digest of the ordered (range, root) list. *)
From MV Require Import Base.Prelude Base.SymHash Gen.Consts.
Open Scope N_scope.

Definition LENGTH : N := BLOCK_RANGE_LENGTH.
Definition range_start (x : N) : N := x / LENGTH * LENGTH.          (* BlockRange::start *)

(* ------------------------------------------------------------------ *)
(* data *)
Record block := { num : N; slot : N; bh : N; txs : list N }.
(* RawCardanoPoint: (slot, hash); origin = (0, 0) — real blocks carry bh >= 1 *)
Definition point := (N * N)%type.
Definition origin : point := (0, 0).
Definition point_of (b : block) : point := (slot b, bh b).
Definition point_eqb (p q : point) : bool := (fst p =? fst q) && (snd p =? snd q).

(* the three tables (cardano_block + cardano_tx nested under their block since the
   foreign key + cascade make a transaction row live and die with its block row;
   block_range_root; block_range_root_legacy) *)
Record store := { blocks : list block;            (* sorted by block number *)
                  roots : list (N * bt);          (* range start -> root, sorted by start; end = start + LENGTH *)
                  lroots : list (N * bt) }.
Definition empty : store := {| blocks := []; roots := []; lroots := [] |}.

(* ------------------------------------------------------------------ *)
(* repository: blocks and transactions *)
Definition mem (x : N) (l : list N) : bool := existsb (N.eqb x) l.
Definition known_txs (bs : list block) : list N := flat_map txs bs.
(* transaction hashes of [ts] that `insert or ignore` would really insert given the
   primary key on transaction_hash *)
Fixpoint keep_new (known ts : list N) : list N :=
  match ts with
  | [] => []
  | t :: r => if mem t known then keep_new known r else t :: keep_new (t :: known) r
  end.
Fixpoint insert_sorted (b : block) (l : list block) : list block :=
  match l with
  | [] => [b]
  | x :: r => if num b <? num x then b :: l else x :: insert_sorted b r
  end.
Definition conflict (b x : block) : bool :=
  (bh x =? bh b) || (slot x =? slot b) || (num x =? num b).
Definition with_txs (b : block) (ts : list N) : block :=
  {| num := num b; slot := slot b; bh := bh b; txs := ts |}.
(* `insert or ignore into cardano_block` under PRIMARY KEY(block_hash), UNIQUE(slot_number),
   UNIQUE(block_number), then `insert or ignore into cardano_tx` under PRIMARY
   KEY(transaction_hash) and FOREIGN KEY(block_hash): a transaction that is new but whose
   block row was ignored in favour of a row with another hash violates the foreign key and
   the statement fails (None). *)
Definition store_block (bs : list block) (b : block) : option (list block) :=
  match find (conflict b) bs with
  | Some x =>
      let new := keep_new (known_txs bs) (txs b) in
      if existsb (fun y => bh y =? bh b) bs
      then Some (map (fun y => if bh y =? bh b then with_txs y (txs y ++ new) else y) bs)
      else match new with [] => Some bs | _ => None end
  | None => Some (insert_sorted (with_txs b (keep_new (known_txs bs) (txs b))) bs)
  end.
(* one chunk = one SQL transaction: all or nothing *)
Fixpoint store_blocks (bs : list block) (l : list block) : option (list block) :=
  match l with
  | [] => Some bs
  | b :: r => match store_block bs b with Some bs' => store_blocks bs' r | None => None end
  end.

Definition highest (bs : list block) : option block := last (map Some bs) None.
(* get_closest_block_number_above_slot_number: max(block_number) where slot_number <= s *)
Definition anchor (bs : list block) (s : N) : option block :=
  highest (filter (fun b => slot b <=? s) bs).
(* remove_rolled_back_blocks_transactions_and_block_range_by_slot_number; second
   component: no anchor although the table is not empty (nothing is deleted) *)
Definition rollback (st : store) (s : N) : store * bool :=
  match anchor (blocks st) s with
  | None => (st, match blocks st with [] => false | _ => true end)
  | Some a =>
      ({| blocks := filter (fun b => num b <=? num a) (blocks st);
          roots := filter (fun r => fst r <? range_start (num a)) (roots st);
          lroots := filter (fun r => fst r <? range_start (num a)) (lroots st) |}, false)
  end.

(* ------------------------------------------------------------------ *)
(* block-range roots *)
Definition ALG_RANGE : N := 10.   Definition ALG_LEGACY : N := 11.   Definition ALG_MAP : N := 12.
Definition leaf_block (b : block) : bt := BLit [0; bh b; num b; slot b].
Definition leaf_tx (b : block) (t : N) : bt := BLit [1; t; bh b; num b; slot b].
Fixpoint insN (x : N) (l : list N) : list N :=
  match l with [] => [x] | y :: r => if x <=? y then x :: l else y :: insN x r end.
Definition sortN (l : list N) : list N := fold_right insN [] l.
(* BTreeSet<CardanoBlockTransactionMkTreeNode>: blocks first, then transactions, by block number *)
Definition leaves_of (bs : list block) : list bt :=
  map leaf_block bs ++ flat_map (fun b => map (leaf_tx b) (sortN (txs b))) bs.
(* get_transactions_in_range: order by block_number, transaction_hash; leaf = the hash alone *)
Definition legacy_leaves_of (bs : list block) : list bt :=
  flat_map (fun b => map (fun t => BLit [t]) (sortN (txs b))) bs.
Definition in_range (bs : list block) (lo hi : N) : list block :=
  filter (fun b => (lo <=? num b) && (num b <? hi)) bs.
Definition root_new (bs : list block) : option bt :=
  match bs with [] => None | _ => Some (BHash ALG_RANGE (leaves_of bs)) end.
Definition root_legacy (bs : list block) : option bt :=
  match legacy_leaves_of bs with [] => None | ls => Some (BHash ALG_LEGACY ls) end.

(* BlockRangesSequence::new(lo ..= up_to): starts of the ranges wholly inside *)
Definition seq_start (lo : N) : N := if lo mod LENGTH =? 0 then lo else range_start lo + LENGTH.
Definition range_starts (lo up_to : N) : list N :=
  let s := seq_start lo in let e := range_start (up_to + 1) in
  map (fun i => s + LENGTH * N.of_nat i) (seq 0 (N.to_nat ((e - s) / LENGTH))).
(* `highest()` = the row with the greatest end *)
Definition highest_root_end (rs : list (N * bt)) : option N :=
  match rs with [] => None | _ => Some (fold_right N.max 0 (map (fun r => fst r + LENGTH) rs)) end.
Fixpoint insert_root (r : N * bt) (l : list (N * bt)) : list (N * bt) :=
  match l with
  | [] => [r]
  | x :: q => if fst r =? fst x then l            (* insert or ignore on (start, end) *)
              else if fst r <? fst x then r :: l else x :: insert_root r q
  end.
(* BlockRangeImporter::run / run_legacy *)
Definition compute_roots (rootf : list block -> option bt) (bs : list block) (rs : list (N * bt)) (up_to : N)
  : list (N * bt) :=
  let lo := match highest_root_end rs with Some e => range_start e | None => 0 end in
  fold_left (fun acc s => match rootf (in_range bs s (s + LENGTH)) with
                          | Some r => insert_root (s, r) acc | None => acc end)
            (range_starts lo up_to) rs.

(* ------------------------------------------------------------------ *)
(* chain-sync server (environment) as seen through ChainBlockReader *)
Inductive mutation :=
| Switch (keep : nat) (bs : list block).      (* keep the first [keep] blocks, then append [bs]; Extend = keep everything *)
Record srv := { chain : list block;
                ptr : nat;                     (* follower read pointer: blocks of [chain] already sent (0 = origin) *)
                back : bool;                   (* next instruction: RollBackward to the pointer *)
                agency : bool;                 (* the client has agency (false after Await) *)
                pending : list (nat * mutation) }.   (* mutations applied after that many further reads *)
Inductive action := Fwd (b : block) | Back (p : point).

Definition point_at (c : list block) (n : nat) : point :=
  match n with O => origin | S k => match nth_error c k with Some b => point_of b | None => origin end end.
Definition mutate (s : srv) (m : mutation) : srv :=
  match m with
  | Switch keep bs =>
      let keep := Nat.min keep (length (chain s)) in
      let cut := Nat.ltb keep (ptr s) in
      {| chain := firstn keep (chain s) ++ bs;
         ptr := if cut then keep else ptr s;
         back := back s || cut;
         agency := agency s; pending := pending s |}
  end.
(* one read = one tick of the pending mutations *)
Fixpoint tick (s : srv) (fuel : nat) : srv :=
  match fuel with O => s | S f =>
    match pending s with
    | (O, m) :: rest =>
        tick (mutate {| chain := chain s; ptr := ptr s; back := back s; agency := agency s; pending := rest |} m) f
    | (S k, m) :: rest =>
        {| chain := chain s; ptr := ptr s; back := back s; agency := agency s; pending := (k, m) :: rest |}
    | [] => s
    end end.
(* get_next_chain_block *)
Definition srv_next (s0 : srv) : option action * srv :=
  let s := tick s0 (S (length (pending s0))) in
  if back s then
    (Some (Back (point_at (chain s) (ptr s))),
     {| chain := chain s; ptr := ptr s; back := false; agency := true; pending := pending s |})
  else match nth_error (chain s) (ptr s) with
       | Some b => (Some (Fwd b),
                    {| chain := chain s; ptr := S (ptr s); back := false; agency := true; pending := pending s |})
       | None => (None, {| chain := chain s; ptr := ptr s; back := false; agency := false; pending := pending s |})
       end.
Fixpoint index_of_point (c : list block) (p : point) (i : nat) : option nat :=
  match c with
  | [] => None
  | b :: r => if point_eqb (point_of b) p then Some (S i) else index_of_point r p (S i)
  end.
(* set_chain_point: find_intersect only when the client has agency; a point that is not
   on the chain leaves the follower where it is *)
Definition srv_intersect (s : srv) (p : point) : srv :=
  if agency s then
    match (if point_eqb p origin then Some O else index_of_point (chain s) p O) with
    | Some i => {| chain := chain s; ptr := i; back := true; agency := true; pending := pending s |}
    | None => s
    end
  else s.
(* connection dropped / process restarted: a new follower starts at the origin *)
Definition srv_reconnect (s : srv) : srv :=
  {| chain := chain s; ptr := O; back := true; agency := true; pending := pending s |}.

(* ------------------------------------------------------------------ *)
(* ChainReaderBlockStreamer::poll_next composed with the importer's loop.
   State: store, the streamer's roll-forward buffer (oldest first), server, last polled
   point, ghost flag "a roll-back found no anchor".  [None] store = a failed SQL chunk. *)
Record drained := { d_ok : bool; d_store : store; d_srv : srv; d_last : option point; d_deep : bool }.

Definition flush (st : store) (buf : list block) : option store :=
  match store_blocks (blocks st) buf with
  | Some bs => Some {| blocks := bs; roots := roots st; lroots := lroots st |}
  | None => None
  end.
Fixpoint truncate_at (buf : list block) (s : N) : list block :=
  match buf with
  | [] => []
  | x :: r => if slot x =? s then [x] else x :: truncate_at r s
  end.

Fixpoint drain (fuel : nat) (from_slot until : N) (max : nat)
               (st : store) (buf : list block) (sv : srv) (lastp : option point) (deep : bool) : drained :=
  match fuel with
  | O => {| d_ok := false; d_store := st; d_srv := sv; d_last := lastp; d_deep := deep |}
  | S f =>
    let '(a, sv') := srv_next sv in
    let stop_or_flush :=
      match buf with
      | [] => {| d_ok := true; d_store := st; d_srv := sv'; d_last := lastp; d_deep := deep |}
      | _ => match flush st buf with
             | Some st' => drain f from_slot until max st' [] sv' lastp deep
             | None => {| d_ok := false; d_store := st; d_srv := sv'; d_last := lastp; d_deep := deep |}
             end
      end in
    match a with
    | None => stop_or_flush
    | Some (Fwd b) =>
        if until <? num b then stop_or_flush                      (* consumed, not remembered *)
        else
          let buf' := buf ++ [b] in
          let lastp' := Some (point_of b) in
          if (Nat.leb max (length buf')) || (until <=? num b) then
            match flush st buf' with
            | Some st' => drain f from_slot until max st' [] sv' lastp' deep
            | None => {| d_ok := false; d_store := st; d_srv := sv'; d_last := lastp'; d_deep := deep |}
            end
          else drain f from_slot until max st buf' sv' lastp' deep
    | Some (Back p) =>
        if fst p =? from_slot then drain f from_slot until max st buf sv' lastp deep   (* taken for the intersection echo *)
        else
          let lastp' := Some p in
          if existsb (fun x => slot x =? fst p) buf
          then drain f from_slot until max st (truncate_at buf (fst p)) sv' lastp' deep
          else let '(st', dp) := rollback st (fst p) in
               drain f from_slot until max st' [] sv' lastp' (deep || dp)
    end
  end.

(* ------------------------------------------------------------------ *)
(* node = store + in-memory cursor (last_polled_point) *)
Record node := { n_store : store; n_cursor : option point }.
Record imported := { i_ok : bool; i_node : node; i_srv : srv; i_deep : bool; i_polled : bool }.

Definition MAX_POLL : nat := 4.       (* max_roll_forwards_per_poll of the harness' scanner *)
Definition fuel_of (s : srv) : nat :=
  (2 * (length (chain s) + fold_right (fun pm acc => match snd pm with Switch _ bs => length bs + acc end)%nat 0%nat (pending s)
       + length (pending s)) + 8)%nat.

(* CardanoChainDataImporter::import *)
Definition import (max : nat) (target : N) (nd : node) (sv : srv) : imported :=
  let st := n_store nd in
  let hs := highest (blocks st) in
  let from := match n_cursor nd with Some p => Some p | None => option_map point_of hs end in
  let up_to_date := match hs with Some b => target <=? num b | None => false end in
  let run_roots (st1 : store) : store :=
    let r := compute_roots root_new (blocks st1) (roots st1) target in
    let l := compute_roots root_legacy (blocks st1) (lroots st1) target in
    {| blocks := blocks st1; roots := r; lroots := l |} in
  if up_to_date then
    {| i_ok := true; i_node := {| n_store := run_roots st; n_cursor := n_cursor nd |}; i_srv := sv;
       i_deep := false; i_polled := false |}
  else
    let fromp := match from with Some p => p | None => origin end in
    let sv1 := srv_intersect sv fromp in
    let d := drain (fuel_of sv1) (fst fromp) target max st [] sv1 None false in
    if d_ok d then
      {| i_ok := true;
         i_node := {| n_store := run_roots (d_store d);
                      n_cursor := match d_last d with Some p => Some p | None => n_cursor nd end |};
         i_srv := d_srv d; i_deep := d_deep d; i_polled := true |}
    else
      {| i_ok := false; i_node := {| n_store := d_store d; n_cursor := n_cursor nd |};
         i_srv := d_srv d; i_deep := d_deep d; i_polled := true |}.

(* ------------------------------------------------------------------ *)
(* signable builders *)
Definition map_root (entries : list (N * bt)) : result bt :=
  match entries with
  | [] => Err                                        (* empty Merkle tree has no root *)
  | _ => Ok (BHash ALG_MAP (flat_map (fun e => [BLit [fst e; fst e + LENGTH]; snd e]) entries))
  end.
(* BlockRangeRootRetriever::compute_merkle_map_from_block_range_roots  (retrieve: start < beacon) *)
Definition signable_entries (st : store) (beacon : N) : list (N * bt) :=
  let base := filter (fun r => fst r <? beacon) (roots st) in
  let contained := match last (map Some base) None with
                   | Some r => (fst r <=? beacon) && (beacon <? fst r + LENGTH)
                   | None => false end in
  let rs := range_start beacon in
  let fully := rs + LENGTH - 1 <=? beacon in
  if negb fully && negb contained then
    match root_new (in_range (blocks st) rs (N.min (rs + LENGTH) (beacon + 1))) with
    | Some r => base ++ [(rs, r)]
    | None => base
    end
  else base.
Definition signable_root (st : store) (beacon : N) : result bt := map_root (signable_entries st beacon).
(* LegacyBlockRangeRootRetriever *)
Definition signable_root_legacy (st : store) (beacon : N) : result bt :=
  map_root (filter (fun r => fst r <? beacon) (lroots st)).

(* ------------------------------------------------------------------ *)
(* histories *)
Inductive event :=
| EMut (m : mutation)                          (* the canonical chain changes between two imports *)
| EImport (target : N) (during : list (nat * mutation))   (* import; mutations after that many reads of this import *)
| ERestart                                     (* process restart: cursor lost, new connection *)
| EDisconnect.                                 (* connection lost, cursor kept *)

Record world := { w_node : node; w_srv : srv;
                  w_oks : list bool;            (* outcome of each import *)
                  w_deep : bool;                (* some roll-back found no anchor in a non-empty table *)
                  w_stale : bool }.             (* last import returned "up to date" although the highest stored block
                                                   is no longer on the canonical chain *)
Definition srv0 (c : list block) : srv := {| chain := c; ptr := O; back := true; agency := true; pending := [] |}.
Definition world0 (c : list block) : world :=
  {| w_node := {| n_store := empty; n_cursor := None |}; w_srv := srv0 c; w_oks := []; w_deep := false; w_stale := false |}.

Definition with_pending (s : srv) (p : list (nat * mutation)) : srv :=
  {| chain := chain s; ptr := ptr s; back := back s; agency := agency s; pending := p |}.

Definition step (max : nat) (w : world) (e : event) : world :=
  match e with
  | EMut m => {| w_node := w_node w; w_srv := mutate (w_srv w) m; w_oks := w_oks w; w_deep := w_deep w; w_stale := w_stale w |}
  | ERestart => {| w_node := {| n_store := n_store (w_node w); n_cursor := None |}; w_srv := srv_reconnect (w_srv w);
                   w_oks := w_oks w; w_deep := w_deep w; w_stale := w_stale w |}
  | EDisconnect => {| w_node := w_node w; w_srv := srv_reconnect (w_srv w);
                      w_oks := w_oks w; w_deep := w_deep w; w_stale := w_stale w |}
  | EImport t during =>
      let r := import max t (w_node w) (with_pending (w_srv w) during) in
      (* mutations not reached during the import happen right after it *)
      let sv := fold_left mutate (map snd (pending (i_srv r))) (with_pending (i_srv r) []) in
      {| w_node := i_node r; w_srv := sv; w_oks := w_oks w ++ [i_ok r];
         w_deep := w_deep w || i_deep r;
         w_stale := negb (i_polled r) &&
                    match highest (blocks (n_store (i_node r))) with
                    | Some b => negb (existsb (fun x => bh x =? bh b) (chain sv))
                    | None => false end |}
  end.
Definition run_history (max : nat) (c0 : list block) (h : list event) : world := fold_left (step max) h (world0 c0).

(* a node that imports the chain once, from scratch *)
Definition scratch (max : nat) (c : list block) (t : N) : store :=
  n_store (i_node (import max t {| n_store := empty; n_cursor := None |} (srv0 c))).

(* ------------------------------------------------------------------ *)
(* observation for the correspondence channel *)
Definition obs_blocks (bs : list block) : obs :=
  OL (map (fun b => OL [ON (num b); ON (slot b); ON (bh b); OLN (sortN (txs b))]) bs).
Definition res_hash (r : result bt) : bt := match r with Ok t => t | Err => BLit [1] | Panic => BLit [2] end.
Definition obs_of_world (max : nat) (w : world) (beacons : list N) : obs :=
  let st := n_store (w_node w) in
  let c := chain (w_srv w) in
  let hashes :=
    map snd (roots st) ++ map snd (lroots st) ++
    flat_map (fun b => let sc := scratch max c b in
                       [res_hash (signable_root st b); res_hash (signable_root sc b);
                        res_hash (signable_root_legacy st b); res_hash (signable_root_legacy sc b)]) beacons in
  OL [ OL (map OB (w_oks w)); OB (w_deep w); OB (w_stale w);
       obs_blocks (blocks st);
       OLN (map fst (roots st)); OLN (map fst (lroots st));
       OLN (eq_pattern hashes) ].
Definition run (max : nat) (c0 : list block) (h : list event) (beacons : list N) : obs :=
  obs_of_world max (run_history max c0 h) beacons.

Definition B (n s h : N) (t : list N) : block := {| num := n; slot := s; bh := h; txs := t |}.
