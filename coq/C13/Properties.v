(* C13/Properties.v — the property theorems, nothing else.
   C13: imported chain data converges to the canonical chain under roll-backs.
   The full statements (convergence of every history; signed root a function of (chain, beacon))
   are violated by today's code in four classes: see Refuted.v.  Here: the invariant steps that
   do hold for the repository operations the importer issues (any chain, any length), and the
   root query for complete-range beacons. *)
From Coq Require Import Lia.
From MV Require Import Base.Prelude Base.SymHash Gen.Consts C13.Model C13.Spec C13.Proofs.
Open Scope N_scope.

(* C13_inv, forward step: a batch that extends the stored blocks as one chain is stored exactly
   (no row ignored under the three uniqueness constraints, no transaction dropped, no
   foreign-key failure), whatever the batch size *)
Theorem C13_inv_forward : forall st buf,
  ext_ok (blocks st) buf -> flush st buf = Some (set_blocks st (blocks st ++ buf)).
Proof. exact flush_ext. Qed.

(* hence a from-scratch store of a whole canonical chain holds exactly that chain *)
Theorem C13_inv_forward_scratch : forall c, chain_ok c -> store_blocks [] c = Some c.
Proof. intros c H. exact (store_blocks_ext c [] H). Qed.

(* C13_inv, roll-back step: rolling back to the slot of a stored block [a] of the chain keeps
   exactly the blocks up to [a] and the roots of ranges starting below range_start(num a) *)
Theorem C13_inv_rollback : forall st p a q,
  blocks st = p ++ a :: q -> chain_ok (p ++ a :: q) ->
  rollback st (slot a) =
    ({| blocks := p ++ [a];
        roots := filter (fun r => fst r <? range_start (num a)) (roots st);
        lroots := filter (fun r => fst r <? range_start (num a)) (lroots st) |}, false).
Proof. exact rollback_on_chain. Qed.

(* ... and every range whose root is kept lies wholly below [a]: its blocks are untouched,
   so a kept root is still the root of what is stored (root invalidation is exact) *)
Theorem C13_inv_rollback_keeps_valid_roots : forall p a q s,
  chain_ok (p ++ a :: q) -> (LENGTH | s) -> s < range_start (num a) ->
  in_range (p ++ a :: q) s (s + LENGTH) = in_range (p ++ [a]) s (s + LENGTH).
Proof.
  intros p a q s H Hd Hs. apply in_range_prefix; [exact H|].
  pose proof (range_start_mult_le s (num a) Hd ltac:(discriminate) Hs). pose proof (range_start_le (num a)).
  eapply N.le_trans; eassumption.
Qed.

(* C13_converge for one fork switch, at the level of the block/transaction tables, for chains
   and forks of any length: a store holding the chain p ++ a :: q that is rolled back to the
   common ancestor [a] and then fed the new branch q' holds exactly the new canonical chain,
   which is also what a from-scratch store of that chain holds *)
Theorem C13_converge_switch : forall st p a q q',
  blocks st = p ++ a :: q -> chain_ok (p ++ a :: q) -> chain_ok (p ++ a :: q') ->
  exists st1, fst (rollback st (slot a)) = st1 /\
    option_map blocks (flush st1 q') = Some (p ++ a :: q') /\
    option_map blocks (flush st1 q') = store_blocks [] (p ++ a :: q').
Proof. exact switch_converges. Qed.

(* the deep roll-back class exactly: with every stored block above the slot nothing is deleted *)
Theorem C13_deep_rollback_deletes_nothing : forall st s,
  Forall (fun b => s < slot b) (blocks st) -> fst (rollback st s) = st.
Proof. exact rollback_no_anchor. Qed.

(* C13_root_fn outside the partial-beacon class: for a beacon that ends a block range the
   signed entries are the stored roots below the beacon and nothing else — two nodes whose
   stored roots below the beacon agree sign the same root, however far either has imported *)
Theorem C13_root_fn_complete : forall st1 st2 b,
  (LENGTH | b + 1) ->
  filter (fun r => fst r <? b) (roots st1) = filter (fun r => fst r <? b) (roots st2) ->
  signable_root st1 b = signable_root st2 b.
Proof.
  intros st1 st2 b Hd H. unfold signable_root.
  rewrite !signable_complete; try assumption; try discriminate. rewrite H. reflexivity.
Qed.
Theorem C13_root_fn_legacy : forall st1 st2 b,
  filter (fun r => fst r <? b) (lroots st1) = filter (fun r => fst r <? b) (lroots st2) ->
  signable_root_legacy st1 b = signable_root_legacy st2 b.
Proof. intros st1 st2 b H. unfold signable_root_legacy. rewrite H. reflexivity. Qed.

(* non-vacuity: a concrete canonical chain satisfies [chain_ok]; the roll-back theorem applies to it *)
Example C13_ex_chain_ok : chain_ok [B 0 5 1 [10]; B 1 9 2 []; B 2 17 3 [11; 12]].
Proof.
  unfold chain_ok, ext_ok, fresh_for. cbn.
  repeat split; repeat constructor; cbn; try lia; try discriminate; intuition (try discriminate; try lia).
Qed.
Example C13_ex_converge :
  n_store (w_node (run_history 4 (map (fun n => B (N.of_nat n) (N.of_nat n * 2 + 1) (N.of_nat n + 1) [N.of_nat n + 100]) (seq 0 40))
     [EImport 20 []; EMut (Switch 15 [B 15 40 90 [115]; B 16 41 91 []; B 17 44 92 [116]; B 18 47 93 []; B 19 48 94 []; B 20 50 95 []; B 21 52 96 []]);
      EImport 21 []]))
  = scratch 4 (map (fun n => B (N.of_nat n) (N.of_nat n * 2 + 1) (N.of_nat n + 1) [N.of_nat n + 100]) (seq 0 15)
               ++ [B 15 40 90 [115]; B 16 41 91 []; B 17 44 92 [116]; B 18 47 93 []; B 19 48 94 []; B 20 50 95 []; B 21 52 96 []]) 21.
Proof. vm_compute. reflexivity. Qed.
