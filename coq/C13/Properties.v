(* C13/Properties.v — the property theorems, nothing else.
   C13: imported chain data converges to the canonical chain under roll-backs.
   The full statements (convergence of every history; signed root a function of (chain, beacon))
   are violated by today's code in four classes: see Refuted.v.  Here: the invariant steps that
   do hold for the repository operations the importer issues (any chain, any length), and the
   root query for complete-range beacons. *)
From Coq Require Import Lia.
From MV Require Import Base.Prelude Base.SymHash Gen.Consts C13.Model C13.Spec C13.Proofs.
From MV Require Import C13.SpecHistory C13.ProofsHistory4 C13.ProofsHistory6 C13.ProofsHistory7 C13.ProofsHistory9 C13.ProofsHistoryCheck.
Open Scope N_scope.

(* C13_inv, forward step: a batch that extends the stored blocks as one chain is stored exactly
   (no row ignored under the three uniqueness constraints, no transaction dropped, no
   foreign-key failure), whatever the batch size *)
Theorem C13_inv_forward : forall st buf,
  ext_ok (blocks st) buf -> flush st buf = Some (set_blocks st (blocks st ++ buf)).
Proof. exact flush_ext. Qed.

(* hence a from-scratch store of a whole canonical chain holds exactly that chain *)
Theorem C13_inv_forward_scratch : forall c, chain_ok c -> store_blocks [] c = Some c.
Proof. intros c H. exact (store_blocks_ext c [] H). Qed.

(* C13_inv, roll-back step: rolling back to the slot of a stored block [a] of the chain keeps
   exactly the blocks up to [a] and the roots of ranges starting below range_start(num a) *)
Theorem C13_inv_rollback : forall st p a q,
  blocks st = p ++ a :: q -> chain_ok (p ++ a :: q) ->
  rollback st (slot a) =
    ({| blocks := p ++ [a];
        roots := filter (fun r => fst r <? range_start (num a)) (roots st);
        lroots := filter (fun r => fst r <? range_start (num a)) (lroots st) |}, false).
Proof. exact rollback_on_chain. Qed.

(* ... and every range whose root is kept lies wholly below [a]: its blocks are untouched,
   so a kept root is still the root of what is stored (root invalidation is exact) *)
Theorem C13_inv_rollback_keeps_valid_roots : forall p a q s,
  chain_ok (p ++ a :: q) -> (LENGTH | s) -> s < range_start (num a) ->
  in_range (p ++ a :: q) s (s + LENGTH) = in_range (p ++ [a]) s (s + LENGTH).
Proof.
  intros p a q s H Hd Hs. apply in_range_prefix; [exact H|].
  pose proof (range_start_mult_le s (num a) Hd ltac:(discriminate) Hs). pose proof (range_start_le (num a)).
  eapply N.le_trans; eassumption.
Qed.

(* C13_converge for one fork switch, at the level of the block/transaction tables, for chains
   and forks of any length: a store holding the chain p ++ a :: q that is rolled back to the
   common ancestor [a] and then fed the new branch q' holds exactly the new canonical chain,
   which is also what a from-scratch store of that chain holds *)
Theorem C13_converge_switch : forall st p a q q',
  blocks st = p ++ a :: q -> chain_ok (p ++ a :: q) -> chain_ok (p ++ a :: q') ->
  exists st1, fst (rollback st (slot a)) = st1 /\
    option_map blocks (flush st1 q') = Some (p ++ a :: q') /\
    option_map blocks (flush st1 q') = store_blocks [] (p ++ a :: q').
Proof. exact switch_converges. Qed.

(* the deep roll-back class exactly: with every stored block above the slot nothing is deleted *)
Theorem C13_deep_rollback_deletes_nothing : forall st s,
  Forall (fun b => s < slot b) (blocks st) -> fst (rollback st s) = st.
Proof. exact rollback_no_anchor. Qed.

(* C13_root_fn outside the partial-beacon class: for a beacon that ends a block range the
   signed entries are the stored roots below the beacon and nothing else — two nodes whose
   stored roots below the beacon agree sign the same root, however far either has imported *)
Theorem C13_root_fn_complete : forall st1 st2 b,
  (LENGTH | b + 1) ->
  filter (fun r => fst r <? b) (roots st1) = filter (fun r => fst r <? b) (roots st2) ->
  signable_root st1 b = signable_root st2 b.
Proof.
  intros st1 st2 b Hd H. unfold signable_root.
  rewrite !signable_complete; try assumption; try discriminate. rewrite H. reflexivity.
Qed.
Theorem C13_root_fn_legacy : forall st1 st2 b,
  filter (fun r => fst r <? b) (lroots st1) = filter (fun r => fst r <? b) (lroots st2) ->
  signable_root_legacy st1 b = signable_root_legacy st2 b.
Proof. intros st1 st2 b H. unfold signable_root_legacy. rewrite H. reflexivity. Qed.

(* non-vacuity: a concrete canonical chain satisfies [chain_ok]; the roll-back theorem applies to it *)
Example C13_ex_chain_ok : chain_ok [B 0 5 1 [10]; B 1 9 2 []; B 2 17 3 [11; 12]].
Proof.
  unfold chain_ok, ext_ok, fresh_for. cbn.
  repeat split; repeat constructor; cbn; try lia; try discriminate; intuition (try discriminate; try lia).
Qed.
Example C13_ex_converge :
  n_store (w_node (run_history 4 (map (fun n => B (N.of_nat n) (N.of_nat n * 2 + 1) (N.of_nat n + 1) [N.of_nat n + 100]) (seq 0 40))
     [EImport 20 []; EMut (Switch 15 [B 15 40 90 [115]; B 16 41 91 []; B 17 44 92 [116]; B 18 47 93 []; B 19 48 94 []; B 20 50 95 []; B 21 52 96 []]);
      EImport 21 []]))
  = scratch 4 (map (fun n => B (N.of_nat n) (N.of_nat n * 2 + 1) (N.of_nat n + 1) [N.of_nat n + 100]) (seq 0 15)
               ++ [B 15 40 90 [115]; B 16 41 91 []; B 17 44 92 [116]; B 18 47 93 []; B 19 48 94 []; B 20 50 95 []; B 21 52 96 []]) 21.
Proof. vm_compute. reflexivity. Qed.

(* ================================================================================== *)
(* Whole-history convergence (predicates in SpecHistory.v, proofs in ProofsHistory*.v).

   C13_converge (full statement, PROVED below as [C13_converge] / [C13_root_fn_converge]):
   for every initial canonical chain c0, every history h (EMut / EImport with `during` mutations /
   ERestart / EDisconnect, any lengths, any max_roll_forwards_per_poll) over well-formed chains
   [hist_ok] and every final `EImport t []` such that the run stays outside the known classes —
     deep roll-back:    no roll-back without anchor                         w_deep w = false
     stale up-to-date:  the final import polls                              polls .. t  (or w_stale w = false)
     echo roll-back:    no fork switch during an import cuts the chain at
                        the slot the stream started from                    [echo_free] in [run_ok]
     partial beacon:    roots queried at beacons that end a block range     (LENGTH | b + 1)
   and every import target is at or below the canonical tip of its time ([targets_during] in
   [run_ok]; the harness does not judge histories with a target beyond the tip either) —
   EVERY IMPORT SUCCEEDS (a conclusion, not a hypothesis: in particular the fuel [fuel_of] of the
   model's loop never runs out), the final store IS `scratch max c t` (blocks, transactions, new and
   legacy block-range roots), and the signed root at every complete-range beacon b <= t is the one
   a node imported from scratch exactly to b signs.

   and outside the fifth known class found while proving it,
     origin roll-back / slot 0: no stored block has slot number 0           `0 < slot` in [wf_chain] ([hist_ok])
   (C13-origin-rollback-slot0: a roll-back to the origin is a roll-back to slot 0 and keeps a block
   stored at slot 0; Refuted.v C13_hyp_needed_slot_positive, harness flavour `origin-slot0`).
   Hypotheses the proof forces beyond chain_ok (Refuted.v shows the first two are necessary:
   C13_hyp_needed_*; the random harness flavours respect all three — props/C13.json):
     - wf_chain: every block has slot > 0 (the fifth class above) and block numbers are consecutive
       along a chain (a chain invariant of Cardano; a gap lets the importer consume-and-drop a block
       above the target that the server never re-sends after Await);
     - muts_ok: the blocks a fork brings carry hashes never seen on an earlier chain (hash-chain
       integrity; fork flapping A->B->A is thereby excluded although the model handles it).
   The *_quiet theorems are the special case without mutations during imports (no echo hypothesis,
   and for the block table no target hypothesis). *)

(* C13_converge, blocks and transactions, quiet histories with restarts and disconnections *)
Theorem C13_converge_blocks_quiet : forall max c0 h t,
  hist_ok c0 h -> Forall quiet h ->
  let w0 := run_history max c0 h in
  let w := run_history max c0 (h ++ [EImport t []]) in
  let C := chain (w_srv w) in
  let bs := blocks (n_store (w_node w)) in
  w_deep w = false ->
  Forall (eq true) (w_oks w) /\ wf_chain C /\
  (polls (n_store (w_node w0)) t -> bs = filter (fun b => num b <=? t) C /\ bs = blocks (scratch max C t)) /\
  (w_stale w = false ->
     (exists k, bs = firstn k C) /\ filter (fun b => num b <=? t) bs = filter (fun b => num b <=? t) C).
Proof. exact converge_blocks. Qed.

(* the coupling invariant between node and chain-sync server holds after every quiet history
   that stays outside the deep-roll-back class *)
Theorem C13_coupling_invariant : forall max c0 h,
  hist_ok c0 h -> Forall quiet h -> w_deep (run_history max c0 h) = false ->
  exists seen, WInv seen (run_history max c0 h) /\ Forall (eq true) (w_oks (run_history max c0 h)).
Proof. exact coupling_invariant. Qed.

(* a from-scratch import of a well-formed chain holds exactly its blocks up to the target *)
Theorem C13_scratch_blocks : forall max c t,
  wf_chain c -> blocks (scratch max c t) = filter (fun b => num b <=? t) c.
Proof. exact scratch_blocks. Qed.

(* non-vacuity: a history with a fork switch that rolls back two stored blocks, a disconnection,
   an up-to-date import and a restart satisfies the hypotheses *)
Definition ex_c0 : list block :=
  [B 7 5 1 [10]; B 8 9 2 []; B 9 17 3 [11; 12]; B 10 20 4 [13]; B 11 22 5 []; B 12 30 6 [14]].
Definition ex_fork : list block := [B 9 18 7 [12]; B 10 21 8 [13; 11]; B 11 25 9 []; B 12 26 10 [15]].
Definition ex_h : list event :=
  [EImport 10 []; EMut (Switch 2 ex_fork); EImport 11 []; EDisconnect; EImport 9 []; ERestart].

Ltac consec_tac := intros i a b Ha Hb;
  do 8 (destruct i as [|i]; [cbn in Ha, Hb; try discriminate; injection Ha as <-; injection Hb as <-; reflexivity|]);
  destruct i; discriminate.
Ltac chain_ok_tac := unfold chain_ok, ext_ok, fresh_for; cbn;
  repeat split; repeat constructor; cbn; try lia; try discriminate; intuition (try discriminate; try lia).

Example C13_ex_hist_ok : hist_ok ex_c0 ex_h /\ Forall quiet ex_h.
Proof.
  split; [split; [split; [chain_ok_tac | split; [consec_tac | repeat constructor]]|] | repeat constructor].
  cbn [flat_map muts_of_event ex_h app muts_ok]. split; [|split; [|exact I]].
  - cbn. split; [chain_ok_tac | split; [consec_tac | repeat constructor]].
  - intros b Hb. cbn in Hb. cbn. intuition (subst; cbn in *; try discriminate; try lia).
Qed.
(* ... the second import genuinely rolls back two stored blocks (hashes 3, 4), no roll-back misses
   its anchor, and the final import polls *)
Example C13_ex_hist_run :
  map bh (blocks (n_store (w_node (run_history 4 ex_c0 [EImport 10 []])))) = [1; 2; 3; 4] /\
  map bh (blocks (n_store (w_node (run_history 4 ex_c0 (ex_h ++ [EImport 12 []]))))) = [1; 2; 7; 8; 9; 10] /\
  w_deep (run_history 4 ex_c0 (ex_h ++ [EImport 12 []])) = false /\
  polls (n_store (w_node (run_history 4 ex_c0 ex_h))) 12.
Proof. vm_compute. repeat split; reflexivity. Qed.

(* C13_converge, whole store (blocks, transactions, new and legacy block-range roots), quiet
   histories with restarts and disconnections, every import target at or below the canonical tip
   of its time ([targets_ok]; a target beyond the tip makes the importer store the root of a range
   the chain has not filled yet — the harness does not judge such histories either): after a final
   import that polls, the store IS the store of a node that imported the final canonical chain
   once from scratch *)
Theorem C13_converge_store_quiet : forall max c0 h t,
  hist_ok c0 h -> Forall quiet h -> targets_ok max (world0 c0) h ->
  let w0 := run_history max c0 h in
  let w := run_history max c0 (h ++ [EImport t []]) in
  w_deep w = false -> polls (n_store (w_node w0)) t ->
  n_store (w_node w) = scratch max (chain (w_srv w)) t.
Proof. exact converge_store. Qed.

(* ... and that store is an explicit function of (canonical chain, target) *)
Theorem C13_scratch_store : forall max c t, wf_chain c -> scratch max c t = store_of c t.
Proof. exact scratch_store. Qed.

(* the roots invariant: after every quiet history outside the deep-roll-back class, with targets at
   or below the tip, both root tables are [roots_fn] of the store's own block table (no stale root
   survives a roll-back, whatever up-to-date imports computed on a stale table in between) *)
Theorem C13_roots_invariant : forall max c0 h,
  hist_ok c0 h -> Forall quiet h -> targets_ok max (world0 c0) h -> w_deep (run_history max c0 h) = false ->
  RI (n_store (w_node (run_history max c0 h))).
Proof. exact roots_invariant. Qed.

Example C13_ex_targets_ok : targets_ok 4 (world0 ex_c0) ex_h.
Proof. vm_compute. repeat split; discriminate. Qed.

(* C13_root_fn along a history, outside the partial-beacon class: at every beacon b <= t that ends
   a block range the node signs exactly what a node that imported the final canonical chain from
   scratch exactly to b signs — new and legacy retriever *)
Theorem C13_root_fn_converge_quiet : forall max c0 h t b,
  hist_ok c0 h -> Forall quiet h -> targets_ok max (world0 c0) h ->
  let w0 := run_history max c0 h in
  let w := run_history max c0 (h ++ [EImport t []]) in
  w_deep w = false -> polls (n_store (w_node w0)) t ->
  (LENGTH | b + 1) -> b <= t ->
  signable_root (n_store (w_node w)) b = signable_root (scratch max (chain (w_srv w)) b) b /\
  signable_root_legacy (n_store (w_node w)) b = signable_root_legacy (scratch max (chain (w_srv w)) b) b.
Proof. exact converge_signable. Qed.

(* the signed root at a complete-range beacon is a function of (chain, beacon): any two targets *)
Theorem C13_root_fn_store_of : forall c t b,
  (LENGTH | b + 1) -> b <= t ->
  signable_root (store_of c t) b = signable_root (store_of c b) b /\
  signable_root_legacy (store_of c t) b = signable_root_legacy (store_of c b) b.
Proof. exact signable_store_of. Qed.

(* ================================================================================== *)
(* C13_converge: any history outside the known classes (see the header above).
   Third conjunct: the final import polls -> the store is `scratch max C t`.
   Fourth conjunct: the final import may return "up to date" as long as the store is not stale ->
   the store is the from-scratch store for max(t, highest stored block number) — exactly what the
   harness oracle compares with (t_eff) — and its blocks numbered <= t are those of the chain.
   Fifth: between events the root tables are those of the ranges at or below the highest stored block. *)
Theorem C13_converge : forall max c0 h t,
  hist_ok c0 h -> run_ok max (world0 c0) h ->
  let w0 := run_history max c0 h in
  let w := run_history max c0 (h ++ [EImport t []]) in
  let C := chain (w_srv w) in
  let bs := blocks (n_store (w_node w)) in
  w_deep w = false ->
  Forall (eq true) (w_oks w) /\ wf_chain C /\
  (polls (n_store (w_node w0)) t -> n_store (w_node w) = scratch max C t /\ bs = filter (fun b => num b <=? t) C) /\
  (w_stale w = false ->
     n_store (w_node w) = scratch max C (N.max t (top_of bs)) /\
     (exists k, bs = firstn k C) /\ filter (fun b => num b <=? t) bs = filter (fun b => num b <=? t) C) /\
  pinned (n_store (w_node w0)).
Proof. exact converge_full. Qed.

(* C13_root_fn: the signed roots (new and legacy retriever) at a complete-range beacon *)
Theorem C13_root_fn_converge : forall max c0 h t b,
  hist_ok c0 h -> run_ok max (world0 c0) h ->
  let w0 := run_history max c0 h in
  let w := run_history max c0 (h ++ [EImport t []]) in
  w_deep w = false -> polls (n_store (w_node w0)) t ->
  (LENGTH | b + 1) -> b <= t ->
  signable_root (n_store (w_node w)) b = signable_root (scratch max (chain (w_srv w)) b) b /\
  signable_root_legacy (n_store (w_node w)) b = signable_root_legacy (scratch max (chain (w_srv w)) b) b.
Proof. exact converge_full_signable. Qed.

(* non-vacuity: a fork switch in the middle of an import.  The second import resumes at block 9,
   reads the echo and blocks 10, 11 (hashes 4, 5: in the streamer's buffer when max = 4, in the table
   when max = 1); at the fourth read the chain switches at block 10: the roll-back truncates the buffer
   (max = 4) / deletes block 11 from the table (max = 1), then the fork is imported *)
Definition ex_fork2 : list block := [B 11 23 11 [14]; B 12 24 12 []; B 13 31 13 [16]].
Definition ex_h2 : list event := [EImport 9 []; EImport 12 [(3%nat, Switch 4 ex_fork2)]; ERestart].
Example C13_ex_hist2_ok : hist_ok ex_c0 ex_h2.
Proof.
  split; [split; [chain_ok_tac | split; [consec_tac | repeat constructor]]|].
  cbn [flat_map muts_of_event ex_h2 app muts_ok map snd]. split; [|split; [|exact I]].
  - cbn. split; [chain_ok_tac | split; [consec_tac | repeat constructor]].
  - intros b Hb. cbn in Hb. cbn. intuition (subst; cbn in *; try discriminate; try lia).
Qed.
Example C13_ex_hist2_run_ok : run_ok 4 (world0 ex_c0) ex_h2 /\ run_ok 1 (world0 ex_c0) ex_h2.
Proof. vm_compute. repeat split; try discriminate; intro; discriminate. Qed.
Example C13_ex_hist2_run :
  (let w := run_history 4 ex_c0 (ex_h2 ++ [EImport 13 []]) in
   w_deep w = false /\ map bh (blocks (n_store (w_node w))) = [1; 2; 3; 4; 11; 12; 13]) /\
  (let w := run_history 1 ex_c0 (ex_h2 ++ [EImport 13 []]) in
   w_deep w = false /\ map bh (blocks (n_store (w_node w))) = [1; 2; 3; 4; 11; 12; 13]) /\
  polls (n_store (w_node (run_history 4 ex_c0 ex_h2))) 13 /\ polls (n_store (w_node (run_history 1 ex_c0 ex_h2))) 13.
Proof. vm_compute. repeat split; reflexivity. Qed.
(* the quiet example history also satisfies [run_ok] *)
Example C13_ex_run_ok : run_ok 4 (world0 ex_c0) ex_h.
Proof. vm_compute. repeat split; try discriminate; intro; discriminate. Qed.

(* non-vacuity with block-range roots: 50 blocks; import to 33 stores the roots of ranges 0-14 and
   15-29; a fork switch at block 28 kills stored blocks 28..33 and makes the stored root of range
   15-29 stale; a stale up-to-date import; the next import rolls back to block 27 (the stale root is
   deleted), imports the fork, and after 15 reads the chain switches again at block 40 under it
   (roll-back in the repository, buffer dropped); disconnection, restart.  Hypotheses are discharged
   by the boolean checkers of ProofsHistoryCheck.v. *)
Definition mkb (tag : N) (n : nat) : block :=
  B (N.of_nat n) (N.of_nat n * 10 + 5) (tag * 1000 + N.of_nat n + 1) [tag * 100000 + N.of_nat n].
Definition big_c0 : list block := map (mkb 1) (seq 0 50).
Definition big_h : list event :=
  [EImport 33 []; EMut (Switch 28 (map (mkb 2) (seq 28 30))); EImport 20 [];
   EImport 47 [(15%nat, Switch 40 (map (mkb 3) (seq 40 20)))]; EDisconnect; ERestart].
Example C13_ex_big_ok : hist_ok big_c0 big_h /\ run_ok 4 (world0 big_c0) big_h /\ run_ok 1 (world0 big_c0) big_h.
Proof.
  split; [apply hist_okb_sound; vm_compute; reflexivity|].
  split; apply run_okb_sound; vm_compute; reflexivity.
Qed.
Example C13_ex_big_run :
  map fst (roots (n_store (w_node (run_history 4 big_c0 [EImport 33 []])))) = [0; 15] /\
  (let w := run_history 4 big_c0 (big_h ++ [EImport 50 []]) in
   w_deep w = false /\ map fst (roots (n_store (w_node w))) = [0; 15; 30] /\ map fst (lroots (n_store (w_node w))) = [0; 15; 30] /\
   map bh (firstn 3 (skipn 27 (blocks (n_store (w_node w))))) = [1028; 2029; 2030]) /\
  polls (n_store (w_node (run_history 4 big_c0 big_h))) 50.
Proof. vm_compute. repeat split; reflexivity. Qed.
