(* C13/ProofsHistory3.v — the coupling invariant between node and chain-sync server, preserved
   by an import (no mutation during it), a chain mutation, a restart, a disconnection. *)
From Coq Require Import Lia.
From MV Require Import Base.Prelude Base.SymHash C13.Model C13.Spec C13.Proofs.
From MV Require Import C13.SpecHistory C13.ProofsHistory1 C13.ProofsHistory2.
Open Scope N_scope.

Lemma srv_eta sv : pending sv = [] -> sv = mk_srv (chain sv) (ptr sv) (back sv) (agency sv).
Proof. destruct sv. cbn. intros ->. reflexivity. Qed.

Lemma in_skipn_nth {A} (l : list A) : forall j n b, nth_error l n = Some b -> (j <= n)%nat -> In b (skipn j l).
Proof.
  induction l as [|x r IH]; intros j n b H Hj; [destruct n; discriminate|].
  destruct j as [|j]; [cbn [skipn]; eapply nth_error_In; exact H|].
  destruct n as [|n]; [lia|]. cbn [skipn]. apply (IH j n b H). lia.
Qed.
Lemma skipn_in_nth {A} (l : list A) : forall j b, In b (skipn j l) -> exists n, (j <= n)%nat /\ nth_error l n = Some b.
Proof.
  induction l as [|x r IH]; intros j b H; [destruct j; destruct H|].
  destruct j as [|j].
  - cbn [skipn] in H. apply In_nth_error in H as [n Hn]. exists n. split; [lia | exact Hn].
  - cbn [skipn] in H. destruct (IH j b H) as [n [Hn1 Hn2]]. exists (S n). split; [lia | exact Hn2].
Qed.

Lemma in_firstn {A} n (l : list A) x : In x (firstn n l) -> In x l.
Proof. intros H. rewrite <- (firstn_skipn n l). apply in_or_app. left. exact H. Qed.
Lemma filter_all_true {A} (f : A -> bool) l : Forall (fun x => f x = true) l -> filter f l = l.
Proof. induction 1 as [|x r Hx _ IH]; [reflexivity|]. cbn [filter]. rewrite Hx, IH. reflexivity. Qed.
Lemma filter_all_false {A} (f : A -> bool) l : Forall (fun x => f x = false) l -> filter f l = [].
Proof. induction 1 as [|x r Hx _ IH]; [reflexivity|]. cbn [filter]. rewrite Hx, IH. reflexivity. Qed.

Lemma filter_prefix C k t : chain_ok C -> Forall (fun b => num b <= t) (firstn k C) ->
  (k = length C \/ exists b, nth_error C k = Some b /\ t < num b) ->
  filter (fun b => num b <=? t) C = firstn k C.
Proof.
  intros HC Hle Hk. rewrite <- (firstn_skipn k C) at 1. rewrite filter_app.
  rewrite filter_all_true by (eapply Forall_impl; [|exact Hle]; intros a Ha; apply N.leb_le; exact Ha).
  rewrite filter_all_false; [apply app_nil_r|].
  apply Forall_forall. intros y Hy. apply N.leb_gt.
  destruct Hk as [->|[b [Hb Ht]]]; [rewrite skipn_all in Hy; destruct Hy|].
  destruct (skipn_in_nth C k y Hy) as [n [Hn Hy']].
  destruct (Nat.eq_dec n k) as [->|Hne].
  - rewrite Hb in Hy'. injection Hy' as <-. exact Ht.
  - destruct (chain_order C k n b y HC Hb Hy' ltac:(lia)) as [H _]. lia.
Qed.

(* all stored numbers are at most the highest one *)
Lemma chain_le_highest bs b : chain_ok bs -> highest bs = Some b -> Forall (fun x => num x <= num b) bs.
Proof.
  intros HC Hh. destruct bs as [|x0 r0] eqn:Eb; [constructor|]. rewrite <- Eb in *.
  destruct (highest_nth bs ltac:(rewrite Eb; discriminate)) as [b' [Hh' Hn]].
  rewrite Hh in Hh'. injection Hh' as <-.
  apply Forall_forall. intros x Hx. apply In_nth_error in Hx as [m Hm].
  assert (m < length bs)%nat by (apply nth_error_Some; rewrite Hm; discriminate).
  destruct (Nat.eq_dec m (length bs - 1)) as [->|Hne].
  - rewrite Hn in Hm. injection Hm as <-. lia.
  - destruct (chain_order bs m (length bs - 1) x b HC Hm Hn ltac:(lia)) as [H' _]. lia.
Qed.

(* ---- the intersection ---- *)
Lemma intersect_inv C ptr bk ag bs j :
  chain_ok C -> chain_ok bs -> Forall (fun b => 0 < slot b) bs ->
  (j <= length bs)%nat -> firstn j bs = firstn j C ->
  (forall b, In b (skipn j bs) -> ~ In (bh b) (map bh C)) ->
  (bk = true -> (ptr <= j)%nat) ->
  (bk = false -> j = length bs /\ (ag = false -> ptr = length bs)) ->
  exists ptr1 bk1 ag1, srv_intersect (mk_srv C ptr bk ag) (fromp_of bs) = mk_srv C ptr1 bk1 ag1 /\
    (bk1 = true -> (ptr1 <= j)%nat) /\ (bk1 = false -> j = length bs /\ ptr1 = j).
Proof.
  intros HC HS HSpos Hj Hpre Hdead Hbt Hbf. unfold srv_intersect. cbn [agency chain pending mk_srv].
  destruct ag.
  - destruct bs as [|x0 r0] eqn:Eb.
    + cbn. exists O, true, true. split; [reflexivity|]. split; [lia | discriminate].
    + rewrite <- Eb in *. assert (Hne : bs <> []) by (rewrite Eb; discriminate).
      destruct (highest_nth bs Hne) as [b [Hh Hn]]. unfold fromp_of. rewrite Hh.
      assert (Hb : In b bs) by (eapply nth_error_In; exact Hn).
      rewrite Forall_forall in HSpos. pose proof (HSpos b Hb) as Hbpos.
      assert (Ho : point_eqb (point_of b) origin = false).
      { unfold point_eqb, point_of, origin. cbn [fst snd]. destruct (slot b =? 0) eqn:E; [apply N.eqb_eq in E; lia | reflexivity]. }
      assert (Hlpos : (0 < length bs)%nat) by (rewrite Eb; cbn [length]; lia).
      rewrite Ho. destruct (Nat.eq_dec j (length bs)) as [Hjl|Hjl].
      * assert (HnC : nth_error C (length bs - 1) = Some b).
        { rewrite <- (nth_error_firstn_lt C j) by lia.
          rewrite <- Hpre. rewrite nth_error_firstn_lt by lia. exact Hn. }
        rewrite (index_of_point_found C HC _ b HnC). cbn [chain pending].
        exists (S (length bs - 1)), true, true. split; [reflexivity|]. split; [|discriminate].
        intros _. lia.
      * rewrite index_of_point_none.
        2:{ cbn [point_of snd]. apply Hdead. apply (in_skipn_nth bs j (length bs - 1) b Hn). lia. }
        exists ptr, bk, true. split; [reflexivity|]. destruct bk.
        -- split; [exact Hbt | discriminate].
        -- destruct (Hbf eq_refl) as [? _]. contradiction.
  - exists ptr, bk, false. split; [reflexivity|]. split; [exact Hbt|].
    intros Hb. destruct (Hbf Hb) as [H1 H2]. split; [exact H1 | rewrite H1; apply H2; reflexivity].
Qed.

(* ---- one import ---- *)
Lemma import_inv seen max t nd sv : Inv seen nd sv ->
  let r := import max t nd sv in
  (blocks (n_store nd) = [] \/ i_deep r = false) ->
  i_ok r = true /\ i_deep r = false /\ Inv seen (i_node r) (i_srv r) /\ chain (i_srv r) = chain sv /\
  (i_polled r = true -> blocks (n_store (i_node r)) = filter (fun b => num b <=? t) (chain sv)) /\
  (i_polled r = false -> blocks (n_store (i_node r)) = blocks (n_store nd)) /\
  (i_polled r = negb match highest (blocks (n_store nd)) with Some b => t <=? num b | None => false end) /\
  (i_polled r = true -> back (i_srv r) = false) /\
  (forall tip, highest (chain sv) = Some tip -> t <= num tip -> reaches (blocks (n_store (i_node r))) t) /\
  exists st1 bs', rb_of (n_store nd) st1 /\ chain_ok bs' /\ (exists q, bs' = blocks st1 ++ q) /\
     n_store (i_node r) = run_roots t (set_blocks st1 bs').
Proof.
  intros (Hpend & HW & HS & HSpos & HinC & HinS & Hcur & j & Hj & Hpre & Hdead & Hbt & Hbf).
  unfold import. set (st := n_store nd) in *. set (C := chain sv) in *.
  destruct (match highest (blocks st) with Some b => t <=? num b | None => false end) eqn:Eup; cbv zeta.
  - (* up to date *)
    cbn [i_ok i_node i_srv i_deep i_polled n_store n_cursor negb]. intros _.
    split; [reflexivity|]. split; [reflexivity|]. split.
    { unfold Inv. cbn [n_store n_cursor blocks]. fold st. fold C.
      split; [exact Hpend|]. split; [exact HW|]. split; [exact HS|]. split; [exact HSpos|].
      split; [exact HinC|]. split; [exact HinS|]. split; [exact Hcur|].
      exists j. repeat split; try assumption; try (apply Hbf; assumption). }
    split; [reflexivity|]. split; [discriminate|]. split; [reflexivity|]. split; [reflexivity|]. split; [discriminate|].
    split.
    { intros tip _ _. right. cbn [blocks]. destruct (highest (blocks st)) as [hb|]; [|discriminate].
      exists hb. split; [reflexivity | apply N.leb_le; exact Eup]. }
    exists st, (blocks st). split; [left; reflexivity|]. split; [exact HS|]. split; [exists []; symmetry; apply app_nil_r|].
    unfold run_roots, set_blocks. cbn [blocks roots lroots]. reflexivity.
  - (* the importer polls *)
    assert (Hfrom : match match n_cursor nd with Some p => Some p | None => option_map point_of (highest (blocks st)) end
                    with Some p => p | None => origin end = fromp_of (blocks st)).
    { destruct Hcur as [->| ->]; [|reflexivity]. unfold fromp_of. destruct (highest (blocks st)); reflexivity. }
    rewrite Hfrom.
    rewrite (srv_eta sv Hpend). fold C.
    destruct HW as [HC [Hcons Hpos]].
    destruct (intersect_inv C (ptr sv) (back sv) (agency sv) (blocks st) j HC HS HSpos Hj Hpre Hdead Hbt)
      as (ptr1 & bk1 & ag1 & Hint & Hbt1 & Hbf1).
    { intros Hb. destruct (Hbf Hb) as [H1 [_ H3]]. split; assumption. }
    rewrite Hint.
    assert (Hle : Forall (fun b => num b <= t) (blocks st)).
    { destruct (highest (blocks st)) as [hb|] eqn:Eh.
      - apply N.leb_gt in Eup. eapply Forall_impl; [|exact (chain_le_highest _ hb HS Eh)]. intros a Ha; cbv beta in *; lia.
      - destruct (blocks st) as [|x r] eqn:Eb; [constructor|].
        destruct (highest_nth (x :: r) ltac:(discriminate)) as [b [Hh _]]. rewrite Hh in Eh. discriminate. }
    assert (Hfuel : fuel_of (mk_srv C ptr1 bk1 ag1) = (2 * (length C + 0 + 0) + 8)%nat) by reflexivity.
    rewrite Hfuel.
    pose proof (drain_start (2 * (length C + 0 + 0) + 8) t max C ptr1 bk1 ag1 st j (conj HC (conj Hcons Hpos))
                  HS HSpos Hj Hpre Hbt1 Hbf1 Hle ltac:(lia)) as HD.
    cbv zeta in HD.
    set (d := drain (2 * (length C + 0 + 0) + 8) (fst (fromp_of (blocks st))) t max st [] (mk_srv C ptr1 bk1 ag1) None false) in *.
    intros Hdeep.
    assert (Hdd : blocks st = [] \/ d_deep d = false).
    { destruct Hdeep as [H|H]; [left; exact H | right; destruct (d_ok d); exact H]. }
    destruct (HD Hdd) as (st1 & i & k & ag' & Hrb & Hb1 & Hik & Hok & Hdp & Hstore & Hlek & Hsrv & Hag1 & Hag0 & Hlast).
    rewrite Hok. cbn [i_ok i_node i_srv i_deep i_polled n_store n_cursor negb].
    assert (HkC : chain_ok (firstn k C)) by (apply chain_ok_firstn; exact HC).
    assert (Hlenk : length (firstn k C) = k) by (rewrite firstn_length; lia).
    split; [reflexivity|]. split; [exact Hdp|]. split.
    { unfold Inv. cbn [n_store n_cursor blocks]. rewrite Hstore, Hsrv. cbn [set_blocks blocks chain pending ptr back agency mk_srv].
      split; [reflexivity|]. split; [exact (conj HC (conj Hcons Hpos))|]. split; [exact HkC|].
      split. { apply Forall_forall. intros b Hb. rewrite Forall_forall in Hpos. apply Hpos. eapply in_firstn; exact Hb. }
      split; [exact HinC|].
      split. { intros x Hx. apply HinC. apply in_map_iff in Hx as [b [<- Hb]]. apply in_map. eapply in_firstn; exact Hb. }
      split.
      { destruct Hlast as [[Hl Hst]| Hl].
        - rewrite Hl. rewrite Hstore in Hst. rewrite <- Hst in Hcur. cbn [set_blocks blocks] in Hcur. exact Hcur.
        - rewrite Hl. right. rewrite fromp_firstn by lia. reflexivity. }
      exists k. rewrite Hlenk. split; [lia|]. split; [rewrite firstn_firstn; f_equal; lia|].
      split. { intros b Hb. rewrite <- Hlenk in Hb at 1. rewrite skipn_all in Hb. destruct Hb. }
      split; [discriminate|]. intros _. split; [reflexivity|]. destruct ag'.
      - split; [lia | discriminate].
      - split; [lia | reflexivity]. }
    split; [rewrite Hsrv; reflexivity|].
    split.
    { intros _. rewrite Hstore. cbn [set_blocks blocks]. symmetry. apply filter_prefix; [exact HC | exact Hlek|].
      destruct ag'; [right; apply Hag1; reflexivity | left; apply Hag0; reflexivity]. }
    split; [discriminate|]. split; [reflexivity|]. split; [intros _; rewrite Hsrv; reflexivity|].
    split.
    { intros tip Htip Ht. rewrite Hstore. cbn [set_blocks blocks]. destruct k as [|k]; [left; reflexivity | right].
      destruct (nth_error C k) as [bk|] eqn:Hbk; [|apply nth_error_None in Hbk; lia].
      exists bk. split; [apply highest_firstn; exact Hbk|].
      destruct ag'.
      - destruct (Hag1 eq_refl) as [b [Hb Hlt]]. specialize (Hcons k bk b Hbk Hb). lia.
      - specialize (Hag0 eq_refl).
        destruct (highest_nth C) as [b' [Hh' Hn']]; [intros E; rewrite E in Hik; cbn [length] in Hik; lia|].
        rewrite Htip in Hh'. injection Hh' as <-. rewrite <- Hag0 in Hn'. replace (S k - 1)%nat with k in Hn' by lia.
        rewrite Hbk in Hn'. injection Hn' as ->. exact Ht. }
    exists st1, (firstn k C). split; [exact Hrb|]. split; [exact HkC|]. split.
    { exists (skipn i (firstn k C)). rewrite Hb1. rewrite <- (firstn_skipn i (firstn k C)) at 1.
      rewrite firstn_firstn. replace (Nat.min i k) with i by lia. reflexivity. }
    rewrite Hstore. reflexivity.
Qed.
