(* C13/SpecHistory.v — predicates for the whole-history convergence theorems (no executable content). *)
From Coq Require Import Lia.
From MV Require Import Base.Prelude Base.SymHash C13.Model C13.Spec.
Open Scope N_scope.

(* block numbers are heights: consecutive along a chain *)
Definition consec (c : list block) : Prop :=
  forall i a b, nth_error c i = Some a -> nth_error c (S i) = Some b -> num b = num a + 1.
(* a canonical chain as a Cardano node serves it: chain_ok, consecutive block numbers,
   every real block has a slot above the origin's *)
Definition wf_chain (c : list block) : Prop :=
  chain_ok c /\ consec c /\ Forall (fun b => 0 < slot b) c.

(* the canonical chain after a mutation *)
Definition chain_after (c : list block) (m : mutation) : list block :=
  match m with Switch keep bs => firstn (Nat.min keep (length c)) c ++ bs end.
(* a sequence of mutations over chain [c]: every resulting chain is well formed and every
   block a fork brings has a hash never seen before on any earlier chain ([seen]) *)
Fixpoint muts_ok (seen : list N) (c : list block) (ms : list mutation) : Prop :=
  match ms with
  | [] => True
  | m :: r =>
      match m with Switch _ bs =>
        wf_chain (chain_after c m) /\ (forall b, In b bs -> ~ In (bh b) seen) /\
        muts_ok (seen ++ map bh bs) (chain_after c m) r
      end
  end.

(* the mutations of a history, in the order the server applies them *)
Definition muts_of_event (e : event) : list mutation :=
  match e with EMut m => [m] | EImport _ d => map snd d | _ => [] end.
Definition hist_ok (c0 : list block) (h : list event) : Prop :=
  wf_chain c0 /\ muts_ok (map bh c0) c0 (flat_map muts_of_event h).
(* no chain mutation while an import is running *)
Definition quiet (e : event) : Prop := match e with EImport _ (_ :: _) => False | _ => True end.
(* the final import opens a stream: its target is above the highest stored block *)
Definition polls (st : store) (t : N) : Prop :=
  match highest (blocks st) with Some b => num b < t | None => True end.

(* the point an import resumes from when the cursor is lost: the highest stored block *)
Definition fromp_of (bs : list block) : point :=
  match highest bs with Some b => point_of b | None => origin end.

(* BlockRangeImporter runs after the blocks/transactions run *)
Definition run_roots (t : N) (st1 : store) : store :=
  {| blocks := blocks st1;
     roots := compute_roots root_new (blocks st1) (roots st1) t;
     lroots := compute_roots root_legacy (blocks st1) (lroots st1) t |}.

(* Coupling invariant (server with no pending mutation).  [j] = length of the common prefix of
   the stored blocks and the canonical chain; the stored blocks beyond it are dead (their hashes
   are not on the chain); a server that will open with a roll-back rolls back into the common
   prefix; a server that will not has sent exactly the stored blocks, or one more that the
   importer dropped (block above the target). *)
Definition Inv (seen : list N) (nd : node) (sv : srv) : Prop :=
  let bs := blocks (n_store nd) in let C := chain sv in
  pending sv = [] /\ wf_chain C /\ chain_ok bs /\ Forall (fun b => 0 < slot b) bs /\
  incl (map bh C) seen /\ incl (map bh bs) seen /\
  (n_cursor nd = None \/ n_cursor nd = Some (fromp_of bs)) /\
  exists j, (j <= length bs)%nat /\ firstn j bs = firstn j C /\
     (forall b, In b (skipn j bs) -> ~ In (bh b) (map bh C)) /\
     (back sv = true -> (ptr sv <= j)%nat) /\
     (back sv = false -> j = length bs /\ (length bs <= ptr sv <= S (length bs))%nat /\
                         (agency sv = false -> ptr sv = length bs)).

Definition WInv (seen : list N) (w : world) : Prop := Inv seen (w_node w) (w_srv w).

(* ---- block-range roots as a function of the block table ---- *)
(* starts of the first [n] block ranges *)
Definition rstarts (n : nat) : list N := map (fun i => LENGTH * N.of_nat i) (seq 0 n).
Definition root_entry (rootf : list block -> option bt) (bs : list block) (s : N) : list (N * bt) :=
  match rootf (in_range bs s (s + LENGTH)) with Some r => [(s, r)] | None => [] end.
(* the roots of the non-empty ranges among the first [n] *)
Definition roots_fn (rootf : list block -> option bt) (bs : list block) (n : nat) : list (N * bt) :=
  flat_map (root_entry rootf bs) (rstarts n).
(* number of block ranges wholly at or below block number [t] *)
Definition ranges_upto (t : N) : nat := N.to_nat ((t + 1) / LENGTH).
(* the first [n] ranges lie wholly at or below the highest stored block *)
Definition covered (bs : list block) (n : nat) : Prop :=
  n = O \/ exists b, highest bs = Some b /\ LENGTH * N.of_nat n <= num b + 1.
(* the target is reached (or nothing is stored) *)
Definition reaches (bs : list block) (t : N) : Prop :=
  bs = [] \/ exists b, highest bs = Some b /\ t <= num b.
(* roots invariant of a store: both root tables are the function above of the store's own blocks *)
Definition RI (st : store) : Prop :=
  exists n, covered (blocks st) n /\
    roots st = roots_fn root_new (blocks st) n /\ lroots st = roots_fn root_legacy (blocks st) n.
(* every import target is at or below the canonical tip at the time of the import *)
Definition target_le_tip (w : world) (t : N) : Prop :=
  match highest (chain (w_srv w)) with Some b => t <= num b | None => False end.
Fixpoint targets_ok (max : nat) (w : world) (h : list event) : Prop :=
  match h with
  | [] => True
  | e :: r => match e with EImport t _ => target_le_tip w t | _ => True end /\ targets_ok max (step max w e) r
  end.

(* the store as a function of (canonical chain, target): the blocks numbered <= t and the roots
   of the non-empty block ranges wholly at or below t *)
Definition store_of (c : list block) (t : N) : store :=
  let F := filter (fun b => num b <=? t) c in
  {| blocks := F; roots := roots_fn root_new F (ranges_upto t); lroots := roots_fn root_legacy F (ranges_upto t) |}.

(* ---- imports during which the canonical chain changes ---- *)
(* outside the echo class: no fork switch applied during an import cuts the chain exactly at a block
   whose slot is the slot [fs] the stream started from (such a roll-back is taken for the echo of
   the intersection and skipped).  Slightly wider than the class: the switch is excluded whether or
   not the roll-back it causes is emitted before the import ends. *)
Fixpoint echo_free (fs : N) (c : list block) (ms : list mutation) : Prop :=
  match ms with
  | [] => True
  | m :: r => match m with Switch keep _ => fst (point_at c (Nat.min keep (length c))) <> fs end /\
              echo_free fs (chain_after c m) r
  end.
(* the target is at or below the tip of every chain of the import *)
Definition tip_ge (c : list block) (t : N) : Prop :=
  match highest c with Some b => t <= num b | None => False end.
Fixpoint targets_during (t : N) (c : list block) (ms : list mutation) : Prop :=
  tip_ge c t /\ match ms with [] => True | m :: r => targets_during t (chain_after c m) r end.
(* the point an import starts its stream from *)
Definition import_from (nd : node) : point :=
  match n_cursor nd with Some p => p | None => fromp_of (blocks (n_store nd)) end.
Definition ev_ok (w : world) (e : event) : Prop :=
  match e with
  | EImport t during =>
      targets_during t (chain (w_srv w)) (map snd during) /\
      echo_free (fst (import_from (w_node w))) (chain (w_srv w)) (map snd during)
  | _ => True
  end.
Fixpoint run_ok (max : nat) (w : world) (h : list event) : Prop :=
  match h with [] => True | e :: r => ev_ok w e /\ run_ok max (step max w e) r end.

(* the number of the highest stored block (0 for an empty table) *)
Definition top_of (bs : list block) : N := match highest bs with Some b => num b | None => 0 end.
(* between two events the root tables are exactly those of the ranges wholly at or below the highest
   stored block: the store is [store_of] of its own block table *)
Definition pinned (st : store) : Prop :=
  roots st = roots_fn root_new (blocks st) (ranges_upto (top_of (blocks st))) /\
  lroots st = roots_fn root_legacy (blocks st) (ranges_upto (top_of (blocks st))).
