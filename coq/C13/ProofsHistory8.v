(* C13/ProofsHistory8.v — the importer loop against a server whose chain changes while the
   import runs (pending mutations): general invariant of [drain], fuel sufficiency. *)
From Coq Require Import Lia.
From MV Require Import Base.Prelude Base.SymHash Gen.Consts C13.Model C13.Spec C13.Proofs.
From MV Require Import C13.SpecHistory C13.ProofsHistory1 C13.ProofsHistory2 C13.ProofsHistory3 C13.ProofsHistory4 C13.ProofsHistory5.
Open Scope N_scope.

Definition pend_bs (p : list (nat * mutation)) : nat :=
  fold_right (fun pm acc => match snd pm with Switch _ bs => length bs + acc end)%nat 0%nat p.
(* potential: strictly decreases at every read that does not end the stream *)
Definition phi (sv : srv) (buf : list block) : nat :=
  (2 * (length (chain sv) - ptr sv + pend_bs (pending sv)) + 2 * length (pending sv)
   + (if back sv then 1 else 0) + (match buf with [] => 0 | _ => 1 end))%nat.

(* [later]: the mutations of the history after this import (their freshness is threaded through) *)
Section Rest.
Variable later : list mutation.

Definition DI (seen : list N) (fs until : N) (st : store) (buf : list block) (sv : srv) : Prop :=
  let R := blocks st ++ buf in let C := chain sv in
  wf_chain C /\ chain_ok R /\ Forall (fun b => 0 < slot b) R /\
  incl (map bh C) seen /\ incl (map bh R) seen /\
  muts_ok seen C (map snd (pending sv) ++ later) /\ echo_free fs C (map snd (pending sv)) /\
  Forall (fun b => num b <= until) (blocks st) /\ Forall (fun b => num b < until) buf /\
  exists j, (j <= length R)%nat /\ firstn j R = firstn j C /\
    (forall b, In b (skipn j R) -> ~ In (bh b) (map bh C)) /\
    (back sv = true -> (ptr sv <= j)%nat /\ (fst (point_at C (ptr sv)) = fs -> ptr sv = length R)) /\
    (back sv = false -> j = length R /\ ptr sv = length R).

(* common prefix and dead part under a fork switch *)
Lemma cp_mutate C R seen j kp bs :
  chain_ok C -> (kp <= length C)%nat -> (j <= length R)%nat -> firstn j R = firstn j C ->
  (forall b, In b (skipn j R) -> ~ In (bh b) (map bh C)) -> incl (map bh R) seen ->
  (forall b, In b bs -> ~ In (bh b) seen) ->
  firstn (Nat.min j kp) R = firstn (Nat.min j kp) (firstn kp C ++ bs) /\
  (forall b, In b (skipn (Nat.min j kp) R) -> ~ In (bh b) (map bh (firstn kp C ++ bs))).
Proof.
  intros HC Hkp Hj Hpre Hdead HinS Hfresh. split.
  { transitivity (firstn (Nat.min j kp) C).
    - transitivity (firstn (Nat.min j kp) (firstn j R)); [rewrite firstn_firstn; f_equal; lia|].
      rewrite Hpre, firstn_firstn. f_equal. lia.
    - rewrite firstn_app, firstn_firstn, firstn_length.
      replace (Nat.min j kp - Nat.min kp (length C))%nat with O by lia. cbn [firstn]. rewrite app_nil_r. f_equal. lia. }
  intros b Hb Hin. destruct (skipn_in_nth R _ b Hb) as [n [Hn Hbn]].
  rewrite map_app in Hin. apply in_app_or in Hin as [Hin|Hin].
  - apply in_map_iff in Hin as [x [Ex Hx]]. destruct (in_firstn_nth C kp x Hx) as [m [Hm Hxm]].
    destruct (Nat.lt_ge_cases n j) as [Hlt|Hge].
    + assert (HbC : nth_error C n = Some b).
      { rewrite <- (nth_error_firstn_lt C j n Hlt), <- Hpre, nth_error_firstn_lt by exact Hlt. exact Hbn. }
      pose proof (chain_bh_index C m n x b HC Hxm HbC Ex). lia.
    + apply (Hdead b (in_skipn_nth R j n b Hbn Hge)). rewrite <- Ex. apply in_map.
      eapply nth_error_In; exact Hxm.
  - apply in_map_iff in Hin as [x [Ex Hx]]. apply (Hfresh x Hx). rewrite Ex. apply HinS. apply in_map.
    eapply nth_error_In; exact Hbn.
Qed.

Lemma prefix_len_le {A} (R C : list A) j : (j <= length R)%nat -> firstn j R = firstn j C -> (j <= length C)%nat.
Proof.
  intros Hj E. assert (length (firstn j R) = length (firstn j C)) by (rewrite E; reflexivity).
  rewrite !firstn_length in H. lia.
Qed.

Lemma DI_ptr_le seen fs until st buf sv : DI seen fs until st buf sv -> (ptr sv <= length (chain sv))%nat.
Proof.
  intros (_ & _ & _ & _ & _ & _ & _ & _ & _ & j & Hj & Hpre & _ & Hbt & Hbf).
  pose proof (prefix_len_le _ _ j Hj Hpre). destruct (back sv).
  - destruct (Hbt eq_refl). lia.
  - destruct (Hbf eq_refl). lia.
Qed.

Lemma mutate_DI seen fs until st buf sv c keep bs rest :
  DI seen fs until st buf sv -> pending sv = (c, Switch keep bs) :: rest ->
  let sv1 := mutate {| chain := chain sv; ptr := ptr sv; back := back sv; agency := agency sv; pending := rest |}
                    (Switch keep bs) in
  DI (seen ++ map bh bs) fs until st buf sv1 /\ (phi sv1 buf + 1 <= phi sv buf)%nat /\ agency sv1 = agency sv /\
  chain sv1 = chain_after (chain sv) (Switch keep bs) /\ pending sv1 = rest.
Proof.
  intros HD Hp. pose proof (DI_ptr_le _ _ _ _ _ _ HD) as Hptr.
  destruct HD as (HW & HR & HRpos & HinC & HinR & Hm & He & Hst & Hbuf & j & Hj & Hpre & Hdead & Hbt & Hbf).
  rewrite Hp in Hm, He. cbn [map snd app muts_ok echo_free] in Hm, He.
  destruct Hm as (HW' & Hfresh & Hm'). destruct He as (He1 & He').
  cbv zeta. unfold mutate, chain_after in *. cbn [chain ptr back agency pending] in *.
  set (C := chain sv) in *. set (kp := Nat.min keep (length C)) in *.
  assert (Hkp : (kp <= length C)%nat) by (unfold kp; lia).
  destruct HW as [HC HWr].
  destruct (cp_mutate C (blocks st ++ buf) seen j kp bs HC Hkp Hj Hpre Hdead HinR Hfresh) as [Hpre' Hdead'].
  split; [|split; [|split; [reflexivity|split; reflexivity]]].
  - unfold DI. cbn [chain ptr back agency pending].
    split; [exact HW'|]. split; [exact HR|]. split; [exact HRpos|].
    split.
    { intros x Hx. rewrite map_app in Hx. apply in_app_or in Hx as [Hx|Hx]; apply in_or_app; [left | right; exact Hx].
      apply HinC. apply in_map_iff in Hx as [b [<- Hb]]. apply in_map. eapply in_firstn; exact Hb. }
    split; [intros x Hx; apply in_or_app; left; apply HinR; exact Hx|].
    split; [exact Hm'|]. split; [exact He'|]. split; [exact Hst|]. split; [exact Hbuf|].
    exists (Nat.min j kp). split; [lia|]. split; [exact Hpre'|]. split; [exact Hdead'|].
    assert (Hpt : forall n, (n <= kp)%nat -> point_at (firstn kp C ++ bs) n = point_at C n).
    { intros [|n] Hn; [reflexivity|]. unfold point_at.
      rewrite nth_error_app1 by (rewrite firstn_length; lia). rewrite nth_error_firstn_lt by lia. reflexivity. }
    destruct (Nat.ltb kp (ptr sv)) eqn:Ecut.
    + apply Nat.ltb_lt in Ecut. rewrite orb_true_r. split; [|discriminate]. intros _. split.
      * destruct (back sv) eqn:Eb; [destruct (Hbt eq_refl); lia | destruct (Hbf eq_refl); lia].
      * rewrite Hpt by lia. intros E. exfalso. apply He1. exact E.
    + apply Nat.ltb_ge in Ecut. rewrite orb_false_r. split.
      * intros Hb. destruct (Hbt Hb) as [H1 H2]. split; [lia|]. rewrite Hpt by lia. exact H2.
      * intros Hb. destruct (Hbf Hb) as [H1 H2]. split; [lia | exact H2].
  - unfold phi. cbn [chain ptr back agency pending]. rewrite Hp. cbn [pend_bs fold_right snd length].
    fold (pend_bs rest). rewrite app_length, firstn_length. fold C. fold kp.
    destruct (Nat.ltb kp (ptr sv)) eqn:Ecut.
    + apply Nat.ltb_lt in Ecut. rewrite orb_true_r. destruct (back sv); lia.
    + apply Nat.ltb_ge in Ecut. rewrite orb_false_r. destruct (back sv); lia.
Qed.

Lemma tick_DI fs until st buf : forall n sv seen t, DI seen fs until st buf sv ->
  exists seen', DI seen' fs until st buf (tick sv n) /\ (phi (tick sv n) buf <= phi sv buf)%nat /\
    agency (tick sv n) = agency sv /\
    (targets_during t (chain sv) (map snd (pending sv)) ->
     targets_during t (chain (tick sv n)) (map snd (pending (tick sv n)))).
Proof.
  induction n as [|n IH]; intros sv seen t HD.
  - exists seen. cbn [tick]. split; [exact HD|]. split; [lia|]. split; [reflexivity | intros H; exact H].
  - cbn [tick]. destruct (pending sv) as [|[[|c] m] rest] eqn:Ep.
    + exists seen. split; [exact HD|]. split; [lia|]. split; [reflexivity | rewrite Ep; intros H; exact H].
    + destruct m as [keep bs].
      destruct (mutate_DI seen fs until st buf sv O keep bs rest HD Ep) as (HD1 & Hphi & Hag & Hch & Hpe).
      cbv zeta in HD1, Hphi, Hag, Hch, Hpe.
      destruct (IH _ _ t HD1) as (seen' & HD' & Hphi' & Hag' & Ht').
      exists seen'. split; [exact HD'|]. split; [lia|]. split; [rewrite Hag'; exact Hag|].
      intros Ht. apply Ht'. rewrite Hch, Hpe. cbn [map snd targets_during] in Ht. destruct Ht as [_ Ht]. exact Ht.
    + exists seen. split.
      * unfold DI in *. cbn [chain ptr back agency pending]. rewrite Ep in HD. cbn [map snd] in *. exact HD.
      * split; [unfold phi; cbn [chain ptr back agency pending]; rewrite Ep; cbn [pend_bs fold_right snd length]; lia|].
        split; [reflexivity|]. cbn [chain pending map snd]. intros H; exact H.
Qed.

(* every continuation of the loop after an action starts from a store + buffer that is a prefix of
   the server's chain, with the server past the roll-back *)
Lemma DI_prefix seen fs until st' buf' sv' C :
  chain sv' = C -> wf_chain C -> incl (map bh C) seen ->
  muts_ok seen C (map snd (pending sv') ++ later) -> echo_free fs C (map snd (pending sv')) ->
  back sv' = false -> (ptr sv' <= length C)%nat -> blocks st' ++ buf' = firstn (ptr sv') C ->
  Forall (fun b => num b <= until) (blocks st') -> Forall (fun b => num b < until) buf' ->
  DI seen fs until st' buf' sv'.
Proof.
  intros Hc HW HinC Hm He Hb Hp HR Hst Hbuf. unfold DI. rewrite Hc, HR.
  destruct HW as [HC [Hcons Hpos]].
  split; [exact (conj HC (conj Hcons Hpos))|]. split; [apply chain_ok_firstn; exact HC|].
  split. { apply Forall_forall. intros b Hb'. rewrite Forall_forall in Hpos. apply Hpos. eapply in_firstn; exact Hb'. }
  split; [exact HinC|].
  split. { intros x Hx. apply HinC. apply in_map_iff in Hx as [b [<- Hb']]. apply in_map. eapply in_firstn; exact Hb'. }
  split; [exact Hm|]. split; [exact He|]. split; [exact Hst|]. split; [exact Hbuf|].
  assert (Hl : length (firstn (ptr sv') C) = ptr sv') by (rewrite firstn_length; lia).
  exists (ptr sv'). rewrite Hl. split; [lia|]. split; [rewrite firstn_firstn; f_equal; lia|].
  split. { intros b Hb'. rewrite <- Hl in Hb' at 1. rewrite skipn_all in Hb'. destruct Hb'. }
  split; [rewrite Hb; discriminate | intros _; split; reflexivity].
Qed.

(* ---- the buffered roll-back ---- *)
Lemma truncate_at_spec : forall buf m a, nth_error buf m = Some a ->
  (forall m' x, (m' < m)%nat -> nth_error buf m' = Some x -> slot x <> slot a) ->
  truncate_at buf (slot a) = firstn (S m) buf.
Proof.
  induction buf as [|y r IH]; intros m a Hm Hu; [destruct m; discriminate|].
  cbn [truncate_at]. destruct m as [|m].
  - injection Hm as ->. rewrite N.eqb_refl. reflexivity.
  - destruct (slot y =? slot a) eqn:E; [apply N.eqb_eq in E; exfalso; apply (Hu O y ltac:(lia) eq_refl E)|].
    cbn [firstn]. f_equal. apply IH; [exact Hm|]. intros m' x Hlt Hx. apply (Hu (S m') x); [lia | exact Hx].
Qed.
Lemma truncate_prefix S0 buf n a :
  chain_ok (S0 ++ buf) -> nth_error (S0 ++ buf) n = Some a ->
  existsb (fun x => slot x =? slot a) buf = true ->
  S0 ++ truncate_at buf (slot a) = firstn (S n) (S0 ++ buf) /\ truncate_at buf (slot a) <> [].
Proof.
  intros HC Hn Hex. apply existsb_exists in Hex as [x [Hx Ex]]. apply N.eqb_eq in Ex.
  apply In_nth_error in Hx as [m Hm].
  assert (HmR : nth_error (S0 ++ buf) (length S0 + m) = Some x).
  { rewrite nth_error_app2 by lia. replace (length S0 + m - length S0)%nat with m by lia. exact Hm. }
  pose proof (chain_slot_index _ _ _ x a HC HmR Hn Ex) as Hidx. subst n.
  rewrite HmR in Hn. injection Hn as ->.
  rewrite (truncate_at_spec buf m a Hm).
  - split; [|destruct buf; [destruct m; discriminate | discriminate]].
    replace (S (length S0 + m)) with (length S0 + S m)%nat by lia. rewrite firstn_app_2. reflexivity.
  - intros m' y Hlt Hy E.
    assert (HyR : nth_error (S0 ++ buf) (length S0 + m') = Some y).
    { rewrite nth_error_app2 by lia. replace (length S0 + m' - length S0)%nat with m' by lia. exact Hy. }
    pose proof (chain_slot_index _ _ _ y a HC HyR HmR E). lia.
Qed.
Lemma not_buffered_in_store S0 buf n a :
  nth_error (S0 ++ buf) n = Some a -> existsb (fun x => slot x =? slot a) buf = false -> (n < length S0)%nat.
Proof.
  intros Hn Hex. destruct (Nat.lt_ge_cases n (length S0)) as [H|H]; [exact H | exfalso].
  rewrite nth_error_app2 in Hn by exact H. apply nth_error_In in Hn.
  assert (existsb (fun x => slot x =? slot a) buf = true); [|congruence].
  apply existsb_exists. exists a. split; [exact Hn | apply N.eqb_refl].
Qed.
Lemma truncate_Forall (P : block -> Prop) s : forall buf, Forall P buf -> Forall P (truncate_at buf s).
Proof.
  induction 1 as [|x r Hx _ IH]; [constructor|]. cbn [truncate_at].
  destruct (slot x =? s); constructor; try assumption; constructor.
Qed.

(* ---- the loop ---- *)
Definition drained_ok (until : N) (R0 : list block) (st0 : store) (C0 : list block) (pend0 : list mutation)
                      (d : drained) : Prop :=
  d_ok d = true /\
  exists (seen' : list N) (k : nat),
    let C' := chain (d_srv d) in
    wf_chain C' /\ incl (map bh C') seen' /\ muts_ok seen' C' (map snd (pending (d_srv d)) ++ later) /\
    (k <= length C')%nat /\ blocks (d_store d) = firstn k C' /\ Forall (fun b => num b <= until) (firstn k C') /\
    back (d_srv d) = false /\
    (agency (d_srv d) = true -> ptr (d_srv d) = S k /\ exists b, nth_error C' k = Some b /\ until < num b) /\
    (agency (d_srv d) = false -> ptr (d_srv d) = k /\ k = length C') /\
    (d_last d = None /\ blocks (d_store d) = R0 \/ d_last d = Some (fromp_of (blocks (d_store d)))) /\
    (RI st0 -> RI (d_store d)) /\
    (targets_during until C0 pend0 -> tip_ge C' until).

Lemma drained_ok_weaken until R0 st0 st1 C0 p0 C1 p1 d :
  (RI st0 -> RI st1) -> (targets_during until C0 p0 -> targets_during until C1 p1) ->
  drained_ok until R0 st1 C1 p1 d -> drained_ok until R0 st0 C0 p0 d.
Proof.
  intros H1 H2 (Hok & seen' & k & A & B & C & D & E & F & G & H & I & J & K & L).
  split; [exact Hok|]. exists seen', k. cbv zeta.
  repeat (split; [assumption|]). split; [intros X; apply K, H1, X | intros X; apply L, H2, X].
Qed.

Lemma targets_during_tip t c ms : targets_during t c ms -> tip_ge c t.
Proof. destruct ms; intros [H _]; exact H. Qed.

Lemma drain_general fs until max : forall f st buf sv lastp seen R0,
  DI seen fs until st buf sv ->
  (lastp = None /\ blocks st ++ buf = R0 \/ lastp = Some (fromp_of (blocks st ++ buf))) ->
  (phi sv buf + 2 <= f)%nat ->
  d_deep (drain f fs until max st buf sv lastp false) = false ->
  drained_ok until R0 st (chain sv) (map snd (pending sv)) (drain f fs until max st buf sv lastp false).
Proof.
  induction f as [|f IH]; intros st buf sv lastp seen R0 HD HL Hf; [lia|].
  rewrite drain_S. unfold srv_next.
  destruct (tick_DI fs until st buf (S (length (pending sv))) sv seen until HD) as (seen1 & HD1 & Hphi1 & Hag1 & Ht1).
  set (s := tick sv (S (length (pending sv)))) in *.
  intros Hdeep.
  apply (drained_ok_weaken until R0 st st (chain sv) (map snd (pending sv)) (chain s) (map snd (pending s)));
    [tauto | exact Ht1 |].
  revert Hdeep.
  pose proof (DI_ptr_le _ _ _ _ _ _ HD1) as Hptr.
  pose proof HD1 as (HW & HR & HRpos & HinC & HinR & Hm & He & Hst & Hbuf & j & Hj & Hpre & Hdead & Hbt & Hbf).
  pose proof (prefix_len_le _ _ j Hj Hpre) as HjC.
  pose proof HW as [HC [Hcons Hpos]].
  (* the final facts when the loop stops with an empty buffer at server state [sv'] *)
  assert (STOP : forall sv' k, buf = [] -> chain sv' = chain s -> pending sv' = pending s -> back sv' = false ->
            blocks st = firstn k (chain s) -> (k <= length (chain s))%nat ->
            (agency sv' = true -> ptr sv' = S k /\ exists b, nth_error (chain s) k = Some b /\ until < num b) ->
            (agency sv' = false -> ptr sv' = k /\ k = length (chain s)) ->
            drained_ok until R0 st (chain s) (map snd (pending s))
              {| d_ok := true; d_store := st; d_srv := sv'; d_last := lastp; d_deep := false |}).
  { intros sv' k Eb Ec Ep Ebk Hbl Hk Ha1 Ha0. split; [reflexivity|]. exists seen1, k.
    cbn [d_ok d_store d_srv d_last d_deep]. cbv zeta. rewrite Ec, Ep.
    split; [exact HW|]. split; [exact HinC|]. split; [exact Hm|]. split; [exact Hk|]. split; [exact Hbl|].
    split; [rewrite <- Hbl; exact Hst|]. split; [exact Ebk|]. split; [exact Ha1|]. split; [exact Ha0|].
    split. { subst buf. rewrite app_nil_r in HL. destruct HL as [[-> <-]| ->]; [left; split; reflexivity | right; reflexivity]. }
    split; [intros X; exact X | apply targets_during_tip]. }
  destruct (back s) eqn:Eb.
  - (* the server opens with / switches to a roll-back *)
    destruct (Hbt eq_refl) as [Hpj Hecho]. cbv beta iota zeta.
    set (sv1 := {| chain := chain s; ptr := ptr s; back := false; agency := true; pending := pending s |}).
    assert (Hphi_b : forall buf', (match buf' with [] => 0 | _ => 1 end <= match buf with [] => 0 | _ => 1 end)%nat ->
                                  (phi sv1 buf' + 2 <= f)%nat).
    { intros buf' Hb'. unfold phi in *. cbn [chain ptr back agency pending sv1]. rewrite Eb in Hphi1. lia. }
    destruct (fst (point_at (chain s) (ptr s)) =? fs) eqn:Ee.
    + (* echo of the intersection: nothing to roll back *)
      apply N.eqb_eq in Ee. specialize (Hecho Ee). intros Hdeep.
      apply (IH st buf sv1 lastp seen1 R0); [|exact HL|apply Hphi_b; lia|exact Hdeep].
      apply (DI_prefix seen1 fs until st buf sv1 (chain s)); try reflexivity; try assumption.
      cbn [ptr sv1]. assert (j = length (blocks st ++ buf)) by lia. subst j.
      rewrite Hecho, <- Hpre. symmetry. apply firstn_all.
    + apply N.eqb_neq in Ee.
      destruct (existsb (fun x => slot x =? fst (point_at (chain s) (ptr s))) buf) eqn:Eex.
      * (* roll-back inside the buffer *)
        destruct (ptr s) as [|i'] eqn:Ep.
        { exfalso. cbn [point_at origin fst] in Eex. apply existsb_exists in Eex as [x [Hx Ex]]. apply N.eqb_eq in Ex.
          rewrite Forall_forall in HRpos. specialize (HRpos x (in_or_app _ _ _ (or_intror Hx))). lia. }
        destruct (nth_error (chain s) i') as [a|] eqn:Ha; [|apply nth_error_None in Ha; lia].
        assert (HaR : nth_error (blocks st ++ buf) i' = Some a).
        { rewrite <- (nth_error_firstn_lt _ j i') by lia. rewrite Hpre, nth_error_firstn_lt by lia. exact Ha. }
        assert (Hpt : point_at (chain s) (S i') = point_of a) by (unfold point_at; rewrite Ha; reflexivity).
        rewrite Hpt in *. cbn [point_of fst] in Eex |- *.
        destruct (truncate_prefix (blocks st) buf i' a HR HaR Eex) as [Htr Hne].
        assert (HR' : blocks st ++ truncate_at buf (slot a) = firstn (S i') (chain s)).
        { rewrite Htr. transitivity (firstn (S i') (firstn j (blocks st ++ buf))); [rewrite firstn_firstn; f_equal; lia|].
          rewrite Hpre, firstn_firstn. f_equal. lia. }
        intros Hdeep.
        apply (IH st (truncate_at buf (slot a)) sv1 (Some (point_of a)) seen1 R0); [| | |exact Hdeep].
        -- apply (DI_prefix seen1 fs until st _ sv1 (chain s)); try reflexivity; try assumption.
           apply truncate_Forall. exact Hbuf.
        -- right. rewrite HR', fromp_firstn by lia. rewrite Hpt. reflexivity.
        -- apply Hphi_b. destruct (truncate_at buf (slot a)); [contradiction|]. destruct buf; [discriminate | lia].
      * (* roll-back in the repository; the buffer is dropped *)
        destruct (ptr s) as [|i'] eqn:Ep.
        { cbn [point_at origin fst]. unfold rollback.
          rewrite (slots_pos_anchor_none (blocks st)) by (apply Forall_app in HRpos as [H _]; exact H).
          destruct (blocks st) as [|x r] eqn:Ebs.
          - cbn [orb]. intros Hdeep.
            apply (IH st [] sv1 (Some origin) seen1 R0); [| |apply Hphi_b; destruct buf; lia|exact Hdeep].
            + apply (DI_prefix seen1 fs until st [] sv1 (chain s)); try reflexivity; try assumption;
                try solve [constructor]; try solve [cbn [ptr sv1]; lia]; try (rewrite Ebs); try solve [constructor].
            + right. rewrite Ebs. reflexivity.
          - cbn [orb]. rewrite drain_deep_sticky. discriminate. }
        destruct (nth_error (chain s) i') as [a|] eqn:Ha; [|apply nth_error_None in Ha; lia].
        assert (HaR : nth_error (blocks st ++ buf) i' = Some a).
        { rewrite <- (nth_error_firstn_lt _ j i') by lia. rewrite Hpre, nth_error_firstn_lt by lia. exact Ha. }
        assert (Hpt : point_at (chain s) (S i') = point_of a) by (unfold point_at; rewrite Ha; reflexivity).
        rewrite Hpt in *. cbn [point_of fst] in Eex |- *.
        pose proof (not_buffered_in_store (blocks st) buf i' a HaR Eex) as Hlt.
        assert (HaS : nth_error (blocks st) i' = Some a) by (rewrite nth_error_app1 in HaR by exact Hlt; exact HaR).
        pose proof (split_nth (blocks st) i' a HaS) as Hsplit.
        assert (HSok : chain_ok (blocks st)).
        { unfold chain_ok in *. apply ext_ok_app in HR as [H _]. exact H. }
        rewrite (rollback_on_chain st (firstn i' (blocks st)) a (skipn (S i') (blocks st)) Hsplit)
          by (rewrite <- Hsplit; exact HSok).
        cbn [orb]. intros Hdeep.
        set (st' := {| blocks := firstn i' (blocks st) ++ [a];
                       roots := filter (fun r => fst r <? range_start (num a)) (roots st);
                       lroots := filter (fun r => fst r <? range_start (num a)) (lroots st) |}) in *.
        assert (Hb' : blocks st' = firstn (S i') (chain s)).
        { cbn [blocks st']. rewrite (firstn_snoc (chain s) i' a Ha). f_equal.
          transitivity (firstn i' (firstn j (blocks st ++ buf))).
          - rewrite firstn_firstn, firstn_app. replace (Nat.min i' j) with i' by lia.
            replace (i' - length (blocks st))%nat with O by lia. cbn [firstn]. rewrite app_nil_r. reflexivity.
          - rewrite Hpre, firstn_firstn. f_equal. lia. }
        apply (drained_ok_weaken until R0 st st' (chain s) (map snd (pending s)) (chain s) (map snd (pending s)));
          [|tauto|].
        { apply (RI_rollback st st' HSok). right. exists (firstn i' (blocks st)), a, (skipn (S i') (blocks st)).
          split; [exact Hsplit | reflexivity]. }
        apply (IH st' [] sv1 (Some (point_of a)) seen1 R0); [| |apply Hphi_b; destruct buf; lia|exact Hdeep].
        -- apply (DI_prefix seen1 fs until st' [] sv1 (chain s)); try reflexivity; try assumption;
             try solve [constructor]; try solve [cbn [ptr sv1]; lia].
           all: first [ solve [cbn [ptr sv1]; rewrite app_nil_r; exact Hb']
                      | solve [cbn [blocks st']; rewrite Hsplit in Hst; apply Forall_app in Hst as [Hl1 Hl2];
                               apply Forall_app; split; [exact Hl1|]; inversion Hl2; subst; constructor; [assumption | constructor]] ].
        -- right. rewrite app_nil_r, Hb', fromp_firstn by lia. rewrite Hpt. reflexivity.
  - (* forward *)
    destruct (Hbf eq_refl) as [Hjl Hpl].
    assert (HRC : blocks st ++ buf = firstn (ptr s) (chain s)).
    { rewrite Hpl, <- Hjl, <- Hpre, Hjl. symmetry. apply firstn_all. }
    destruct (nth_error (chain s) (ptr s)) as [b|] eqn:Hn; cbv beta iota zeta.
    + set (sv1 := {| chain := chain s; ptr := S (ptr s); back := false; agency := true; pending := pending s |}).
      assert (Hlt : (ptr s < length (chain s))%nat) by (apply nth_error_Some; rewrite Hn; discriminate).
      destruct (until <? num b) eqn:Hu.
      * (* beyond the target: the buffer is empty, the stream stops *)
        apply N.ltb_lt in Hu.
        assert (buf = []) as Ebuf.
        { destruct buf as [|x buf']; [reflexivity|]. exfalso.
          destruct (last_app_nth (blocks st) (ptr s) (x :: buf') (chain s) ltac:(discriminate) Hptr HRC) as [a [Ha [Hin Hpos']]].
          rewrite Forall_forall in Hbuf. specialize (Hbuf a Hin).
          specialize (Hcons (ptr s - 1)%nat a b Ha). replace (S (ptr s - 1)) with (ptr s) in Hcons by lia.
          specialize (Hcons Hn). lia. }
        subst buf. intros _. rewrite app_nil_r in HRC.
        apply (STOP sv1 (ptr s)); try reflexivity; try assumption; try lia.
        -- intros _. split; [reflexivity|]. exists b. split; assumption.
        -- discriminate.
      * apply N.ltb_ge in Hu.
        assert (E' : blocks st ++ buf ++ [b] = firstn (S (ptr s)) (chain s)).
        { rewrite (firstn_snoc (chain s) (ptr s) b Hn), <- HRC, app_assoc. reflexivity. }
        assert (Hphi_f : forall buf', (phi sv1 buf' + 2 <= f)%nat).
        { intros buf'. unfold phi in *. cbn [chain ptr back agency pending sv1]. rewrite Eb in Hphi1.
          destruct buf'; destruct buf; lia. }
        assert (HL' : Some (point_of b) = Some (fromp_of (firstn (S (ptr s)) (chain s)))).
        { rewrite fromp_firstn by lia. unfold point_at. rewrite Hn. reflexivity. }
        destruct ((Nat.leb max (length (buf ++ [b]))) || (until <=? num b)) eqn:Hfl.
        -- assert (Hext : ext_ok (blocks st) (buf ++ [b])).
           { apply ext_ok_of_chain. rewrite E'. apply chain_ok_firstn, HC. }
           rewrite (flush_ext st _ Hext). intros Hdeep.
           apply (drained_ok_weaken until R0 st (set_blocks st (blocks st ++ buf ++ [b])) (chain s) (map snd (pending s))
                    (chain s) (map snd (pending s))); [|tauto|].
           { apply RI_forward. rewrite E'. apply chain_ok_firstn, HC. }
           apply (IH _ [] sv1 (Some (point_of b)) seen1 R0); [| |apply Hphi_f|exact Hdeep].
           ++ apply (DI_prefix seen1 fs until _ [] sv1 (chain s)); try reflexivity; try assumption;
             try solve [constructor]; try solve [cbn [ptr sv1]; lia].
              all: first [ solve [cbn [ptr sv1 set_blocks blocks]; rewrite app_nil_r; exact E']
                         | solve [cbn [set_blocks blocks]; apply Forall_app; split; [exact Hst|]; apply Forall_app; split;
                                  [eapply Forall_impl; [|exact Hbuf]; intros; cbv beta in *; lia
                                  | constructor; [exact Hu | constructor]]] ].
           ++ right. cbn [set_blocks blocks]. rewrite app_nil_r, E'. exact HL'.
        -- apply orb_false_iff in Hfl as [_ Hfl]. apply N.leb_gt in Hfl. intros Hdeep.
           apply (IH st (buf ++ [b]) sv1 (Some (point_of b)) seen1 R0); [| |apply Hphi_f|exact Hdeep].
           ++ apply (DI_prefix seen1 fs until st _ sv1 (chain s)); try reflexivity; try assumption;
             try solve [constructor]; try solve [cbn [ptr sv1]; lia].
              all: first [ solve [cbn [ptr sv1]; exact E']
                         | solve [apply Forall_app; split; [exact Hbuf | constructor; [exact Hfl | constructor]]] ].
           ++ right. rewrite E'. exact HL'.
    + (* the tip was reached *)
      set (sv1 := {| chain := chain s; ptr := ptr s; back := false; agency := false; pending := pending s |}).
      assert (Hi' : ptr s = length (chain s)) by (apply nth_error_None in Hn; lia).
      destruct buf as [|x buf'].
      * intros _. rewrite app_nil_r in HRC.
        apply (STOP sv1 (ptr s)); try reflexivity; try assumption; try lia.
        -- discriminate.
        -- intros _. split; [reflexivity | exact Hi'].
      * assert (Hext : ext_ok (blocks st) (x :: buf')).
        { apply ext_ok_of_chain. rewrite HRC. apply chain_ok_firstn, HC. }
        rewrite (flush_ext st _ Hext). intros Hdeep.
        apply (drained_ok_weaken until R0 st (set_blocks st (blocks st ++ x :: buf')) (chain s) (map snd (pending s))
                 (chain s) (map snd (pending s))); [|tauto|].
        { apply RI_forward. rewrite HRC. apply chain_ok_firstn, HC. }
        apply (IH _ [] sv1 lastp seen1 R0); [| | |exact Hdeep].
        -- apply (DI_prefix seen1 fs until _ [] sv1 (chain s)); try reflexivity; try assumption;
             try solve [constructor]; try solve [cbn [ptr sv1]; lia].
           all: first [ solve [cbn [ptr sv1 set_blocks blocks]; rewrite app_nil_r; exact HRC]
                      | solve [cbn [set_blocks blocks]; apply Forall_app; split; [exact Hst|];
                               eapply Forall_impl; [|exact Hbuf]; intros; cbv beta in *; lia] ].
        -- cbn [set_blocks blocks]. rewrite app_nil_r. exact HL.
        -- unfold phi in *. cbn [chain ptr back agency pending sv1]. rewrite Eb in Hphi1. lia.
Qed.

End Rest.
