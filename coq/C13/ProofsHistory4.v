(* C13/ProofsHistory4.v — the coupling invariant along a history; convergence of the block table. *)
From Coq Require Import Lia.
From MV Require Import Base.Prelude Base.SymHash C13.Model C13.Spec C13.Proofs.
From MV Require Import C13.SpecHistory C13.ProofsHistory1 C13.ProofsHistory2 C13.ProofsHistory3.
Open Scope N_scope.

Lemma in_firstn_nth {A} (l : list A) : forall k x, In x (firstn k l) -> exists m, (m < k)%nat /\ nth_error l m = Some x.
Proof.
  induction l as [|y r IH]; intros [|k] x H; try destruct H.
  - subst. exists O. split; [lia | reflexivity].
  - destruct (IH k x H) as [m [Hm Hn]]. exists (S m). split; [lia | exact Hn].
Qed.

(* ---- a chain mutation ---- *)
Lemma mutate_inv seen nd sv keep bs :
  Inv seen nd sv -> wf_chain (chain_after (chain sv) (Switch keep bs)) ->
  (forall b, In b bs -> ~ In (bh b) seen) ->
  Inv (seen ++ map bh bs) nd (mutate sv (Switch keep bs)) /\
  chain (mutate sv (Switch keep bs)) = chain_after (chain sv) (Switch keep bs).
Proof.
  intros (Hpend & HW & HS & HSpos & HinC & HinS & Hcur & j & Hj & Hpre & Hdead & Hbt & Hbf) HW' Hfresh.
  split; [|reflexivity]. unfold Inv, mutate, chain_after in *. cbn [chain ptr back agency pending].
  set (C := chain sv) in *. set (st := blocks (n_store nd)) in *. set (kp := Nat.min keep (length C)) in *.
  assert (Hkp : (kp <= length C)%nat) by (unfold kp; lia).
  destruct HW as [HC _].
  split; [exact Hpend|]. split; [exact HW'|]. split; [exact HS|]. split; [exact HSpos|].
  split.
  { intros x Hx. rewrite map_app in Hx. apply in_app_or in Hx as [Hx|Hx]; apply in_or_app; [left | right; exact Hx].
    apply HinC. apply in_map_iff in Hx as [b [<- Hb]]. apply in_map. eapply in_firstn; exact Hb. }
  split; [intros x Hx; apply in_or_app; left; apply HinS; exact Hx|].
  split; [exact Hcur|].
  exists (Nat.min j kp). split; [lia|]. split.
  { transitivity (firstn (Nat.min j kp) C).
    - transitivity (firstn (Nat.min j kp) (firstn j st)); [rewrite firstn_firstn; f_equal; lia|].
      rewrite Hpre, firstn_firstn. f_equal. lia.
    - rewrite firstn_app, firstn_firstn, firstn_length.
      replace (Nat.min j kp - Nat.min kp (length C))%nat with O by lia. cbn [firstn]. rewrite app_nil_r. f_equal. lia. }
  split.
  { intros b Hb Hin. destruct (skipn_in_nth st _ b Hb) as [n [Hn Hbn]].
    rewrite map_app in Hin. apply in_app_or in Hin as [Hin|Hin].
    - apply in_map_iff in Hin as [x [Ex Hx]]. destruct (in_firstn_nth C kp x Hx) as [m [Hm Hxm]].
      destruct (Nat.lt_ge_cases n j) as [Hlt|Hge].
      + assert (HbC : nth_error C n = Some b).
        { rewrite <- (nth_error_firstn_lt C j n Hlt), <- Hpre, nth_error_firstn_lt by exact Hlt. exact Hbn. }
        pose proof (chain_bh_index C m n x b HC Hxm HbC Ex). lia.
      + apply (Hdead b (in_skipn_nth st j n b Hbn Hge)). rewrite <- Ex. apply in_map.
        eapply nth_error_In; exact Hxm.
    - apply in_map_iff in Hin as [x [Ex Hx]]. apply (Hfresh x Hx). rewrite Ex. apply HinS. apply in_map.
      eapply nth_error_In; exact Hbn. }
  destruct (Nat.ltb kp (ptr sv)) eqn:Ecut.
  - apply Nat.ltb_lt in Ecut. rewrite orb_true_r. split; [|discriminate]. intros _.
    destruct (back sv) eqn:Eb.
    + specialize (Hbt eq_refl). lia.
    + destruct (Hbf eq_refl) as [H1 [H2 _]]. lia.
  - apply Nat.ltb_ge in Ecut. rewrite orb_false_r. split.
    + intros Hb. specialize (Hbt Hb). lia.
    + intros Hb. destruct (Hbf Hb) as [H1 [H2 H3]]. split; [lia|]. split; [exact H2 | exact H3].
Qed.

Lemma reconnect_inv seen st cur cur' sv :
  Inv seen {| n_store := st; n_cursor := cur |} sv -> (cur' = None \/ cur' = cur) ->
  Inv seen {| n_store := st; n_cursor := cur' |} (srv_reconnect sv).
Proof.
  intros (Hpend & HW & HS & HSpos & HinC & HinS & Hcur & j & Hj & Hpre & Hdead & Hbt & Hbf) Hc.
  unfold Inv, srv_reconnect in *. cbn [n_store n_cursor chain ptr back agency pending] in *.
  split; [exact Hpend|]. split; [exact HW|]. split; [exact HS|]. split; [exact HSpos|].
  split; [exact HinC|]. split; [exact HinS|].
  split; [destruct Hc as [->| ->]; [left; reflexivity | exact Hcur]|].
  exists j. split; [exact Hj|]. split; [exact Hpre|]. split; [exact Hdead|]. split; [lia | discriminate].
Qed.

(* ---- worlds ---- *)

Lemma with_pending_nil sv : pending sv = [] -> with_pending sv [] = sv.
Proof. destruct sv. cbn. intros ->. reflexivity. Qed.

Lemma step_import max t w :
  pending (w_srv w) = [] -> pending (i_srv (import max t (w_node w) (w_srv w))) = [] ->
  step max w (EImport t []) =
    let r := import max t (w_node w) (w_srv w) in
    {| w_node := i_node r; w_srv := i_srv r; w_oks := w_oks w ++ [i_ok r];
       w_deep := w_deep w || i_deep r;
       w_stale := negb (i_polled r) &&
                  match highest (blocks (n_store (i_node r))) with
                  | Some b => negb (existsb (fun x => bh x =? bh b) (chain (i_srv r)))
                  | None => false end |}.
Proof.
  intros H1 H2. unfold step. rewrite (with_pending_nil _ H1). cbv zeta. rewrite H2. cbn [map fold_left].
  rewrite (with_pending_nil _ H2). reflexivity.
Qed.

Lemma deep_sticky max : forall h w, w_deep w = true -> w_deep (fold_left (step max) h w) = true.
Proof.
  induction h as [|e h IH]; intros w H; [exact H|]. cbn [fold_left]. apply IH.
  destruct e; cbn [step w_deep]; try exact H. rewrite H. reflexivity.
Qed.

Lemma step_inv max seen w e :
  WInv seen w -> muts_ok seen (chain (w_srv w)) (muts_of_event e) -> quiet e ->
  (blocks (n_store (w_node w)) = [] \/ w_deep (step max w e) = false) ->
  exists seen', WInv seen' (step max w e) /\
    (forall r, muts_ok seen (chain (w_srv w)) (muts_of_event e ++ r) -> muts_ok seen' (chain (w_srv (step max w e))) r) /\
    (Forall (eq true) (w_oks w) -> Forall (eq true) (w_oks (step max w e))) /\
    (w_deep w = false -> w_deep (step max w e) = false).
Proof.
  intros HI Hm Hq Hd. destruct e as [m|t during| |].
  - (* EMut *) destruct m as [keep bs]. cbn [muts_of_event muts_ok] in Hm. destruct Hm as [HW' [Hfresh _]].
    destruct (mutate_inv seen (w_node w) (w_srv w) keep bs HI HW' Hfresh) as [HI' Hch].
    exists (seen ++ map bh bs). cbn [step w_node w_srv w_oks w_deep]. split; [exact HI'|].
    split; [|split; intros H; exact H].
    intros r Hr. cbn [muts_of_event app muts_ok] in Hr. rewrite Hch. apply Hr.
  - (* EImport *) destruct during as [|x during]; [|destruct Hq].
    pose proof HI as (Hpend & _).
    assert (Hd' : blocks (n_store (w_node w)) = [] \/ i_deep (import max t (w_node w) (w_srv w)) = false).
    { destruct Hd as [H|H]; [left; exact H | right].
      unfold step in H. rewrite (with_pending_nil _ Hpend) in H. cbn [w_deep] in H.
      apply orb_false_iff in H as [_ H]. exact H. }
    destruct (import_inv seen max t (w_node w) (w_srv w) HI Hd') as (Hok & Hdp & HI' & Hch & _).
    pose proof HI' as (Hpend' & _).
    rewrite (step_import max t w Hpend Hpend'). cbv zeta.
    exists seen. split; [exact HI'|]. cbn [w_srv w_oks w_deep].
    split; [intros r Hr; cbn [muts_of_event map app] in Hr; rewrite Hch; exact Hr|].
    split.
    + intros H. apply Forall_app. split; [exact H|]. constructor; [symmetry; exact Hok | constructor].
    + intros H. rewrite H, Hdp. reflexivity.
  - (* ERestart *) exists seen. cbn [step w_node w_srv w_oks w_deep]. split.
    + destruct w as [[st cur] sv oks dp sl]. unfold WInv in *. cbn [w_node w_srv n_store] in *.
      apply (reconnect_inv seen st cur None sv HI). left; reflexivity.
    + split; [intros r Hr; exact Hr|]. split; intros H; exact H.
  - (* EDisconnect *) exists seen. cbn [step w_node w_srv w_oks w_deep]. split.
    + destruct w as [[st cur] sv oks dp sl]. unfold WInv in *. cbn [w_node w_srv n_store] in *.
      apply (reconnect_inv seen st cur cur sv HI). right; reflexivity.
    + split; [intros r Hr; exact Hr|]. split; intros H; exact H.
Qed.

Lemma run_inv max : forall h seen w,
  WInv seen w -> muts_ok seen (chain (w_srv w)) (flat_map muts_of_event h) -> Forall quiet h ->
  w_deep (fold_left (step max) h w) = false ->
  exists seen', WInv seen' (fold_left (step max) h w) /\
    (Forall (eq true) (w_oks w) -> Forall (eq true) (w_oks (fold_left (step max) h w))).
Proof.
  induction h as [|e h IH]; intros seen w HI Hm Hq Hd.
  - exists seen. split; [exact HI | intros H; exact H].
  - cbn [fold_left flat_map] in *. inversion Hq as [|? ? Hqe Hqh]; subst.
    assert (Hde : w_deep (step max w e) = false).
    { destruct (w_deep (step max w e)) eqn:E; [|reflexivity]. rewrite (deep_sticky max h _ E) in Hd. discriminate. }
    assert (Hme : muts_ok seen (chain (w_srv w)) (muts_of_event e)).
    { clear - Hm. revert Hm. generalize (flat_map muts_of_event h) as r. generalize (chain (w_srv w)) as c. revert seen.
      induction (muts_of_event e) as [|m l IHl]; intros seen c r H; [exact I|].
      destruct m as [keep bs]. cbn [app muts_ok] in *. destruct H as [H1 [H2 H3]].
      split; [exact H1|]. split; [exact H2|]. exact (IHl _ _ _ H3). }
    destruct (step_inv max seen w e HI Hme Hqe (or_intror Hde)) as (seen' & HI' & Hms & Hoks & _).
    destruct (IH seen' (step max w e) HI' (Hms _ Hm) Hqh Hd) as (seen'' & HI'' & Hoks').
    exists seen''. split; [exact HI''|]. intros H. apply Hoks', Hoks, H.
Qed.

Lemma world0_inv c : wf_chain c -> WInv (map bh c) (world0 c).
Proof.
  intros HW. unfold WInv, Inv, world0, srv0. cbn [w_node w_srv n_store n_cursor blocks empty chain ptr back agency pending].
  split; [reflexivity|]. split; [exact HW|]. split; [exact I|]. split; [constructor|].
  split; [apply incl_refl|]. split; [intros x []|]. split; [left; reflexivity|].
  exists O. cbn [length firstn skipn]. split; [lia|]. split; [reflexivity|]. split; [intros b []|].
  split; [lia | discriminate].
Qed.


Lemma coupling_invariant max c0 h :
  hist_ok c0 h -> Forall quiet h -> w_deep (run_history max c0 h) = false ->
  exists seen, WInv seen (run_history max c0 h) /\ Forall (eq true) (w_oks (run_history max c0 h)).
Proof.
  intros [HW0 Hm] Hq Hd. unfold run_history in *.
  destruct (run_inv max h (map bh c0) (world0 c0) (world0_inv c0 HW0) Hm Hq Hd) as (seen & HI & Hoks).
  exists seen. split; [exact HI | apply Hoks; constructor].
Qed.

(* ---- what a from-scratch import holds ---- *)
Lemma scratch_blocks max c t : wf_chain c -> blocks (scratch max c t) = filter (fun b => num b <=? t) c.
Proof.
  intros HW. unfold scratch.
  destruct (import_inv (map bh c) max t {| n_store := empty; n_cursor := None |} (srv0 c) (world0_inv c HW)
              (or_introl eq_refl)) as (_ & _ & _ & _ & Hp & _ & Hpol & _).
  apply Hp. rewrite Hpol. reflexivity.
Qed.

Lemma filter_idem {A} (f : A -> bool) l : filter f (filter f l) = filter f l.
Proof.
  induction l as [|x r IH]; [reflexivity|]. cbn [filter]. destruct (f x) eqn:E; [cbn [filter]; rewrite E, IH; reflexivity | exact IH].
Qed.

(* ---- convergence of the block table ---- *)
(* the final import, from any world that satisfies the coupling invariant *)
Lemma final_import max seen w0 t :
  WInv seen w0 -> Forall (eq true) (w_oks w0) ->
  let w := step max w0 (EImport t []) in
  let C := chain (w_srv w) in
  let bs := blocks (n_store (w_node w)) in
  w_deep w = false ->
  Forall (eq true) (w_oks w) /\ wf_chain C /\
  (polls (n_store (w_node w0)) t -> bs = filter (fun b => num b <=? t) C /\ bs = blocks (scratch max C t)) /\
  (w_stale w = false ->
     (exists k, bs = firstn k C) /\ filter (fun b => num b <=? t) bs = filter (fun b => num b <=? t) C).
Proof.
  intros HI Hoks. cbv zeta. intros Hd.
  pose proof HI as (Hpend & _).
  assert (Hd' : blocks (n_store (w_node w0)) = [] \/ i_deep (import max t (w_node w0) (w_srv w0)) = false).
  { right. unfold step in Hd. rewrite (with_pending_nil _ Hpend) in Hd. cbn [w_deep] in Hd.
    apply orb_false_iff in Hd as [_ H]. exact H. }
  destruct (import_inv seen max t (w_node w0) (w_srv w0) HI Hd') as (Hok & Hdp & HI' & Hch & Hpo & Hnp & Hpol & Hbk & _).
  pose proof HI' as (Hpend' & HW' & HS' & _ & _ & _ & _ & j & Hj & Hpre & Hdead & _ & Hbf).
  rewrite (step_import max t w0 Hpend Hpend'). cbv zeta. cbn [w_node w_srv w_oks w_deep w_stale].
  set (r := import max t (w_node w0) (w_srv w0)) in *.
  split; [apply Forall_app; split; [exact Hoks | constructor; [symmetry; exact Hok | constructor]]|].
  split; [exact HW'|].
  assert (Hpolled : i_polled r = true -> blocks (n_store (i_node r)) = filter (fun b => num b <=? t) (chain (i_srv r))).
  { intros H. rewrite Hch. apply Hpo, H. }
  split.
  - intros Hp. assert (Hpt : i_polled r = true).
    { rewrite Hpol. unfold polls in Hp. destruct (highest (blocks (n_store (w_node w0)))) as [b|]; [|reflexivity].
      apply negb_true_iff. apply N.leb_gt. exact Hp. }
    split; [exact (Hpolled Hpt)|]. rewrite (scratch_blocks max _ t HW'). exact (Hpolled Hpt).
  - intros Hst.
    assert (Hpref : blocks (n_store (i_node r)) = firstn (length (blocks (n_store (i_node r)))) (chain (i_srv r))).
    { assert (Hjl : j = length (blocks (n_store (i_node r)))).
      { destruct (Nat.eq_dec j (length (blocks (n_store (i_node r))))) as [E|E]; [exact E|]. exfalso.
        destruct (i_polled r) eqn:Epol.
        - destruct (Hbf (Hbk eq_refl)) as [H _]. contradiction.
        - cbn [negb andb] in Hst.
          destruct (blocks (n_store (i_node r))) as [|x0 r0] eqn:Eb; [cbn [length] in *; lia|]. rewrite <- Eb in *.
          destruct (highest_nth (blocks (n_store (i_node r))) ltac:(rewrite Eb; discriminate)) as [b [Hh Hn]].
          rewrite Hh in Hst. apply negb_false_iff in Hst. apply existsb_exists in Hst as [x [Hx Ex]].
          apply N.eqb_eq in Ex.
          apply (Hdead b).
          + apply (in_skipn_nth _ j _ b Hn). lia.
          + rewrite <- Ex. apply in_map. exact Hx. }
      rewrite <- Hjl at 1. rewrite <- Hpre. rewrite Hjl. symmetry. apply firstn_all. }
    split; [eexists; exact Hpref|].
    destruct (i_polled r) eqn:Epol.
    + rewrite (Hpolled eq_refl). apply filter_idem.
    + cbn [negb andb] in Hst.
      set (S1 := blocks (n_store (i_node r))) in *. set (C := chain (i_srv r)) in *.
      rewrite <- (firstn_skipn (length S1) C) at 1. rewrite filter_app, <- Hpref.
      rewrite (filter_all_false _ (skipn (length S1) C)); [symmetry; apply app_nil_r|].
      apply Forall_forall. intros y Hy. apply N.leb_gt.
      destruct (skipn_in_nth C _ y Hy) as [n [Hn Hyn]].
      assert (Hup : match highest (blocks (n_store (w_node w0))) with Some b => t <=? num b | None => false end = true).
      { symmetry in Hpol. apply negb_false_iff in Hpol. exact Hpol. }
      rewrite <- (Hnp eq_refl) in Hup. fold S1 in Hup.
      destruct (highest S1) as [b|] eqn:Hh; [|discriminate]. apply N.leb_le in Hup.
      destruct S1 as [|x0 r0] eqn:Eb; [discriminate|]. rewrite <- Eb in *.
      destruct (highest_nth S1 ltac:(rewrite Eb; discriminate)) as [b' [Hh' Hnb]]. rewrite Hh in Hh'. injection Hh' as <-.
      assert (Hlpos : (0 < length S1)%nat) by (rewrite Eb; cbn [length]; lia).
      assert (HbC : nth_error C (length S1 - 1) = Some b).
      { rewrite <- (nth_error_firstn_lt C (length S1)) by lia. rewrite <- Hpref. exact Hnb. }
      destruct HW' as [HC' _].
      destruct (chain_order C (length S1 - 1) n b y HC' HbC Hyn ltac:(lia)) as [H _]. lia.
Qed.

Theorem converge_blocks max c0 h t :
  hist_ok c0 h -> Forall quiet h ->
  let w0 := run_history max c0 h in
  let w := run_history max c0 (h ++ [EImport t []]) in
  let C := chain (w_srv w) in
  let bs := blocks (n_store (w_node w)) in
  w_deep w = false ->
  Forall (eq true) (w_oks w) /\ wf_chain C /\
  (polls (n_store (w_node w0)) t -> bs = filter (fun b => num b <=? t) C /\ bs = blocks (scratch max C t)) /\
  (w_stale w = false ->
     (exists k, bs = firstn k C) /\ filter (fun b => num b <=? t) bs = filter (fun b => num b <=? t) C).
Proof.
  intros [HW0 Hm] Hq. cbv zeta. unfold run_history. rewrite fold_left_app. cbn [fold_left].
  set (w0 := fold_left (step max) h (world0 c0)). intros Hd.
  assert (Hd0 : w_deep w0 = false).
  { destruct (w_deep w0) eqn:E; [|reflexivity].
    pose proof (deep_sticky max [EImport t []] w0 E) as X. cbn [fold_left] in X. rewrite X in Hd. discriminate. }
  destruct (run_inv max h (map bh c0) (world0 c0) (world0_inv c0 HW0) Hm Hq Hd0) as (seen & HI & Hoks).
  specialize (Hoks (Forall_nil _)). fold w0 in HI, Hoks.
  exact (final_import max seen w0 t HI Hoks Hd).
Qed.
