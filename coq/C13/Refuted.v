(* C13/Refuted.v — the full statements that today's code (hence the faithful model) violates.
   Witnesses are evaluated by vm_compute; each is one of the classes of known_findings.json. *)
From MV Require Import Base.Prelude Base.SymHash C13.Model.
Open Scope N_scope.

(* a 50-block chain 0..49 and a competing fork *)
Definition mk (tag : N) (n : nat) : block :=
  B (N.of_nat n) (N.of_nat n * 10 + 5) (tag * 1000 + N.of_nat n + 1) [tag * 100000 + N.of_nat n].
Definition c50 : list block := map (mk 1) (seq 0 50).
Definition fork (from len : nat) : list block := map (mk 2) (seq from len).

Definition final_store (max : nat) (c : list block) (h : list event) : store := n_store (w_node (run_history max c h)).
Definition final_chain (max : nat) (c : list block) (h : list event) : list block := chain (w_srv (run_history max c h)).

Lemma neq_by_test (a b : result bt) : bt_eqb (res_hash a) (res_hash b) = false -> a <> b.
Proof. intros H E. rewrite E, bt_eqb_refl in H. discriminate. Qed.
Lemma store_neq_by_len (a b : store) :
  Nat.eqb (length (blocks a)) (length (blocks b)) && Nat.eqb (length (roots a)) (length (roots b)) = false -> a <> b.
Proof. intros H E. rewrite E, !Nat.eqb_refl in H. discriminate. Qed.

(* (a) C13-partial-beacon: the root offered for beacon 20 by a node that had already imported
   to 44 differs from the root offered by a node that imported to 20 — same chain, same beacon.
   The importer's tables are identical to a from-scratch import: only the root query differs. *)
Theorem C13_refuted_partial :
  exists (c : list block) (h : list event) (b : N),
    w_oks (run_history 4 c h) = [true; true] /\ w_deep (run_history 4 c h) = false /\ w_stale (run_history 4 c h) = false /\
    final_store 4 c h = scratch 4 (final_chain 4 c h) 44 /\
    signable_root (final_store 4 c h) b <> signable_root (scratch 4 (final_chain 4 c h) b) b.
Proof.
  exists c50, [EImport 44 []; EImport 20 []], 20.
  split; [vm_compute; reflexivity|]. split; [vm_compute; reflexivity|]. split; [vm_compute; reflexivity|].
  split; [vm_compute; reflexivity|].
  apply neq_by_test. vm_compute; reflexivity.
Qed.

(* (b) C13-deep-rollback: after a restart the highest stored block is no longer on the chain,
   the server rolls the new follower back to the origin, no stored block has a slot at or below
   it, nothing is deleted and the forward import violates the foreign key — on every retry. *)
Theorem C13_refuted_deep_rollback :
  exists (c : list block) (h : list event),
    w_oks (run_history 4 c h) = [true; false; false] /\ w_deep (run_history 4 c h) = true /\
    final_store 4 c h <> scratch 4 (final_chain 4 c h) 30.
Proof.
  exists c50, [EImport 20 []; EMut (Switch 10 (fork 10 30)); ERestart; EImport 30 []; EImport 30 []].
  split; [vm_compute; reflexivity|]. split; [vm_compute; reflexivity|].
  apply store_neq_by_len. vm_compute; reflexivity.
Qed.

(* (c) C13-stale-up-to-date: the target is at or below the highest stored block, the importer
   answers "up to date" without reading the pending roll-back: blocks of the dead fork stay. *)
Theorem C13_refuted_stale :
  exists (c : list block) (h : list event),
    w_oks (run_history 4 c h) = [true; true] /\ w_deep (run_history 4 c h) = false /\ w_stale (run_history 4 c h) = true /\
    final_store 4 c h <> scratch 4 (final_chain 4 c h) 18.
Proof.
  exists c50, [EImport 20 []; EMut (Switch 10 (fork 10 30)); EImport 18 []].
  split; [vm_compute; reflexivity|]. split; [vm_compute; reflexivity|]. split; [vm_compute; reflexivity|].
  apply store_neq_by_len. vm_compute; reflexivity.
Qed.

(* (d) C13-echo-rollback: a genuine roll-back to the very slot the stream started from, received
   after blocks were already forwarded in the same stream, is taken for the echo of the
   intersection and skipped: the replaced blocks stay and the import fails on the foreign key. *)
Theorem C13_refuted_echo :
  exists (c : list block) (h : list event),
    w_oks (run_history 4 c h) = [true; false] /\ w_deep (run_history 4 c h) = false /\ w_stale (run_history 4 c h) = false.
Proof.
  exists c50, [EImport 20 []; EImport 30 [(3%nat, Switch 21 (fork 21 30))]].
  split; [vm_compute; reflexivity|]. split; vm_compute; reflexivity.
Qed.

(* ---- why the whole-history theorems (Properties.v, C13_converge and the others) assume [wf_chain] ----
   Two witnesses outside the four classes above (every import succeeds, w_deep = false, w_stale = false,
   no mutation during an import) on chains that violate [wf_chain]. *)

(* (e) C13-origin-rollback-slot0 (known finding, reproduced on the real importer + SQLite on every run
   by the harness flavour `origin-slot0`): a stored block at slot 0.  A roll-back to the origin is a
   roll-back to slot 0, the anchor query (max block_number where slot_number <= 0) finds that block and
   keeps it although the whole chain was replaced; the replacing block with the same number is ignored
   (insert or ignore) — silently.  C13_converge excludes the class by the hypothesis `0 < slot` of
   [wf_chain] (in [hist_ok]): with every slot positive a roll-back to the origin either meets an empty
   table or is the deep-roll-back class (w_deep = true). *)
Theorem C13_hyp_needed_slot_positive :
  exists (c : list block) (h : list event),
    w_oks (run_history 4 c h) = [true; true] /\ w_deep (run_history 4 c h) = false /\ w_stale (run_history 4 c h) = false /\
    map bh (blocks (final_store 4 c h)) = [1; 4; 5] /\
    map bh (blocks (scratch 4 (final_chain 4 c h) 2)) = [3; 4; 5].
Proof.
  exists [B 0 0 1 []; B 1 5 2 [10]],
         [EImport 1 []; EMut (Switch 0 [B 0 3 3 []; B 1 6 4 [11]; B 2 8 5 []]); ERestart; EImport 2 []].
  vm_compute. repeat split; reflexivity.
Qed.

(* (f) documented hypothesis, not a finding (consecutive block numbers are a chain invariant of Cardano;
   the harness generator never produces a gap; replayed once on the real importer with the probe mode
   `C13_PROBE=1 target/debug/c13 --seed 1 --tier quick --out /dev/null`, same outcome as the model):
   a gap in the block numbers — the streamer consumes the block above the target and forgets it, the
   server then reaches its tip (Await: the next find_intersect is not sent) and never re-sends it *)
Theorem C13_hyp_needed_consecutive :
  exists (c : list block) (h : list event),
    w_oks (run_history 4 c h) = [true; true] /\ w_deep (run_history 4 c h) = false /\ w_stale (run_history 4 c h) = false /\
    map bh (blocks (final_store 4 c h)) = [1] /\
    map bh (blocks (scratch 4 (final_chain 4 c h) 7)) = [1; 2].
Proof.
  exists [B 5 10 1 []; B 7 20 2 [10]], [EImport 6 []; EImport 7 []].
  vm_compute. repeat split; reflexivity.
Qed.
