(* C13/ProofsHistoryCheck.v — boolean checkers for the hypotheses of the whole-history theorems,
   with soundness lemmas (used to discharge the hypotheses on concrete histories by vm_compute). *)
From Coq Require Import Lia.
From MV Require Import Base.Prelude Base.SymHash Gen.Consts C13.Model C13.Spec C13.Proofs.
From MV Require Import C13.SpecHistory.
Open Scope N_scope.

Fixpoint nodupb (l : list N) : bool := match l with [] => true | x :: r => negb (mem x r) && nodupb r end.
Lemma nodupb_sound l : nodupb l = true -> NoDup l.
Proof.
  induction l as [|x r IH]; intros H; [constructor|]. cbn [nodupb] in H. apply andb_true_iff in H as [H1 H2].
  constructor; [|apply IH; exact H2]. intros Hin. apply mem_true_iff in Hin. rewrite Hin in H1. discriminate.
Qed.

Definition fresh_forb (bs : list block) (b : block) : bool :=
  forallb (fun x => (num x <? num b) && (slot x <? slot b) && negb (bh x =? bh b)) bs &&
  nodupb (txs b) && forallb (fun t => negb (mem t (known_txs bs))) (txs b).
Lemma fresh_forb_sound bs b : fresh_forb bs b = true -> fresh_for bs b.
Proof.
  unfold fresh_forb, fresh_for. intros H. apply andb_true_iff in H as [H H3]. apply andb_true_iff in H as [H1 H2].
  split; [|split].
  - apply Forall_forall. intros x Hx. rewrite forallb_forall in H1. specialize (H1 x Hx).
    apply andb_true_iff in H1 as [H1 Hh]. apply andb_true_iff in H1 as [Hn Hs].
    apply N.ltb_lt in Hn. apply N.ltb_lt in Hs. apply negb_true_iff in Hh. apply N.eqb_neq in Hh. repeat split; assumption.
  - apply nodupb_sound. exact H2.
  - intros t Ht Hin. rewrite forallb_forall in H3. specialize (H3 t Ht). apply negb_true_iff in H3.
    apply mem_true_iff in Hin. rewrite Hin in H3. discriminate.
Qed.
Fixpoint ext_okb (bs l : list block) : bool :=
  match l with [] => true | b :: r => fresh_forb bs b && ext_okb (bs ++ [b]) r end.
Lemma ext_okb_sound l : forall bs, ext_okb bs l = true -> ext_ok bs l.
Proof.
  induction l as [|b r IH]; intros bs H; [exact I|]. cbn [ext_okb ext_ok] in *. apply andb_true_iff in H as [H1 H2].
  split; [apply fresh_forb_sound; exact H1 | apply IH; exact H2].
Qed.
Fixpoint consecb (c : list block) : bool :=
  match c with a :: r => match r with b :: _ => (num b =? num a + 1) && consecb r | [] => true end | [] => true end.
Lemma consecb_sound c : consecb c = true -> consec c.
Proof.
  induction c as [|a0 r IH]; intros H i a b Ha Hb; [destruct i; discriminate|].
  destruct r as [|b0 r']; [destruct i as [|[|i]]; discriminate|].
  cbn [consecb] in H. apply andb_true_iff in H as [H1 H2]. destruct i as [|i].
  - cbn in Ha, Hb. injection Ha as <-. injection Hb as <-. apply N.eqb_eq. exact H1.
  - cbn [nth_error] in Ha, Hb. exact (IH H2 i a b Ha Hb).
Qed.
Definition wf_chainb (c : list block) : bool := ext_okb [] c && consecb c && forallb (fun b => 0 <? slot b) c.
Lemma wf_chainb_sound c : wf_chainb c = true -> wf_chain c.
Proof.
  unfold wf_chainb, wf_chain. intros H. apply andb_true_iff in H as [H H3]. apply andb_true_iff in H as [H1 H2].
  split; [apply ext_okb_sound; exact H1|]. split; [apply consecb_sound; exact H2|].
  apply Forall_forall. intros b Hb. rewrite forallb_forall in H3. apply N.ltb_lt. exact (H3 b Hb).
Qed.
Fixpoint muts_okb (seen : list N) (c : list block) (ms : list mutation) : bool :=
  match ms with
  | [] => true
  | m :: r => match m with Switch _ bs =>
      wf_chainb (chain_after c m) && forallb (fun b => negb (mem (bh b) seen)) bs &&
      muts_okb (seen ++ map bh bs) (chain_after c m) r end
  end.
Lemma muts_okb_sound ms : forall seen c, muts_okb seen c ms = true -> muts_ok seen c ms.
Proof.
  induction ms as [|[keep bs] r IH]; intros seen c H; [exact I|]. cbn [muts_okb muts_ok] in *.
  apply andb_true_iff in H as [H H3]. apply andb_true_iff in H as [H1 H2].
  split; [apply wf_chainb_sound; exact H1|]. split; [|apply IH; exact H3].
  intros b Hb Hin. rewrite forallb_forall in H2. specialize (H2 b Hb). apply negb_true_iff in H2.
  apply mem_true_iff in Hin. rewrite Hin in H2. discriminate.
Qed.
Definition hist_okb (c0 : list block) (h : list event) : bool :=
  wf_chainb c0 && muts_okb (map bh c0) c0 (flat_map muts_of_event h).
Lemma hist_okb_sound c0 h : hist_okb c0 h = true -> hist_ok c0 h.
Proof.
  unfold hist_okb, hist_ok. intros H. apply andb_true_iff in H as [H1 H2].
  split; [apply wf_chainb_sound; exact H1 | apply muts_okb_sound; exact H2].
Qed.

Fixpoint echo_freeb (fs : N) (c : list block) (ms : list mutation) : bool :=
  match ms with
  | [] => true
  | m :: r => match m with Switch keep _ => negb (fst (point_at c (Nat.min keep (length c))) =? fs) end &&
              echo_freeb fs (chain_after c m) r
  end.
Lemma echo_freeb_sound ms : forall fs c, echo_freeb fs c ms = true -> echo_free fs c ms.
Proof.
  induction ms as [|[keep bs] r IH]; intros fs c H; [exact I|]. cbn [echo_freeb echo_free] in *.
  apply andb_true_iff in H as [H1 H2]. split; [|apply IH; exact H2].
  apply negb_true_iff in H1. apply N.eqb_neq. exact H1.
Qed.
Definition tip_geb (c : list block) (t : N) : bool := match highest c with Some b => t <=? num b | None => false end.
Fixpoint targets_duringb (t : N) (c : list block) (ms : list mutation) : bool :=
  tip_geb c t && match ms with [] => true | m :: r => targets_duringb t (chain_after c m) r end.
Lemma targets_duringb_sound ms : forall t c, targets_duringb t c ms = true -> targets_during t c ms.
Proof.
  assert (T : forall c t, tip_geb c t = true -> tip_ge c t).
  { intros c t H. unfold tip_geb, tip_ge in *. destruct (highest c); [apply N.leb_le; exact H | discriminate]. }
  induction ms as [|m r IH]; intros t c H; cbn [targets_duringb targets_during] in *; apply andb_true_iff in H as [H1 H2].
  - split; [apply T; exact H1 | exact I].
  - split; [apply T; exact H1 | apply IH; exact H2].
Qed.
Definition ev_okb (w : world) (e : event) : bool :=
  match e with
  | EImport t during =>
      targets_duringb t (chain (w_srv w)) (map snd during) &&
      echo_freeb (fst (import_from (w_node w))) (chain (w_srv w)) (map snd during)
  | _ => true
  end.
Fixpoint run_okb (max : nat) (w : world) (h : list event) : bool :=
  match h with [] => true | e :: r => ev_okb w e && run_okb max (step max w e) r end.
Lemma run_okb_sound max h : forall w, run_okb max w h = true -> run_ok max w h.
Proof.
  induction h as [|e r IH]; intros w H; [exact I|]. cbn [run_okb run_ok] in *. apply andb_true_iff in H as [H1 H2].
  split; [|apply IH; exact H2]. destruct e; try exact I. cbn [ev_okb ev_ok] in *. apply andb_true_iff in H1 as [Ha Hb].
  split; [apply targets_duringb_sound; exact Ha | apply echo_freeb_sound; exact Hb].
Qed.
