(* C13/ProofsHistory2.v — one import against a server with no pending mutation: intersection,
   the opening roll-back (echo or genuine), then the forward phase. *)
From Coq Require Import Lia.
From MV Require Import Base.Prelude Base.SymHash C13.Model C13.Spec C13.Proofs.
From MV Require Import C13.SpecHistory C13.ProofsHistory1.
Open Scope N_scope.

(* ---- order and identity of the blocks of one chain ---- *)
Lemma split_nth {A} (l : list A) : forall i a, nth_error l i = Some a -> l = firstn i l ++ a :: skipn (S i) l.
Proof.
  induction l as [|x r IH]; intros [|i] a H; try discriminate.
  - injection H as <-. reflexivity.
  - cbn [nth_error] in H. cbn [firstn skipn app]. f_equal. apply IH. exact H.
Qed.
Lemma chain_order C m n x y : chain_ok C -> nth_error C m = Some x -> nth_error C n = Some y -> (m < n)%nat ->
  num x < num y /\ slot x < slot y /\ bh x <> bh y.
Proof.
  intros HC Hx Hy Hmn. unfold chain_ok in HC. rewrite (split_nth C n y Hy) in HC.
  apply ext_ok_app in HC as [_ HC]. cbn [ext_ok app] in HC. destruct HC as [[Hf _] _].
  rewrite Forall_forall in Hf. apply Hf. apply nth_error_In with (n := m).
  rewrite nth_error_firstn_lt by exact Hmn. exact Hx.
Qed.
Lemma chain_bh_index C m n x y : chain_ok C -> nth_error C m = Some x -> nth_error C n = Some y -> bh x = bh y -> m = n.
Proof.
  intros HC Hx Hy E. destruct (Nat.lt_trichotomy m n) as [H|[H|H]]; [|exact H|].
  - destruct (chain_order C m n x y HC Hx Hy H) as [_ [_ Hne]]. contradiction.
  - destruct (chain_order C n m y x HC Hy Hx H) as [_ [_ Hne]]. symmetry in E. contradiction.
Qed.
Lemma chain_slot_index C m n x y : chain_ok C -> nth_error C m = Some x -> nth_error C n = Some y -> slot x = slot y -> m = n.
Proof.
  intros HC Hx Hy E. destruct (Nat.lt_trichotomy m n) as [H|[H|H]]; [|exact H|].
  - destruct (chain_order C m n x y HC Hx Hy H) as [_ [Hs _]]. lia.
  - destruct (chain_order C n m y x HC Hy Hx H) as [_ [Hs _]]. lia.
Qed.

(* ---- highest / the point the importer resumes from ---- *)
Lemma highest_nil : highest [] = None. Proof. reflexivity. Qed.
Lemma highest_firstn C k b : nth_error C k = Some b -> highest (firstn (S k) C) = Some b.
Proof. intros H. rewrite (firstn_snoc C k b H). apply highest_snoc. Qed.
Lemma highest_nth S : S <> [] -> exists b, highest S = Some b /\ nth_error S (length S - 1) = Some b.
Proof.
  intros Hne. destruct (exists_last Hne) as [l [a ->]]. exists a. split; [apply highest_snoc|].
  rewrite app_length. cbn [length]. rewrite nth_error_app2 by lia.
  replace (length l + 1 - 1 - length l)%nat with O by lia. reflexivity.
Qed.
Lemma fromp_firstn C k : (k <= length C)%nat -> fromp_of (firstn k C) = point_at C k.
Proof.
  intros Hk. destruct k as [|k]; [reflexivity|]. unfold fromp_of, point_at.
  destruct (nth_error C k) as [b|] eqn:Hn.
  - rewrite (highest_firstn C k b Hn). reflexivity.
  - apply nth_error_None in Hn. lia.
Qed.

(* ---- the index of a point ---- *)
Lemma index_of_point_found C : chain_ok C -> forall n b, nth_error C n = Some b ->
  index_of_point C (point_of b) O = Some (S n).
Proof.
  intros HC.
  assert (G : forall l i0 n b, (forall m x, nth_error l m = Some x -> bh x = bh b -> m = n) ->
              nth_error l n = Some b -> index_of_point l (point_of b) i0 = Some (S (i0 + n))).
  { induction l as [|x r IH]; intros i0 n b Huniq Hn; [destruct n; discriminate|].
    cbn [index_of_point]. destruct n as [|n].
    - injection Hn as ->. unfold point_eqb. rewrite !N.eqb_refl. cbn. f_equal. lia.
    - destruct (point_eqb (point_of x) (point_of b)) eqn:E.
      + unfold point_eqb, point_of in E. cbn [fst snd] in E. apply andb_true_iff in E as [_ E]. apply N.eqb_eq in E.
        specialize (Huniq O x eq_refl E). discriminate.
      + rewrite (IH (S i0) n b); [f_equal; lia | | exact Hn].
        intros m y Hy Ey. specialize (Huniq (S m) y Hy Ey). lia. }
  intros n b Hn. rewrite (G C O n b); [reflexivity | | exact Hn].
  intros m x Hx E. exact (chain_bh_index C m n x b HC Hx Hn E).
Qed.
Lemma index_of_point_none C p : ~ In (snd p) (map bh C) -> forall i0, index_of_point C p i0 = None.
Proof.
  induction C as [|x r IH]; intros Hnot i0; [reflexivity|]. cbn [index_of_point].
  destruct (point_eqb (point_of x) p) eqn:E.
  - unfold point_eqb, point_of in E. cbn [fst snd] in E. apply andb_true_iff in E as [_ E]. apply N.eqb_eq in E.
    exfalso. apply Hnot. left. exact E.
  - apply IH. intros H. apply Hnot. right. exact H.
Qed.

(* ---- sticky ghost flag ---- *)
Lemma drain_deep_sticky : forall f from_slot until max st buf sv lastp,
  d_deep (drain f from_slot until max st buf sv lastp true) = true.
Proof.
  induction f as [|f IH]; intros; [reflexivity|]. rewrite drain_S.
  destruct (srv_next sv) as [[[b|p]|] sv']; cbv zeta.
  - destruct (until <? num b).
    + destruct buf; [reflexivity|]. destruct (flush st (b0 :: buf)); [apply IH | reflexivity].
    + destruct (Nat.leb max (length (buf ++ [b])) || (until <=? num b)).
      * destruct (flush st (buf ++ [b])); [apply IH | reflexivity].
      * apply IH.
  - destruct (fst p =? from_slot); [apply IH|].
    destruct (existsb (fun x => slot x =? fst p) buf); [apply IH|].
    destruct (rollback st (fst p)) as [st' dp]. cbn [orb]. apply IH.
  - destruct buf; [reflexivity|]. destruct (flush st (b :: buf)); [apply IH | reflexivity].
Qed.

Lemma store_eta (a b : store) bs : blocks a = bs -> roots a = roots b -> lroots a = lroots b -> a = set_blocks b bs.
Proof. destruct a, b. cbn. intros -> -> ->. reflexivity. Qed.

(* what a roll-back to a stored block of the store's own chain leaves *)
Definition rb_of (st st1 : store) : Prop :=
  st1 = st \/
  exists p a q, blocks st = p ++ a :: q /\
    st1 = {| blocks := p ++ [a];
             roots := filter (fun r => fst r <? range_start (num a)) (roots st);
             lroots := filter (fun r => fst r <? range_start (num a)) (lroots st) |}.

Lemma slots_pos_anchor_none bs : Forall (fun b => 0 < slot b) bs -> anchor bs 0 = None.
Proof.
  intros H. unfold anchor. replace (filter (fun b => slot b <=? 0) bs) with (@nil block); [reflexivity|].
  induction H as [|x r Hx _ IH]; [reflexivity|]. cbn [filter].
  destruct (slot x <=? 0) eqn:E; [apply N.leb_le in E; lia | exact IH].
Qed.

(* ---- the stream of one import, from the server state left by the intersection ---- *)
Lemma drain_start : forall f until max C ptr1 bk ag st j,
  wf_chain C -> chain_ok (blocks st) -> Forall (fun b => 0 < slot b) (blocks st) ->
  (j <= length (blocks st))%nat -> firstn j (blocks st) = firstn j C ->
  (bk = true -> (ptr1 <= j)%nat) -> (bk = false -> j = length (blocks st) /\ ptr1 = j) ->
  Forall (fun b => num b <= until) (blocks st) -> (2 * length C + 4 <= f)%nat ->
  let d := drain f (fst (fromp_of (blocks st))) until max st [] (mk_srv C ptr1 bk ag) None false in
  (blocks st = [] \/ d_deep d = false) ->
  exists st1 (i k : nat) (ag' : bool),
    rb_of st st1 /\ blocks st1 = firstn i C /\ (i <= k <= length C)%nat /\
    d_ok d = true /\ d_deep d = false /\ d_store d = set_blocks st1 (firstn k C) /\
    Forall (fun b => num b <= until) (firstn k C) /\
    d_srv d = mk_srv C (if ag' then S k else k) false ag' /\
    (ag' = true -> exists b, nth_error C k = Some b /\ until < num b) /\
    (ag' = false -> k = length C) /\
    ((d_last d = None /\ d_store d = st) \/ d_last d = Some (point_at C k)).
Proof.
  intros f until max C ptr1 bk ag st j [HC [Hcons Hpos]] HS HSpos Hj Hpre Hbt Hbf Hle Hf.
  assert (HjC : (j <= length C)%nat).
  { assert (length (firstn j (blocks st)) = length (firstn j C)) by (rewrite Hpre; reflexivity).
    rewrite !firstn_length in H. lia. }
  (* the forward phase from a store that is the prefix of length i *)
  assert (FW : forall f' i st1 lastp, rb_of st st1 -> blocks st1 = firstn i C -> (i <= length C)%nat ->
             Forall (fun b => num b <= until) (blocks st1) -> (2 * length C + 2 <= f')%nat ->
             (lastp = None /\ st1 = st \/ lastp = Some (point_at C i)) ->
             let d := drain f' (fst (fromp_of (blocks st))) until max st1 [] (mk_srv C i false true) lastp false in
             exists st1 (i k : nat) (ag' : bool),
               rb_of st st1 /\ blocks st1 = firstn i C /\ (i <= k <= length C)%nat /\
               d_ok d = true /\ d_deep d = false /\ d_store d = set_blocks st1 (firstn k C) /\
               Forall (fun b => num b <= until) (firstn k C) /\
               d_srv d = mk_srv C (if ag' then S k else k) false ag' /\
               (ag' = true -> exists b, nth_error C k = Some b /\ until < num b) /\
               (ag' = false -> k = length C) /\
               ((d_last d = None /\ d_store d = st) \/ d_last d = Some (point_at C k))).
  { intros f' i st1 lastp Hrb Hb Hi Hst1 Hf' Hlast.
    destruct (drain_forward f' (fst (fromp_of (blocks st))) until max C HC Hcons i st1 [] true lastp false)
      as (k & ag' & Hk & H1 & H2 & H3 & H4 & H5 & H6 & H7 & H8 & H9 & H10).
    { rewrite app_nil_r. exact Hb. } { exact Hi. } { exact Hst1. } { constructor. } { cbn [length]. lia. }
    exists st1, i, k, ag'. split; [exact Hrb|]. split; [exact Hb|]. split; [exact Hk|]. split; [exact H1|]. split; [exact H5|].
    split; [apply store_eta; assumption|]. split; [exact H6|]. split; [exact H8|]. split; [exact H9|]. split; [exact H10|].
    destruct H7 as [[-> Hl]|[Hlt [b [Hb' Hl]]]].
    - destruct Hlast as [[-> ->] | ->].
      + left. split; [exact Hl|]. rewrite (store_eta _ st (firstn i C) H2 H3 H4). rewrite <- Hb. destruct st; reflexivity.
      + right. exact Hl.
    - right. rewrite Hl. destruct k as [|k]; [lia|]. replace (S k - 1)%nat with k in Hb' by lia.
      unfold point_at. rewrite Hb'. reflexivity. }
  cbv zeta. destruct bk.
  - (* the server opens with a roll-back *)
    specialize (Hbt eq_refl). destruct f as [|f]; [lia|]. rewrite drain_S, srv_next_back. cbv zeta.
    destruct (fst (point_at C ptr1) =? fst (fromp_of (blocks st))) eqn:Eecho.
    + (* echo: nothing to roll back *)
      apply N.eqb_eq in Eecho. intros Hd.
      assert (Hlen : ptr1 = length (blocks st)).
      { destruct ptr1 as [|i'].
        - cbn [point_at origin fst] in Eecho. unfold fromp_of in Eecho.
          destruct (blocks st) as [|x r] eqn:Eb; [reflexivity|].
          destruct (highest_nth (x :: r) ltac:(discriminate)) as [b [Hh Hn]]. rewrite Hh in Eecho.
          apply nth_error_In in Hn. rewrite Forall_forall in HSpos. specialize (HSpos b Hn). cbn [point_of fst] in Eecho. lia.
        - assert (HiC : (i' < length C)%nat) by lia.
          destruct (nth_error C i') as [a|] eqn:Ha; [|apply nth_error_None in Ha; lia].
          assert (HaS : nth_error (blocks st) i' = Some a).
          { rewrite <- (nth_error_firstn_lt (blocks st) j i') by lia. rewrite Hpre.
            rewrite nth_error_firstn_lt by lia. exact Ha. }
          assert (Hne : blocks st <> []) by (intros E; rewrite E in HaS; destruct i'; discriminate).
          destruct (highest_nth (blocks st) Hne) as [b [Hh Hn]].
          unfold point_at in Eecho. rewrite Ha in Eecho. unfold fromp_of in Eecho. rewrite Hh in Eecho.
          cbn [point_of fst] in Eecho.
          pose proof (chain_slot_index (blocks st) _ _ a b HS HaS Hn Eecho). lia. }
      subst ptr1.
      apply (FW f (length (blocks st)) st None).
      * left; reflexivity.
      * assert (j = length (blocks st)) by lia. subst j. rewrite <- Hpre. symmetry. apply firstn_all.
      * lia.
      * exact Hle.
      * lia.
      * left; split; reflexivity.
    + apply N.eqb_neq in Eecho. cbn [existsb].
      destruct ptr1 as [|i'].
      * (* roll-back to the origin *)
        cbn [point_at origin fst]. unfold rollback. rewrite (slots_pos_anchor_none _ HSpos).
        destruct (blocks st) as [|x r] eqn:Eb.
        -- exfalso. apply Eecho. reflexivity.
        -- cbn [orb]. rewrite drain_deep_sticky. intros [H|H]; discriminate.
      * assert (HiC : (i' < length C)%nat) by lia.
        destruct (nth_error C i') as [a|] eqn:Ha; [|apply nth_error_None in Ha; lia].
        assert (HaS : nth_error (blocks st) i' = Some a).
        { rewrite <- (nth_error_firstn_lt (blocks st) j i') by lia. rewrite Hpre.
          rewrite nth_error_firstn_lt by lia. exact Ha. }
        pose proof (split_nth (blocks st) i' a HaS) as Hsplit.
        assert (Hpt : point_at C (S i') = point_of a) by (unfold point_at; rewrite Ha; reflexivity).
        rewrite Hpt. cbn [point_of fst].
        rewrite (rollback_on_chain st (firstn i' (blocks st)) a (skipn (S i') (blocks st)) Hsplit)
          by (rewrite <- Hsplit; exact HS).
        cbn [orb]. intros Hd. rewrite <- Hpt.
        refine (FW f (S i') _ (Some (point_at C (S i'))) _ _ _ _ _ _).
        -- right. exists (firstn i' (blocks st)), a, (skipn (S i') (blocks st)). split; [exact Hsplit | reflexivity].
        -- cbn [blocks]. rewrite (firstn_snoc C i' a Ha). f_equal.
           transitivity (firstn i' (firstn j (blocks st))); [rewrite firstn_firstn; f_equal; lia|].
           rewrite Hpre, firstn_firstn. f_equal. lia.
        -- lia.
        -- cbn [blocks]. rewrite Hsplit in Hle. apply Forall_app in Hle as [Hl1 Hl2].
           apply Forall_app. split; [exact Hl1|]. inversion Hl2; subst. constructor; [assumption | constructor].
        -- lia.
        -- right. reflexivity.
  - destruct (Hbf eq_refl) as [Hj' Hp]. subst ptr1. intros Hd.
    (* server state has agency [ag]: generalise FW's agency by running drain_forward directly *)
    destruct (drain_forward f (fst (fromp_of (blocks st))) until max C HC Hcons j st [] ag None false)
      as (k & ag' & Hk & H1 & H2 & H3 & H4 & H5 & H6 & H7 & H8 & H9 & H10).
    { rewrite app_nil_r. rewrite <- Hpre, Hj'. symmetry. apply firstn_all. } { exact HjC. } { exact Hle. } { constructor. }
    { cbn [length]. lia. }
    assert (Hb : blocks st = firstn j C) by (rewrite <- Hpre, Hj'; symmetry; apply firstn_all).
    exists st, j, k, ag'. split; [left; reflexivity|]. split; [exact Hb|]. split; [exact Hk|]. split; [exact H1|]. split; [exact H5|].
    split; [apply store_eta; assumption|]. split; [exact H6|]. split; [exact H8|]. split; [exact H9|]. split; [exact H10|].
    destruct H7 as [[-> Hl]|[Hlt [b [Hb' Hl]]]].
    + left. split; [exact Hl|]. rewrite (store_eta _ st (firstn j C) H2 H3 H4). rewrite <- Hb. destruct st; reflexivity.
    + right. rewrite Hl. destruct k as [|k]; [lia|]. replace (S k - 1)%nat with k in Hb' by lia.
      unfold point_at. rewrite Hb'. reflexivity.
Qed.
