(* C13/ProofsHistory5.v — the block-range root tables as a function of the block table:
   preserved by roll-back, by forward storage, recomputed by BlockRangeImporter. *)
From Coq Require Import Lia.
From MV Require Import Base.Prelude Base.SymHash Gen.Consts C13.Model C13.Spec C13.Proofs.
From MV Require Import C13.SpecHistory C13.ProofsHistory1 C13.ProofsHistory2 C13.ProofsHistory3.
Open Scope N_scope.

Lemma L_nz : LENGTH <> 0. Proof. discriminate. Qed.
Lemma range_start_mul k : range_start (LENGTH * k) = LENGTH * k.
Proof. unfold range_start. rewrite (N.mul_comm LENGTH k), N.div_mul by exact L_nz. reflexivity. Qed.

Lemma rstarts_S n : rstarts (S n) = rstarts n ++ [LENGTH * N.of_nat n].
Proof. unfold rstarts. rewrite seq_S, map_app. reflexivity. Qed.
Lemma rstarts_app m k : rstarts (m + k) = rstarts m ++ map (fun i => LENGTH * N.of_nat i) (seq m k).
Proof. unfold rstarts. rewrite seq_app, map_app. reflexivity. Qed.
Lemma roots_fn_S rootf bs n : roots_fn rootf bs (S n) = roots_fn rootf bs n ++ root_entry rootf bs (LENGTH * N.of_nat n).
Proof. unfold roots_fn. rewrite rstarts_S, flat_map_app. cbn [flat_map]. rewrite app_nil_r. reflexivity. Qed.
Lemma roots_fn_app rootf bs m k :
  roots_fn rootf bs (m + k) = roots_fn rootf bs m ++ flat_map (root_entry rootf bs) (map (fun i => LENGTH * N.of_nat i) (seq m k)).
Proof. unfold roots_fn. rewrite rstarts_app, flat_map_app. reflexivity. Qed.

Lemma roots_fn_bound rootf bs n : Forall (fun r => fst r < LENGTH * N.of_nat n) (roots_fn rootf bs n).
Proof.
  induction n as [|n IH]; [constructor|]. rewrite roots_fn_S. apply Forall_app. split.
  - eapply Forall_impl; [|exact IH]. intros r Hr; cbv beta in *. nia.
  - unfold root_entry. destruct (rootf _); [|constructor]. constructor; [cbn [fst]; pose proof L_nz; nia | constructor].
Qed.

(* entries depend on the blocks of their range only *)
Lemma roots_fn_ext rootf bs bs' n :
  (forall i, (i < n)%nat -> in_range bs (LENGTH * N.of_nat i) (LENGTH * N.of_nat i + LENGTH)
                           = in_range bs' (LENGTH * N.of_nat i) (LENGTH * N.of_nat i + LENGTH)) ->
  roots_fn rootf bs n = roots_fn rootf bs' n.
Proof.
  induction n as [|n IH]; intros H; [reflexivity|]. rewrite !roots_fn_S. f_equal.
  - apply IH. intros i Hi. apply H. lia.
  - unfold root_entry. rewrite (H n) by lia. reflexivity.
Qed.

Lemma between rootf bs m x n : (m <= x <= n)%nat -> roots_fn rootf bs m = roots_fn rootf bs n ->
  roots_fn rootf bs x = roots_fn rootf bs n.
Proof.
  intros [H1 H2] E.
  assert (Hx : exists a b, x = (m + a)%nat /\ n = (m + a + b)%nat) by (exists (x - m)%nat, (n - x)%nat; lia).
  destruct Hx as (a & b & -> & ->).
  rewrite (roots_fn_app rootf bs (m + a) b) in *. rewrite (roots_fn_app rootf bs m a) in *.
  rewrite <- app_assoc in E.
  rewrite <- (app_nil_r (roots_fn rootf bs m)) in E at 1. apply app_inv_head in E. symmetry in E.
  apply app_eq_nil in E as [E1 E2]. rewrite E1, E2, !app_nil_r. reflexivity.
Qed.

(* ---- roll-back ---- *)
Lemma filter_flat_map_entry rootf bs (P : N -> bool) l :
  filter (fun r => P (fst r)) (flat_map (root_entry rootf bs) l) = flat_map (root_entry rootf bs) (filter P l).
Proof.
  induction l as [|s l IH]; [reflexivity|]. cbn [flat_map filter]. rewrite filter_app, IH.
  destruct (P s) eqn:EP.
  - cbn [flat_map]. f_equal. unfold root_entry. destruct (rootf _); cbn [filter fst]; rewrite ?EP; reflexivity.
  - replace (filter (fun r => P (fst r)) (root_entry rootf bs s)) with (@nil (N * bt)); [reflexivity|].
    unfold root_entry. destruct (rootf _); cbn [filter fst]; rewrite ?EP; reflexivity.
Qed.
Lemma filter_rstarts n k :
  filter (fun s => s <? LENGTH * k) (rstarts n) = rstarts (Nat.min n (N.to_nat k)).
Proof.
  induction n as [|n IH]; [reflexivity|]. rewrite rstarts_S, filter_app, IH. cbn [filter].
  destruct (LENGTH * N.of_nat n <? LENGTH * k) eqn:E.
  - apply N.ltb_lt in E. assert (N.of_nat n < k) by (pose proof L_nz; nia).
    replace (Nat.min (S n) (N.to_nat k)) with (S (Nat.min n (N.to_nat k))) by lia.
    rewrite rstarts_S. f_equal. f_equal. f_equal. f_equal. lia.
  - apply N.ltb_ge in E. assert (k <= N.of_nat n) by (pose proof L_nz; nia).
    rewrite app_nil_r. f_equal. lia.
Qed.

Lemma roots_fn_rollback rootf p a q n :
  chain_ok (p ++ a :: q) ->
  filter (fun r => fst r <? range_start (num a)) (roots_fn rootf (p ++ a :: q) n)
  = roots_fn rootf (p ++ [a]) (Nat.min n (N.to_nat (num a / LENGTH))).
Proof.
  intros HC. unfold range_start. rewrite (N.mul_comm (num a / LENGTH)).
  unfold roots_fn at 1. rewrite (filter_flat_map_entry rootf _ (fun s => s <? LENGTH * (num a / LENGTH))).
  rewrite filter_rstarts. fold (roots_fn rootf (p ++ a :: q) (Nat.min n (N.to_nat (num a / LENGTH)))).
  apply roots_fn_ext. intros i Hi. apply in_range_prefix; [exact HC|].
  assert (N.of_nat i + 1 <= num a / LENGTH) by lia.
  pose proof (N.mul_div_le (num a) LENGTH L_nz). nia.
Qed.

Lemma highest_app_last l a : highest (l ++ [a]) = Some a. Proof. apply highest_snoc. Qed.

Lemma RI_rollback st st1 : chain_ok (blocks st) -> rb_of st st1 -> RI st -> RI st1.
Proof.
  intros HC [->|(p & a & q & Hb & ->)] HR; [exact HR|].
  destruct HR as (n & Hcov & Hr & Hl). rewrite Hb in *.
  exists (Nat.min n (N.to_nat (num a / LENGTH))). cbn [blocks roots lroots]. split; [|split].
  - destruct (Nat.eq_dec (Nat.min n (N.to_nat (num a / LENGTH))) O) as [E|E]; [left; exact E | right].
    exists a. split; [apply highest_snoc|].
    pose proof (N.mul_div_le (num a) LENGTH L_nz). nia.
  - rewrite Hr. apply roots_fn_rollback, HC.
  - rewrite Hl. apply roots_fn_rollback, HC.
Qed.

(* ---- forward storage ---- *)
Lemma in_range_ext_above bs q s b :
  chain_ok (bs ++ q) -> highest bs = Some b -> s + LENGTH <= num b + 1 ->
  in_range (bs ++ q) s (s + LENGTH) = in_range bs s (s + LENGTH).
Proof.
  intros HC Hh Hs. unfold in_range. rewrite filter_app.
  rewrite (filter_all_false _ q); [apply app_nil_r|].
  apply Forall_forall. intros y Hy.
  destruct bs as [|x0 r0] eqn:Eb; [discriminate|]. rewrite <- Eb in *.
  destruct (highest_nth bs ltac:(rewrite Eb; discriminate)) as [b' [Hh' Hn]]. rewrite Hh in Hh'. injection Hh' as <-.
  apply nth_error_In in Hn.
  destruct (ext_ok_later q bs (ext_ok_of_chain bs q HC) b y Hn Hy) as [Hlt _].
  destruct (num y <? s + LENGTH) eqn:E; [apply N.ltb_lt in E; lia | apply andb_false_r].
Qed.
Lemma covered_app bs q n : chain_ok (bs ++ q) -> covered bs n -> covered (bs ++ q) n.
Proof.
  intros HC [->|(b & Hh & Hle)]; [left; reflexivity | right].
  destruct (exists_last (l := bs ++ q)) as [l [z Ez]].
  { destruct bs; [discriminate | discriminate]. }
  exists z. split; [rewrite Ez; apply highest_snoc|].
  destruct q as [|y q'] eqn:Eq.
  - rewrite app_nil_r in Ez. rewrite Ez, highest_snoc in Hh. injection Hh as ->. exact Hle.
  - rewrite <- Eq in *. assert (Hz : In z q).
    { destruct (exists_last (l := q)) as [l' [z' Ez']]; [rewrite Eq; discriminate|].
      rewrite Ez', app_assoc in Ez. apply app_inj_tail in Ez as [_ ->]. rewrite Ez'. apply in_or_app. right. left. reflexivity. }
    destruct bs as [|x0 r0] eqn:Eb; [discriminate|]. rewrite <- Eb in *.
    destruct (highest_nth bs ltac:(rewrite Eb; discriminate)) as [b' [Hh' Hn]]. rewrite Hh in Hh'. injection Hh' as <-.
    apply nth_error_In in Hn.
    destruct (ext_ok_later q bs (ext_ok_of_chain bs q HC) b z Hn Hz) as [Hlt _]. lia.
Qed.
Lemma RI_forward st q : chain_ok (blocks st ++ q) -> RI st -> RI (set_blocks st (blocks st ++ q)).
Proof.
  intros HC (n & Hcov & Hr & Hl). exists n. cbn [set_blocks blocks roots lroots].
  assert (Hext : forall rootf, roots_fn rootf (blocks st) n = roots_fn rootf (blocks st ++ q) n).
  { intros rootf. destruct Hcov as [->|(b & Hh & Hle)]; [reflexivity|].
    apply roots_fn_ext. intros i Hi. symmetry. apply (in_range_ext_above _ _ _ b HC Hh). nia. }
  split; [apply covered_app; assumption|]. split; [rewrite Hr | rewrite Hl]; apply Hext.
Qed.

(* ---- BlockRangeImporter ---- *)
Definition hre (rs : list (N * bt)) : N := fold_right N.max 0 (map (fun r => fst r + LENGTH) rs).
Lemma hre_app a b : hre (a ++ b) = N.max (hre a) (hre b).
Proof. unfold hre. induction a as [|x a IH]; [cbn; lia|]. cbn [app map fold_right]. rewrite IH. lia. Qed.
Lemma hre_bound rootf bs n : hre (roots_fn rootf bs n) <= LENGTH * N.of_nat n.
Proof.
  induction n as [|n IH]; [cbn; lia|]. rewrite roots_fn_S, hre_app. unfold root_entry.
  destruct (rootf _); cbn [hre map fold_right fst]; nia.
Qed.
(* the ranges after the last stored root up to [n] have no root *)
Lemma lo_spec rootf bs n : exists m, (m <= n)%nat /\
  match highest_root_end (roots_fn rootf bs n) with Some e => range_start e | None => 0 end = LENGTH * N.of_nat m /\
  roots_fn rootf bs m = roots_fn rootf bs n.
Proof.
  induction n as [|n (m & Hm & Hlo & Heq)]; [exists O; split; [lia|]; split; reflexivity|].
  rewrite roots_fn_S. unfold root_entry. destruct (rootf _) as [r|] eqn:E.
  - exists (S n). split; [lia|]. split.
    + assert (Hh : highest_root_end (roots_fn rootf bs n ++ [(LENGTH * N.of_nat n, r)])
                   = Some (hre (roots_fn rootf bs n ++ [(LENGTH * N.of_nat n, r)]))).
      { unfold highest_root_end, hre. destruct (roots_fn rootf bs n); reflexivity. }
      rewrite Hh, hre_app. pose proof (hre_bound rootf bs n).
      replace (N.max _ _) with (LENGTH * N.of_nat (S n)) by (cbn [hre map fold_right fst]; nia).
      apply range_start_mul.
    + rewrite roots_fn_S. unfold root_entry. rewrite E. reflexivity.
  - rewrite app_nil_r. exists m. split; [lia|]. split; assumption.
Qed.

Lemma insert_root_last s r acc : Forall (fun x => fst x < s) acc -> insert_root (s, r) acc = acc ++ [(s, r)].
Proof.
  induction 1 as [|x q Hx _ IH]; [reflexivity|]. cbn [insert_root fst app].
  destruct (s =? fst x) eqn:E1; [apply N.eqb_eq in E1; lia|].
  destruct (s <? fst x) eqn:E2; [apply N.ltb_lt in E2; lia|]. rewrite IH. reflexivity.
Qed.
Lemma fold_insert rootf bs : forall k m rs, Forall (fun x => fst x < LENGTH * N.of_nat m) rs ->
  fold_left (fun acc s => match rootf (in_range bs s (s + LENGTH)) with
                          | Some r => insert_root (s, r) acc | None => acc end)
            (map (fun i => LENGTH * N.of_nat i) (seq m k)) rs
  = rs ++ flat_map (root_entry rootf bs) (map (fun i => LENGTH * N.of_nat i) (seq m k)).
Proof.
  induction k as [|k IH]; intros m rs H; [cbn; rewrite app_nil_r; reflexivity|].
  cbn [seq map fold_left flat_map].
  destruct (rootf (in_range bs (LENGTH * N.of_nat m) (LENGTH * N.of_nat m + LENGTH))) as [r|] eqn:E.
  - replace (root_entry rootf bs (LENGTH * N.of_nat m)) with [(LENGTH * N.of_nat m, r)]
      by (unfold root_entry; rewrite E; reflexivity).
    rewrite (insert_root_last _ r rs H). rewrite IH.
    + rewrite <- app_assoc. reflexivity.
    + apply Forall_app. split.
      * eapply Forall_impl; [|exact H]. intros x Hx; cbv beta in *. nia.
      * constructor; [cbn [fst]; pose proof L_nz; nia | constructor].
  - replace (root_entry rootf bs (LENGTH * N.of_nat m)) with (@nil (N * bt))
      by (unfold root_entry; rewrite E; reflexivity).
    rewrite IH; [reflexivity|]. eapply Forall_impl; [|exact H]. intros x Hx; cbv beta in *. nia.
Qed.

Lemma map_seq_shift m : forall k a,
  map (fun i => N.of_nat m * LENGTH + LENGTH * N.of_nat i) (seq a k) = map (fun i => LENGTH * N.of_nat i) (seq (m + a) k).
Proof.
  induction k as [|k IH]; intros a; [reflexivity|]. cbn [seq map]. f_equal; [nia|].
  rewrite IH. rewrite Nat.add_succ_r. reflexivity.
Qed.
Lemma range_starts_mul m t :
  range_starts (LENGTH * N.of_nat m) t = map (fun i => LENGTH * N.of_nat i) (seq m (ranges_upto t - m)).
Proof.
  unfold range_starts, seq_start, ranges_upto.
  rewrite (N.mul_comm LENGTH (N.of_nat m)), N.mod_mul by exact L_nz. rewrite N.eqb_refl.
  unfold range_start.
  replace ((t + 1) / LENGTH * LENGTH - N.of_nat m * LENGTH) with (((t + 1) / LENGTH - N.of_nat m) * LENGTH) by nia.
  rewrite N.div_mul by exact L_nz.
  replace (N.to_nat ((t + 1) / LENGTH - N.of_nat m)) with (N.to_nat ((t + 1) / LENGTH) - m)%nat by lia.
  rewrite map_seq_shift. rewrite Nat.add_0_r. reflexivity.
Qed.

Lemma compute_roots_fn rootf bs n t :
  compute_roots rootf bs (roots_fn rootf bs n) t = roots_fn rootf bs (Nat.max n (ranges_upto t)).
Proof.
  unfold compute_roots. destruct (lo_spec rootf bs n) as (m & Hm & Hlo & Heq). rewrite Hlo.
  rewrite range_starts_mul. rewrite <- Heq at 1. rewrite (fold_insert rootf bs _ m) by apply roots_fn_bound.
  rewrite <- roots_fn_app.
  destruct (Nat.le_ge_cases n (ranges_upto t)) as [H|H].
  - f_equal. lia.
  - replace (Nat.max n (ranges_upto t)) with n by lia. apply (between rootf bs m); [lia | exact Heq].
Qed.

Lemma roots_fn_nil rootf n : rootf [] = None -> roots_fn rootf [] n = [].
Proof.
  intros H. induction n as [|n IH]; [reflexivity|]. rewrite roots_fn_S, IH. unfold root_entry, in_range. cbn [filter].
  rewrite H. reflexivity.
Qed.


Lemma RI_compute st t : reaches (blocks st) t -> RI st -> RI (run_roots t st).
Proof.
  intros Hreach (n & Hcov & Hr & Hl). unfold run_roots. rewrite Hr, Hl, !compute_roots_fn.
  destruct Hreach as [E|(b & Hh & Ht)].
  - exists O. cbn [blocks roots lroots]. rewrite E. split; [left; reflexivity|].
    split; [apply roots_fn_nil | apply roots_fn_nil]; reflexivity.
  - exists (Nat.max n (ranges_upto t)). cbn [blocks roots lroots]. split; [|split; reflexivity].
    right. exists b. split; [exact Hh|].
    assert (LENGTH * N.of_nat (ranges_upto t) <= num b + 1).
    { unfold ranges_upto. rewrite N2Nat.id. pose proof (N.mul_div_le (t + 1) LENGTH L_nz). lia. }
    destruct Hcov as [->|(b' & Hh' & Hle)]; [cbn [Nat.max]; exact H|].
    rewrite Hh in Hh'. injection Hh' as <-.
    destruct (Nat.le_ge_cases n (ranges_upto t)); [replace (Nat.max n (ranges_upto t)) with (ranges_upto t) by lia; exact H
      | replace (Nat.max n (ranges_upto t)) with n by lia; exact Hle].
Qed.

(* when every stored block is at or below [t], the tables after the run are exactly those of
   the ranges wholly at or below [t] *)
Lemma RI_compute_exact st t :
  Forall (fun b => num b <= t) (blocks st) -> RI st ->
  roots (run_roots t st) = roots_fn root_new (blocks st) (ranges_upto t) /\
  lroots (run_roots t st) = roots_fn root_legacy (blocks st) (ranges_upto t).
Proof.
  intros Hle (n & Hcov & Hr & Hl). unfold run_roots. cbn [roots lroots]. rewrite Hr, Hl, !compute_roots_fn.
  assert (Hn : (n <= ranges_upto t)%nat).
  { destruct Hcov as [->|(b & Hh & Hb)]; [lia|].
    destruct (blocks st) as [|x0 r0] eqn:Eb; [discriminate|]. rewrite <- Eb in *.
    destruct (highest_nth (blocks st) ltac:(rewrite Eb; discriminate)) as [b' [Hh' Hnb]]. rewrite Hh in Hh'. injection Hh' as <-.
    apply nth_error_In in Hnb. rewrite Forall_forall in Hle. specialize (Hle b Hnb).
    unfold ranges_upto.
    assert (N.of_nat n <= (t + 1) / LENGTH); [|lia].
    apply N.div_le_lower_bound; [exact L_nz | lia]. }
  replace (Nat.max n (ranges_upto t)) with (ranges_upto t) by lia. split; reflexivity.
Qed.
