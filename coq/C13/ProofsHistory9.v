(* C13/ProofsHistory9.v — imports during which the chain changes; the invariants along any history. *)
From Coq Require Import Lia.
From MV Require Import Base.Prelude Base.SymHash Gen.Consts C13.Model C13.Spec C13.Proofs.
From MV Require Import C13.SpecHistory C13.ProofsHistory1 C13.ProofsHistory2 C13.ProofsHistory3 C13.ProofsHistory4 C13.ProofsHistory5 C13.ProofsHistory6 C13.ProofsHistory7 C13.ProofsHistory8.
Open Scope N_scope.

Lemma intersect_with_pending sv d p : srv_intersect (with_pending sv d) p = with_pending (srv_intersect sv p) d.
Proof.
  destruct sv as [c p0 b a pe]. unfold srv_intersect, with_pending. cbn [agency chain pending ptr back].
  destruct a; [|reflexivity].
  destruct (if point_eqb p origin then Some O else index_of_point c p O); reflexivity.
Qed.

(* a roll-back into the common prefix whose slot is the slot of the highest stored block is a
   roll-back to that block: nothing to undo *)
Lemma echo_initial C bs j ptr1 :
  chain_ok bs -> Forall (fun b => 0 < slot b) bs -> (j <= length bs)%nat -> firstn j bs = firstn j C ->
  (ptr1 <= j)%nat -> fst (point_at C ptr1) = fst (fromp_of bs) -> ptr1 = length bs.
Proof.
  intros HS HSpos Hj Hpre Hp Eecho. pose proof (prefix_len_le _ _ j Hj Hpre) as HjC.
  destruct ptr1 as [|i'].
  - cbn [point_at origin fst] in Eecho. unfold fromp_of in Eecho.
    destruct bs as [|x r] eqn:Eb; [reflexivity|].
    destruct (highest_nth (x :: r) ltac:(discriminate)) as [b [Hh Hn]]. rewrite Hh in Eecho.
    apply nth_error_In in Hn. rewrite Forall_forall in HSpos. specialize (HSpos b Hn). cbn [point_of fst] in Eecho. lia.
  - destruct (nth_error C i') as [a|] eqn:Ha; [|apply nth_error_None in Ha; lia].
    assert (HaS : nth_error bs i' = Some a).
    { rewrite <- (nth_error_firstn_lt bs j i') by lia. rewrite Hpre.
      rewrite nth_error_firstn_lt by lia. exact Ha. }
    assert (Hne : bs <> []) by (intros E; rewrite E in HaS; destruct i'; discriminate).
    destruct (highest_nth bs Hne) as [b [Hh Hn]].
    unfold point_at in Eecho. rewrite Ha in Eecho. unfold fromp_of in Eecho. rewrite Hh in Eecho.
    cbn [point_of fst] in Eecho.
    pose proof (chain_slot_index bs _ _ a b HS HaS Hn Eecho).
    assert (0 < length bs)%nat by (destruct bs; [contradiction | cbn [length]; lia]). lia.
Qed.

Lemma mutates_inv nd later : forall ms seen sv, Inv seen nd sv -> muts_ok seen (chain sv) (ms ++ later) ->
  exists seen', Inv seen' nd (fold_left mutate ms sv) /\ muts_ok seen' (chain (fold_left mutate ms sv)) later.
Proof.
  induction ms as [|[keep bs] ms IH]; intros seen sv HI Hm.
  - exists seen. split; assumption.
  - cbn [app muts_ok] in Hm. destruct Hm as (HW & Hf & Hm).
    destruct (mutate_inv seen nd sv keep bs HI HW Hf) as [HI' Hch].
    cbn [fold_left]. apply (IH _ _ HI'). rewrite Hch. exact Hm.
Qed.

Lemma reaches_final C' k t (ag : bool) :
  wf_chain C' -> (k <= length C')%nat ->
  (ag = true -> exists b, nth_error C' k = Some b /\ t < num b) -> (ag = false -> k = length C') ->
  tip_ge C' t -> reaches (firstn k C') t.
Proof.
  intros [HC [Hcons _]] Hk H1 H0 Ht. destruct k as [|k]; [left; reflexivity | right].
  destruct (nth_error C' k) as [bk|] eqn:Hbk; [|apply nth_error_None in Hbk; lia].
  exists bk. split; [apply highest_firstn; exact Hbk|]. destruct ag.
  - destruct (H1 eq_refl) as [b [Hb Hlt]]. specialize (Hcons k bk b Hbk Hb). lia.
  - specialize (H0 eq_refl). unfold tip_ge in Ht.
    destruct (highest_nth C') as [b' [Hh' Hn']]; [intros E; rewrite E in Hk; cbn [length] in Hk; lia|].
    rewrite Hh' in Ht. rewrite <- H0 in Hn'. replace (S k - 1)%nat with k in Hn' by lia.
    rewrite Hbk in Hn'. injection Hn' as ->. exact Ht.
Qed.

Lemma pinned_RI st : pinned st -> RI st.
Proof.
  intros [Hr Hl]. exists (ranges_upto (top_of (blocks st))). split; [|split; assumption].
  unfold top_of. destruct (highest (blocks st)) as [b|] eqn:Eh; [right | left; reflexivity].
  exists b. split; [exact Eh|]. unfold ranges_upto. rewrite N2Nat.id.
  apply (N.mul_div_le (num b + 1) LENGTH L_nz).
Qed.
Lemma pinned_exact st t :
  RI st -> Forall (fun b => num b <= t) (blocks st) -> reaches (blocks st) t -> pinned (run_roots t st).
Proof.
  intros HR Hle Hre. destruct (RI_compute_exact st t Hle HR) as [Hr Hl]. unfold pinned. rewrite Hr, Hl.
  cbn [run_roots blocks]. destruct Hre as [E|(b & Hh & Hb)].
  - rewrite E. rewrite !roots_fn_nil by reflexivity. split; reflexivity.
  - unfold top_of. rewrite Hh.
    assert (num b = t); [|subst t; split; reflexivity].
    destruct (blocks st) as [|x0 r0] eqn:Eb; [discriminate|]. rewrite <- Eb in *.
    destruct (highest_nth (blocks st) ltac:(rewrite Eb; discriminate)) as [b' [Hh' Hnb]]. rewrite Hh in Hh'. injection Hh' as <-.
    apply nth_error_In in Hnb. rewrite Forall_forall in Hle. specialize (Hle b Hnb). lia.
Qed.
Lemma pinned_uptodate st t b : pinned st -> highest (blocks st) = Some b -> t <= num b -> run_roots t st = st.
Proof.
  intros [Hr Hl] Hh Ht. unfold run_roots. unfold top_of in Hr, Hl. rewrite Hh in Hr, Hl.
  assert (Hn : Nat.max (ranges_upto (num b)) (ranges_upto t) = ranges_upto (num b)).
  { unfold ranges_upto. assert ((t + 1) / LENGTH <= (num b + 1) / LENGTH) by (apply N.div_le_mono; [exact L_nz | lia]). lia. }
  destruct st as [bs rs ls]. cbn [blocks roots lroots] in *. rewrite Hr at 1. rewrite Hl at 1.
  rewrite !compute_roots_fn, Hn, <- Hr, <- Hl. reflexivity.
Qed.

Lemma with_pending_twice sv d : pending sv = [] -> with_pending (with_pending sv d) [] = sv.
Proof. destruct sv. cbn. intros ->. reflexivity. Qed.

Lemma import_gen later seen max t nd sv0 during :
  Inv seen nd sv0 -> muts_ok seen (chain sv0) (map snd during ++ later) ->
  echo_free (fst (import_from nd)) (chain sv0) (map snd during) ->
  let r := import max t nd (with_pending sv0 during) in
  let svf := fold_left mutate (map snd (pending (i_srv r))) (with_pending (i_srv r) []) in
  i_deep r = false ->
  i_ok r = true /\ i_deep r = false /\
  (exists seen', Inv seen' (i_node r) svf /\ muts_ok seen' (chain svf) later) /\
  (pinned (n_store nd) ->
     (targets_during t (chain sv0) (map snd during) -> pinned (n_store (i_node r))) /\
     (i_polled r = false -> n_store (i_node r) = n_store nd)).
Proof.
  intros HI Hm He. pose proof HI as (Hpend & HW & HS & HSpos & HinC & HinS & Hcur & j & Hj & Hpre & Hdead & Hbt & Hbf).
  assert (Himp : import_from nd = fromp_of (blocks (n_store nd))).
  { unfold import_from. destruct Hcur as [->| ->]; reflexivity. }
  rewrite Himp in He.
  unfold import. set (st := n_store nd) in *. set (C := chain sv0) in *.
  assert (Hch0 : chain (with_pending sv0 during) = C) by reflexivity.
  destruct (match highest (blocks st) with Some b => t <=? num b | None => false end) eqn:Eup; cbv zeta.
  - (* up to date: the pending mutations all happen after the import *)
    cbn [i_ok i_node i_srv i_deep i_polled n_store n_cursor]. intros _.
    split; [reflexivity|]. split; [reflexivity|]. split.
    + cbn [pending with_pending]. rewrite (with_pending_twice sv0 during Hpend).
      apply (mutates_inv _ later (map snd during) seen sv0); [|exact Hm].
      unfold Inv. cbn [n_store n_cursor blocks]. fold st. fold C.
      split; [exact Hpend|]. split; [exact HW|]. split; [exact HS|]. split; [exact HSpos|].
      split; [exact HinC|]. split; [exact HinS|]. split; [exact Hcur|].
      exists j. repeat split; try assumption; try (apply Hbf; assumption).
    + intros HP. destruct (highest (blocks st)) as [hb|] eqn:Eh; [|discriminate]. apply N.leb_le in Eup.
      pose proof (pinned_uptodate st t hb HP Eh Eup) as Hsame. unfold run_roots in Hsame.
      split; [intros _; rewrite Hsame; exact HP | intros _; exact Hsame].
  - (* the importer polls *)
    assert (Hfrom : match match n_cursor nd with Some p => Some p | None => option_map point_of (highest (blocks st)) end
                    with Some p => p | None => origin end = fromp_of (blocks st)).
    { destruct Hcur as [->| ->]; [|reflexivity]. unfold fromp_of. destruct (highest (blocks st)); reflexivity. }
    rewrite Hfrom. rewrite intersect_with_pending. rewrite (srv_eta sv0 Hpend). fold C.
    pose proof HW as [HC [Hcons Hpos]].
    destruct (intersect_inv C (ptr sv0) (back sv0) (agency sv0) (blocks st) j HC HS HSpos Hj Hpre Hdead Hbt)
      as (ptr1 & bk1 & ag1 & Hint & Hbt1 & Hbf1).
    { intros Hb. destruct (Hbf Hb) as [H1 [_ H3]]. split; assumption. }
    rewrite Hint.
    assert (Hle : Forall (fun b => num b <= t) (blocks st)).
    { destruct (highest (blocks st)) as [hb|] eqn:Eh.
      - apply N.leb_gt in Eup. eapply Forall_impl; [|exact (chain_le_highest _ hb HS Eh)]. intros a Ha; cbv beta in *; lia.
      - destruct (blocks st) as [|x r] eqn:Eb; [constructor|].
        destruct (highest_nth (x :: r) ltac:(discriminate)) as [b [Hh _]]. rewrite Hh in Eh. discriminate. }
    set (sv1 := with_pending (mk_srv C ptr1 bk1 ag1) during).
    assert (Hfuel : fuel_of sv1 = (2 * (length C + pend_bs during + length during) + 8)%nat) by reflexivity.
    rewrite Hfuel.
    assert (HD : DI later seen (fst (fromp_of (blocks st))) t st [] sv1).
    { unfold DI. cbn [sv1 with_pending mk_srv chain ptr back agency pending]. rewrite app_nil_r.
      split; [exact HW|]. split; [exact HS|]. split; [exact HSpos|]. split; [exact HinC|]. split; [exact HinS|].
      split; [exact Hm|]. split; [exact He|]. split; [exact Hle|]. split; [constructor|].
      exists j. split; [exact Hj|]. split; [exact Hpre|]. split; [exact Hdead|]. split.
      - intros Hb. specialize (Hbt1 Hb). split; [exact Hbt1|].
        intros E. exact (echo_initial C (blocks st) j ptr1 HS HSpos Hj Hpre Hbt1 E).
      - intros Hb. destruct (Hbf1 Hb) as [H1 H2]. split; [exact H1 | rewrite H2; exact H1]. }
    pose proof (drain_general later (fst (fromp_of (blocks st))) t max (2 * (length C + pend_bs during + length during) + 8)
                  st [] sv1 None seen (blocks st) HD (or_introl (conj eq_refl (app_nil_r _)))) as HG.
    set (d := drain (2 * (length C + pend_bs during + length during) + 8) (fst (fromp_of (blocks st))) t max st [] sv1 None false) in *.
    intros Hdeep.
    assert (Hdd : d_deep d = false) by (destruct (d_ok d); exact Hdeep).
    assert (Hphi : (phi sv1 [] + 2 <= 2 * (length C + pend_bs during + length during) + 8)%nat).
    { unfold phi. cbn [sv1 with_pending mk_srv chain ptr back agency pending]. destruct bk1; lia. }
    destruct (HG Hphi Hdd) as (Hok & seen' & k & HW' & HinC' & Hm' & Hk & Hb' & Hlek & Hbk & Hag1 & Hag0 & Hlast & HRI & Htip).
    cbv zeta in *. rewrite Hok. cbn [i_ok i_node i_srv i_deep i_polled n_store n_cursor].
    set (C' := chain (d_srv d)) in *.
    split; [reflexivity|]. split; [exact Hdd|]. split.
    + apply (mutates_inv _ later (map snd (pending (d_srv d))) seen' (with_pending (d_srv d) [])); [|exact Hm'].
      pose proof HW' as [HC' [Hcons' Hpos']].
      assert (Hlenk : length (firstn k C') = k) by (rewrite firstn_length; lia).
      unfold Inv. cbn [n_store n_cursor blocks run_roots with_pending chain ptr back agency pending]. rewrite Hb'. fold C'.
      split; [reflexivity|]. split; [exact HW'|]. split; [apply chain_ok_firstn; exact HC'|].
      split. { apply Forall_forall. intros b Hb. rewrite Forall_forall in Hpos'. apply Hpos'. eapply in_firstn; exact Hb. }
      split; [exact HinC'|].
      split. { intros x Hx. apply HinC'. apply in_map_iff in Hx as [b [<- Hb]]. apply in_map. eapply in_firstn; exact Hb. }
      split.
      { destruct Hlast as [[Hl Hst]| Hl]; rewrite Hl.
        - rewrite Hb' in Hst. rewrite Hst. exact Hcur.
        - right. rewrite Hb'. reflexivity. }
      exists k. rewrite Hlenk. split; [lia|]. split; [rewrite firstn_firstn; f_equal; lia|].
      split. { intros b Hb. rewrite <- Hlenk in Hb at 1. rewrite skipn_all in Hb. destruct Hb. }
      split; [rewrite Hbk; discriminate|]. intros _. split; [reflexivity|].
      destruct (agency (d_srv d)) eqn:Eag.
      * destruct (Hag1 eq_refl) as [Hp _]. rewrite Hp. split; [lia | discriminate].
      * destruct (Hag0 eq_refl) as [Hp _]. rewrite Hp. split; [lia | reflexivity].
    + intros HP. split; [|discriminate]. intros Ht. change (pinned (run_roots t (d_store d))).
      apply pinned_exact; [apply HRI, pinned_RI, HP | rewrite Hb'; exact Hlek |].
      rewrite Hb'. apply (reaches_final C' k t (agency (d_srv d)) HW' Hk).
      * intros E. destruct (Hag1 E) as [_ H]. exact H.
      * intros E. destruct (Hag0 E) as [_ H]. exact H.
      * apply Htip. exact Ht.
Qed.

Lemma muts_ok_app_l : forall ms seen c later, muts_ok seen c (ms ++ later) -> muts_ok seen c ms.
Proof.
  induction ms as [|[keep bs] ms IH]; intros seen c later H; [exact I|].
  cbn [app muts_ok] in *. destruct H as [H1 [H2 H3]]. split; [exact H1|]. split; [exact H2|]. exact (IH _ _ _ H3).
Qed.

(* ---- one event of any kind ---- *)
Lemma step_gen max seen w e later :
  WInv seen w -> muts_ok seen (chain (w_srv w)) (muts_of_event e ++ later) ->
  (match e with EImport t during => echo_free (fst (import_from (w_node w))) (chain (w_srv w)) (map snd during)
              | _ => True end) ->
  w_deep (step max w e) = false ->
  exists seen', WInv seen' (step max w e) /\ muts_ok seen' (chain (w_srv (step max w e))) later /\
    (Forall (eq true) (w_oks w) -> Forall (eq true) (w_oks (step max w e))) /\
    (pinned (n_store (w_node w)) ->
     (match e with EImport t during => targets_during t (chain (w_srv w)) (map snd during) | _ => True end) ->
     pinned (n_store (w_node (step max w e)))).
Proof.
  intros HI Hm He Hd.
  destruct e as [m|t during| |].
  - destruct (step_inv max seen w (EMut m) HI (muts_ok_app_l _ _ _ _ Hm) I (or_intror Hd)) as (seen' & HI' & Hms & Hoks & _).
    exists seen'. split; [exact HI'|]. split; [exact (Hms _ Hm)|]. split; [exact Hoks|]. intros HR _. exact HR.
  - unfold step in *. cbn [w_deep] in Hd. apply orb_false_iff in Hd as [_ Hd].
    destruct (import_gen later seen max t (w_node w) (w_srv w) during HI Hm He Hd) as (Hok & _ & (seen' & HI' & Hm') & HR').
    cbv zeta in *. exists seen'. cbn [w_node w_srv w_oks].
    split; [exact HI'|]. split; [exact Hm'|]. split.
    + intros H. apply Forall_app. split; [exact H|]. constructor; [symmetry; exact Hok | constructor].
    + intros HP Ht. destruct (HR' HP) as [H _]. exact (H Ht).
  - destruct (step_inv max seen w ERestart HI I I (or_intror Hd)) as (seen' & HI' & Hms & Hoks & _).
    exists seen'. split; [exact HI'|]. split; [exact (Hms _ Hm)|]. split; [exact Hoks|]. intros HR _. exact HR.
  - destruct (step_inv max seen w EDisconnect HI I I (or_intror Hd)) as (seen' & HI' & Hms & Hoks & _).
    exists seen'. split; [exact HI'|]. split; [exact (Hms _ Hm)|]. split; [exact Hoks|]. intros HR _. exact HR.
Qed.

Lemma run_gen max : forall h seen w,
  WInv seen w -> pinned (n_store (w_node w)) ->
  muts_ok seen (chain (w_srv w)) (flat_map muts_of_event h) -> run_ok max w h ->
  w_deep (fold_left (step max) h w) = false ->
  exists seen', WInv seen' (fold_left (step max) h w) /\ pinned (n_store (w_node (fold_left (step max) h w))) /\
    (Forall (eq true) (w_oks w) -> Forall (eq true) (w_oks (fold_left (step max) h w))).
Proof.
  induction h as [|e h IH]; intros seen w HI HR Hm Ht Hd.
  - exists seen. split; [exact HI|]. split; [exact HR | intros H; exact H].
  - cbn [fold_left flat_map run_ok] in *. destruct Ht as [Hte Hth].
    assert (Hde : w_deep (step max w e) = false).
    { destruct (w_deep (step max w e)) eqn:E; [|reflexivity]. rewrite (deep_sticky max h _ E) in Hd. discriminate. }
    assert (He : match e with EImport t during => echo_free (fst (import_from (w_node w))) (chain (w_srv w)) (map snd during)
                            | _ => True end) by (destruct e; try exact I; destruct Hte as [_ H]; exact H).
    assert (Htg : match e with EImport t during => targets_during t (chain (w_srv w)) (map snd during) | _ => True end)
      by (destruct e; try exact I; destruct Hte as [H _]; exact H).
    destruct (step_gen max seen w e (flat_map muts_of_event h) HI Hm He Hde) as (seen' & HI' & Hm' & Hoks & HR').
    destruct (IH seen' (step max w e) HI' (HR' HR Htg) Hm' Hth Hd) as (seen'' & HI'' & HR'' & Hoks').
    exists seen''. split; [exact HI''|]. split; [exact HR''|]. intros H. apply Hoks', Hoks, H.
Qed.

Lemma final_import_store max seen w0 t :
  WInv seen w0 -> RI (n_store (w_node w0)) ->
  let w := step max w0 (EImport t []) in
  w_deep w = false -> polls (n_store (w_node w0)) t ->
  n_store (w_node w) = scratch max (chain (w_srv w)) t.
Proof.
  intros HI HR. cbv zeta. intros Hd Hp. pose proof HI as (Hpend & _).
  assert (Hd' : blocks (n_store (w_node w0)) = [] \/ i_deep (import max t (w_node w0) (w_srv w0)) = false).
  { right. unfold step in Hd. rewrite (with_pending_nil _ Hpend) in Hd. cbn [w_deep] in Hd.
    apply orb_false_iff in Hd as [_ H]. exact H. }
  destruct (import_inv seen max t (w_node w0) (w_srv w0) HI Hd') as (_ & _ & HI' & Hch & _ & _ & Hpol & _).
  pose proof HI' as (Hpend' & HW' & _).
  rewrite (step_import max t w0 Hpend Hpend'). cbv zeta. cbn [w_node w_srv].
  assert (Hpt : i_polled (import max t (w_node w0) (w_srv w0)) = true).
  { rewrite Hpol. unfold polls in Hp. destruct (highest (blocks (n_store (w_node w0)))) as [b|]; [|reflexivity].
    apply negb_true_iff. apply N.leb_gt. exact Hp. }
  rewrite (import_store_exact seen max t (w_node w0) (w_srv w0) HI HR Hd' Hpt).
  rewrite (scratch_store max _ t HW'). rewrite Hch. reflexivity.
Qed.

Lemma pinned_empty : pinned empty.
Proof. split; reflexivity. Qed.

Lemma top_of_le bs t : Forall (fun b => num b <= t) bs -> top_of bs <= t.
Proof.
  intros H. unfold top_of. destruct (highest bs) as [b|] eqn:Eh; [|lia].
  destruct bs as [|x0 r0] eqn:Eb; [discriminate|]. rewrite <- Eb in *.
  destruct (highest_nth bs ltac:(rewrite Eb; discriminate)) as [b' [Hh' Hnb]]. rewrite Eh in Hh'. injection Hh' as <-.
  apply nth_error_In in Hnb. rewrite Forall_forall in H. exact (H b Hnb).
Qed.

(* the final import does not poll and the store is not stale: the store is the from-scratch store
   for the number of the highest stored block *)
Lemma final_import_nonstale max seen w0 t :
  WInv seen w0 -> pinned (n_store (w_node w0)) -> Forall (eq true) (w_oks w0) ->
  let w := step max w0 (EImport t []) in
  w_deep w = false -> w_stale w = false ->
  n_store (w_node w) = scratch max (chain (w_srv w)) (N.max t (top_of (blocks (n_store (w_node w))))).
Proof.
  intros HI HP Hoks. cbv zeta. intros Hd Hst.
  destruct (final_import max seen w0 t HI Hoks Hd) as (_ & HW & Hpolls & Hns). cbv zeta in *.
  destruct (Hns Hst) as [[k Hk] _].
  pose proof HI as (Hpend & _).
  assert (Hdi : i_deep (import max t (w_node w0) (w_srv w0)) = false).
  { unfold step in Hd. rewrite (with_pending_nil _ Hpend) in Hd. cbn [w_deep] in Hd.
    apply orb_false_iff in Hd as [_ H]. exact H. }
  destruct (highest (blocks (n_store (w_node w0)))) as [hb|] eqn:Eh.
  2:{ (* empty table: the import polls *)
      assert (Hp : polls (n_store (w_node w0)) t) by (unfold polls; rewrite Eh; exact I).
      rewrite (final_import_store max seen w0 t HI (pinned_RI _ HP) Hd Hp).
      destruct (Hpolls Hp) as [Hb _]. f_equal.
      assert (top_of (blocks (n_store (w_node (step max w0 (EImport t []))))) <= t).
      { apply top_of_le. rewrite Hb. apply Forall_forall. intros b Hb'. apply filter_In in Hb' as [_ Hb'].
        apply N.leb_le. exact Hb'. }
      rewrite (final_import_store max seen w0 t HI (pinned_RI _ HP) Hd Hp) in H. lia. }
  destruct (N.ltb_spec (num hb) t) as [Hlt|Hge].
  - assert (Hp : polls (n_store (w_node w0)) t) by (unfold polls; rewrite Eh; exact Hlt).
    rewrite (final_import_store max seen w0 t HI (pinned_RI _ HP) Hd Hp).
    destruct (Hpolls Hp) as [Hb _]. f_equal.
    assert (top_of (blocks (n_store (w_node (step max w0 (EImport t []))))) <= t).
    { apply top_of_le. rewrite Hb. apply Forall_forall. intros b Hb'. apply filter_In in Hb' as [_ Hb'].
      apply N.leb_le. exact Hb'. }
    rewrite (final_import_store max seen w0 t HI (pinned_RI _ HP) Hd Hp) in H. lia.
  - (* up to date: nothing changes *)
    assert (Hm0 : muts_ok seen (chain (w_srv w0)) (map snd (@nil (nat * mutation)) ++ [])) by exact I.
    pose proof (import_gen [] seen max t (w_node w0) (w_srv w0) [] HI Hm0 I) as HG. cbv zeta in HG.
    rewrite (with_pending_nil _ Hpend) in HG.
    destruct (HG Hdi) as (_ & _ & _ & HPP). destruct (HPP HP) as [_ Hsame].
    destruct (import_inv seen max t (w_node w0) (w_srv w0) HI (or_intror Hdi)) as (_ & _ & HI' & Hch & _ & _ & Hpol & _).
    pose proof HI' as (Hpend' & _).
    rewrite (step_import max t w0 Hpend Hpend') in *. cbv zeta in *. cbn [w_node w_srv] in *.
    assert (Hnp : i_polled (import max t (w_node w0) (w_srv w0)) = false).
    { rewrite Hpol, Eh. apply negb_false_iff. apply N.leb_le. exact Hge. }
    specialize (Hsame Hnp). rewrite Hsame in *.
    set (st := n_store (w_node w0)) in *. set (C := chain (i_srv (import max t (w_node w0) (w_srv w0)))) in *.
    unfold top_of. rewrite Eh. replace (N.max t (num hb)) with (num hb) by lia.
    rewrite (scratch_store max C _ HW). unfold store_of. cbv zeta.
    pose proof HI as (_ & _ & HS & _). fold st in HS.
    assert (Hfil : filter (fun b => num b <=? num hb) C = blocks st).
    { destruct HW as [HC _].
      assert (Hk' : blocks st = firstn (Nat.min k (length C)) C).
      { rewrite Hk. destruct (Nat.le_ge_cases k (length C)); [f_equal; lia|].
        rewrite firstn_all2 by lia. replace (Nat.min k (length C)) with (length C) by lia. symmetry. apply firstn_all. }
      rewrite Hk'. apply filter_prefix; [exact HC | rewrite <- Hk'; exact (chain_le_highest _ hb HS Eh) |].
      set (k' := Nat.min k (length C)) in *.
      destruct (Nat.eq_dec k' (length C)) as [E|E]; [left; exact E | right].
      destruct (nth_error C k') as [y|] eqn:Hy; [|apply nth_error_None in Hy; unfold k' in *; lia].
      exists y. split; [reflexivity|].
      assert (Hlen : length (blocks st) = k') by (rewrite Hk', firstn_length; unfold k'; lia).
      destruct (highest_nth (blocks st)) as [b' [Hh' Hnb]]; [intros E'; rewrite E' in Eh; discriminate|].
      rewrite Eh in Hh'. injection Hh' as <-.
      assert (Hk1 : (0 < k')%nat) by (destruct (blocks st); [discriminate | cbn [length] in Hlen; lia]).
      assert (HbC : nth_error C (k' - 1) = Some hb).
      { rewrite <- (nth_error_firstn_lt C k') by lia. rewrite <- Hk', <- Hlen. exact Hnb. }
      destruct (chain_order C (k' - 1) k' hb y HC HbC Hy ltac:(lia)) as [H _]. exact H. }
    rewrite Hfil. destruct HP as [Hr Hl]. unfold top_of in Hr, Hl. rewrite Eh in Hr, Hl.
    destruct st as [bs rs ls]. cbn [blocks roots lroots] in *. rewrite <- Hr, <- Hl. reflexivity.
Qed.

(* ---- C13_converge: any history outside the known classes ---- *)
Theorem converge_full max c0 h t :
  hist_ok c0 h -> run_ok max (world0 c0) h ->
  let w0 := run_history max c0 h in
  let w := run_history max c0 (h ++ [EImport t []]) in
  let C := chain (w_srv w) in
  let bs := blocks (n_store (w_node w)) in
  w_deep w = false ->
  Forall (eq true) (w_oks w) /\ wf_chain C /\
  (polls (n_store (w_node w0)) t -> n_store (w_node w) = scratch max C t /\ bs = filter (fun b => num b <=? t) C) /\
  (w_stale w = false ->
     n_store (w_node w) = scratch max C (N.max t (top_of bs)) /\
     (exists k, bs = firstn k C) /\ filter (fun b => num b <=? t) bs = filter (fun b => num b <=? t) C) /\
  pinned (n_store (w_node w0)).
Proof.
  intros [HW0 Hm] Hr. cbv zeta. unfold run_history. rewrite fold_left_app. cbn [fold_left].
  set (w0 := fold_left (step max) h (world0 c0)). intros Hd.
  assert (Hd0 : w_deep w0 = false).
  { destruct (w_deep w0) eqn:E; [|reflexivity].
    pose proof (deep_sticky max [EImport t []] w0 E) as X. cbn [fold_left] in X. rewrite X in Hd. discriminate. }
  destruct (run_gen max h (map bh c0) (world0 c0) (world0_inv c0 HW0) pinned_empty Hm Hr Hd0) as (seen & HI & HP & Hoks).
  specialize (Hoks (Forall_nil _)). fold w0 in HI, HP, Hoks.
  destruct (final_import max seen w0 t HI Hoks Hd) as (H1 & H2 & H3 & H4).
  split; [exact H1|]. split; [exact H2|]. split; [|split; [|exact HP]].
  - intros Hp. split; [exact (final_import_store max seen w0 t HI (pinned_RI _ HP) Hd Hp) | apply H3; exact Hp].
  - intros Hst. split; [exact (final_import_nonstale max seen w0 t HI HP Hoks Hd Hst) | exact (H4 Hst)].
Qed.

Theorem converge_full_signable max c0 h t b :
  hist_ok c0 h -> run_ok max (world0 c0) h ->
  let w0 := run_history max c0 h in
  let w := run_history max c0 (h ++ [EImport t []]) in
  w_deep w = false -> polls (n_store (w_node w0)) t ->
  (LENGTH | b + 1) -> b <= t ->
  signable_root (n_store (w_node w)) b = signable_root (scratch max (chain (w_srv w)) b) b /\
  signable_root_legacy (n_store (w_node w)) b = signable_root_legacy (scratch max (chain (w_srv w)) b) b.
Proof.
  intros Hh Hr. cbv zeta. intros Hd Hp Hdiv Hle.
  destruct (converge_full max c0 h t Hh Hr Hd) as (_ & HW & Hst & _). cbv zeta in Hst.
  destruct (Hst Hp) as [Hs _]. rewrite Hs. rewrite !(scratch_store max _ _ HW).
  apply ProofsHistory7.signable_store_of; assumption.
Qed.
