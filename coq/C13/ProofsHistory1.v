(* C13/ProofsHistory1.v — the importer loop against a server with no pending mutation:
   the forward phase of [drain]. *)
From Coq Require Import Lia.
From MV Require Import Base.Prelude Base.SymHash C13.Model C13.Spec C13.Proofs.
From MV Require Import C13.SpecHistory.
Open Scope N_scope.

Definition mk_srv (C : list block) (i : nat) (bk ag : bool) : srv :=
  {| chain := C; ptr := i; back := bk; agency := ag; pending := [] |}.

Lemma srv_next_fwd C i ag b : nth_error C i = Some b ->
  srv_next (mk_srv C i false ag) = (Some (Fwd b), mk_srv C (S i) false true).
Proof. intros H. unfold srv_next, mk_srv. cbn. rewrite H. reflexivity. Qed.
Lemma srv_next_none C i ag : nth_error C i = None ->
  srv_next (mk_srv C i false ag) = (None, mk_srv C i false false).
Proof. intros H. unfold srv_next, mk_srv. cbn. rewrite H. reflexivity. Qed.
Lemma srv_next_back C i ag :
  srv_next (mk_srv C i true ag) = (Some (Back (point_at C i)), mk_srv C i false true).
Proof. reflexivity. Qed.

Lemma drain_S f from_slot until max st buf sv lastp deep :
  drain (S f) from_slot until max st buf sv lastp deep =
    let '(a, sv') := srv_next sv in
    let stop_or_flush :=
      match buf with
      | [] => {| d_ok := true; d_store := st; d_srv := sv'; d_last := lastp; d_deep := deep |}
      | _ => match flush st buf with
             | Some st' => drain f from_slot until max st' [] sv' lastp deep
             | None => {| d_ok := false; d_store := st; d_srv := sv'; d_last := lastp; d_deep := deep |}
             end
      end in
    match a with
    | None => stop_or_flush
    | Some (Fwd b) =>
        if until <? num b then stop_or_flush
        else
          let buf' := buf ++ [b] in
          let lastp' := Some (point_of b) in
          if (Nat.leb max (length buf')) || (until <=? num b) then
            match flush st buf' with
            | Some st' => drain f from_slot until max st' [] sv' lastp' deep
            | None => {| d_ok := false; d_store := st; d_srv := sv'; d_last := lastp'; d_deep := deep |}
            end
          else drain f from_slot until max st buf' sv' lastp' deep
    | Some (Back p) =>
        if fst p =? from_slot then drain f from_slot until max st buf sv' lastp deep
        else
          let lastp' := Some p in
          if existsb (fun x => slot x =? fst p) buf
          then drain f from_slot until max st (truncate_at buf (fst p)) sv' lastp' deep
          else let '(st', dp) := rollback st (fst p) in
               drain f from_slot until max st' [] sv' lastp' (deep || dp)
    end.
Proof. reflexivity. Qed.

(* ---- prefixes of a chain ---- *)
Lemma chain_ok_firstn n C : chain_ok C -> chain_ok (firstn n C).
Proof.
  intros H. unfold chain_ok in *. rewrite <- (firstn_skipn n C) in H.
  apply ext_ok_app in H as [H _]. exact H.
Qed.
Lemma firstn_snoc {A} (l : list A) i b : nth_error l i = Some b -> firstn (S i) l = firstn i l ++ [b].
Proof.
  revert i. induction l as [|x r IH]; intros [|i] H; try discriminate.
  - injection H as <-. reflexivity.
  - cbn [nth_error] in H. cbn [firstn app]. rewrite <- (IH i H). reflexivity.
Qed.
Lemma nth_error_firstn_lt {A} (l : list A) : forall i n, (n < i)%nat -> nth_error (firstn i l) n = nth_error l n.
Proof.
  induction l as [|x r IH]; intros [|i] [|n] H; try lia; try reflexivity.
  cbn [firstn nth_error]. apply IH. lia.
Qed.
Lemma ext_ok_of_chain a q : chain_ok (a ++ q) -> ext_ok a q.
Proof. intros H. apply ext_ok_app in H as [_ H]. exact H. Qed.
Lemma last_app_nth {A} (l : list A) i (buf : list A) x :
  buf <> [] -> (i <= length x)%nat -> l ++ buf = firstn i x -> exists a, nth_error x (i - 1) = Some a /\ In a buf /\ (0 < i)%nat.
Proof.
  intros Hne Hix E. destruct (exists_last Hne) as [b' [a Hb]]. subst buf. exists a.
  assert (Hlen : length (l ++ b' ++ [a]) = length (firstn i x)) by (rewrite E; reflexivity).
  rewrite !app_length, firstn_length in Hlen. cbn [length] in Hlen.
  assert (Hi : (0 < i)%nat) by lia. split; [|split; [apply in_or_app; right; left; reflexivity | exact Hi]].
  assert (Hn : nth_error (firstn i x) (i - 1) = Some a).
  { rewrite <- E. rewrite app_assoc. rewrite nth_error_app2 by (rewrite app_length; lia).
    rewrite app_length. replace (i - 1 - (length l + length b'))%nat with O by lia. reflexivity. }
  rewrite nth_error_firstn_lt in Hn by lia. exact Hn.
Qed.

(* ---- the forward phase ---- *)
Lemma drain_forward : forall f from_slot until max C, chain_ok C -> consec C ->
  forall i st buf ag lastp deep,
  blocks st ++ buf = firstn i C -> (i <= length C)%nat ->
  Forall (fun b => num b <= until) (blocks st) -> Forall (fun b => num b < until) buf ->
  (2 * (length C - i) + length buf + 1 <= f)%nat ->
  exists (k : nat) (ag' : bool),
    let d := drain f from_slot until max st buf (mk_srv C i false ag) lastp deep in
    (i <= k <= length C)%nat /\
    d_ok d = true /\ blocks (d_store d) = firstn k C /\
    roots (d_store d) = roots st /\ lroots (d_store d) = lroots st /\ d_deep d = deep /\
    Forall (fun b => num b <= until) (firstn k C) /\
    ((k = i /\ d_last d = lastp) \/
     ((i < k)%nat /\ exists b, nth_error C (k - 1) = Some b /\ d_last d = Some (point_of b))) /\
    d_srv d = mk_srv C (if ag' then S k else k) false ag' /\
    (ag' = true -> exists b, nth_error C k = Some b /\ until < num b) /\
    (ag' = false -> k = length C).
Proof.
  induction f as [|f IH]; intros from_slot until max C HC Hcons i st buf ag lastp deep E Hi Hst Hbuf Hf; [lia|].
  rewrite drain_S. destruct (nth_error C i) as [b|] eqn:Hn.
  - rewrite (srv_next_fwd C i ag b Hn). cbv zeta.
    destruct (until <? num b) eqn:Hu.
    + (* beyond the target: the buffer is empty *)
      apply N.ltb_lt in Hu.
      assert (buf = []) as ->.
      { destruct buf as [|x buf']; [reflexivity|]. exfalso.
        destruct (last_app_nth (blocks st) i (x :: buf') C ltac:(discriminate) Hi E) as [a [Ha [Hin Hpos]]].
        rewrite Forall_forall in Hbuf. specialize (Hbuf a Hin).
        specialize (Hcons (i - 1)%nat a b Ha). replace (S (i - 1)) with i in Hcons by lia. specialize (Hcons Hn). lia. }
      exists i, true. cbn [d_ok d_store d_srv d_last d_deep]. rewrite app_nil_r in E.
      split; [lia|]. split; [reflexivity|]. split; [exact E|]. split; [reflexivity|]. split; [reflexivity|].
      split; [reflexivity|]. split; [rewrite <- E; exact Hst|]. split; [left; split; reflexivity|].
      split; [reflexivity|]. split; [intros _; exists b; split; [exact Hn | exact Hu] | discriminate].
    + apply N.ltb_ge in Hu.
      assert (Hlt : (i < length C)%nat) by (apply nth_error_Some; rewrite Hn; discriminate).
      assert (E' : blocks st ++ buf ++ [b] = firstn (S i) C).
      { rewrite (firstn_snoc C i b Hn), <- E, app_assoc. reflexivity. }
      assert (Hwrap : forall (k : nat) (ag' : bool) (d : drained),
        ((S i <= k <= length C)%nat /\
         d_ok d = true /\ blocks (d_store d) = firstn k C /\
         roots (d_store d) = roots st /\ lroots (d_store d) = lroots st /\ d_deep d = deep /\
         Forall (fun b => num b <= until) (firstn k C) /\
         ((k = S i /\ d_last d = Some (point_of b)) \/
          ((S i < k)%nat /\ exists b, nth_error C (k - 1) = Some b /\ d_last d = Some (point_of b))) /\
         d_srv d = mk_srv C (if ag' then S k else k) false ag' /\
         (ag' = true -> exists b, nth_error C k = Some b /\ until < num b) /\
         (ag' = false -> k = length C)) ->
        ((i <= k <= length C)%nat /\
         d_ok d = true /\ blocks (d_store d) = firstn k C /\
         roots (d_store d) = roots st /\ lroots (d_store d) = lroots st /\ d_deep d = deep /\
         Forall (fun b => num b <= until) (firstn k C) /\
         ((k = i /\ d_last d = lastp) \/
          ((i < k)%nat /\ exists b, nth_error C (k - 1) = Some b /\ d_last d = Some (point_of b))) /\
         d_srv d = mk_srv C (if ag' then S k else k) false ag' /\
         (ag' = true -> exists b, nth_error C k = Some b /\ until < num b) /\
         (ag' = false -> k = length C))).
      { intros k ag' d (Hk & H1 & H2 & H3 & H4 & H5 & H6 & H7 & H8).
        split; [lia|]. split; [exact H1|]. split; [exact H2|]. split; [exact H3|]. split; [exact H4|].
        split; [exact H5|]. split; [exact H6|]. split; [|exact H8].
        right. destruct H7 as [[-> Hl]|[Hlt' Hex]].
        - split; [lia|]. exists b. replace (S i - 1)%nat with i by lia. split; assumption.
        - split; [lia | exact Hex]. }
      destruct ((Nat.leb max (length (buf ++ [b]))) || (until <=? num b)) eqn:Hfl.
      * (* flush *)
        assert (Hext : ext_ok (blocks st) (buf ++ [b])).
        { apply ext_ok_of_chain. rewrite E'. apply chain_ok_firstn, HC. }
        rewrite (flush_ext st _ Hext).
        destruct (IH from_slot until max C HC Hcons (S i) (set_blocks st (blocks st ++ buf ++ [b])) [] true
                     (Some (point_of b)) deep) as [k [ag' Hres]].
        { cbn [set_blocks blocks]. rewrite app_nil_r. exact E'. }
        { lia. }
        { cbn [set_blocks blocks]. apply Forall_app. split; [exact Hst|]. apply Forall_app. split.
          - eapply Forall_impl; [|exact Hbuf]. intros; cbv beta in *; lia.
          - constructor; [exact Hu | constructor]. }
        { constructor. }
        { cbn [length]. lia. }
        exists k, ag'. apply Hwrap. exact Hres.
      * apply orb_false_iff in Hfl as [_ Hfl]. apply N.leb_gt in Hfl.
        destruct (IH from_slot until max C HC Hcons (S i) st (buf ++ [b]) true (Some (point_of b)) deep) as [k [ag' Hres]].
        { exact E'. } { lia. } { exact Hst. }
        { apply Forall_app. split; [exact Hbuf | constructor; [exact Hfl | constructor]]. }
        { rewrite app_length. cbn [length]. lia. }
        exists k, ag'. apply Hwrap. exact Hres.
  - (* the tip was reached *)
    rewrite (srv_next_none C i ag Hn). cbv zeta.
    assert (Hi' : i = length C) by (apply nth_error_None in Hn; lia).
    destruct buf as [|x buf'].
    + exists i, false. cbn [d_ok d_store d_srv d_last d_deep]. rewrite app_nil_r in E.
      split; [lia|]. split; [reflexivity|]. split; [exact E|]. split; [reflexivity|]. split; [reflexivity|].
      split; [reflexivity|]. split; [rewrite <- E; exact Hst|]. split; [left; split; reflexivity|].
      split; [reflexivity|]. split; [discriminate | intros _; exact Hi'].
    + assert (Hext : ext_ok (blocks st) (x :: buf')).
      { apply ext_ok_of_chain. rewrite E. apply chain_ok_firstn, HC. }
      rewrite (flush_ext st _ Hext).
      destruct (IH from_slot until max C HC Hcons i (set_blocks st (blocks st ++ x :: buf')) [] false lastp deep)
        as [k [ag' Hres]].
      { cbn [set_blocks blocks]. rewrite app_nil_r. exact E. }
      { lia. }
      { cbn [set_blocks blocks]. apply Forall_app. split; [exact Hst|].
        eapply Forall_impl; [|exact Hbuf]. intros; cbv beta in *; lia. }
      { constructor. }
      { cbn [length] in *. lia. }
      exists k, ag'. exact Hres.
Qed.
