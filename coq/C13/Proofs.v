(* C13/Proofs.v — repository-level lemmas: forward storage, roll-back, root query. *)
From Coq Require Import Lia.
From MV Require Import Base.Prelude Base.SymHash C13.Model C13.Spec.
Open Scope N_scope.

(* ---- keep_new / insert_sorted / find on a fresh block ---- *)
Lemma mem_true_iff x l : mem x l = true <-> In x l.
Proof.
  unfold mem. rewrite existsb_exists. split.
  - intros [y [Hy E]]. apply N.eqb_eq in E. subst. exact Hy.
  - intros H. exists x. split; [exact H | apply N.eqb_refl].
Qed.
Lemma keep_new_id ts : forall known, NoDup ts -> (forall t, In t ts -> ~ In t known) -> keep_new known ts = ts.
Proof.
  induction ts as [|t r IH]; intros known Hnd Hdis; [reflexivity|].
  cbn [keep_new]. destruct (mem t known) eqn:E.
  - apply mem_true_iff in E. exfalso. apply (Hdis t); [left; reflexivity | exact E].
  - f_equal. inversion Hnd as [|? ? Hnot Hnd']; subst. apply IH; [exact Hnd'|].
    intros u Hu [Hk|Hk]; [subst; contradiction | apply (Hdis u); [right; exact Hu | exact Hk]].
Qed.
Lemma insert_sorted_last b bs : Forall (fun x => num x < num b) bs -> insert_sorted b bs = bs ++ [b].
Proof.
  induction 1 as [|x r Hx _ IH]; [reflexivity|]. cbn [insert_sorted app].
  destruct (num b <? num x) eqn:E; [apply N.ltb_lt in E; lia | rewrite IH; reflexivity].
Qed.
Lemma find_conflict_none b bs :
  Forall (fun x => num x < num b /\ slot x < slot b /\ bh x <> bh b) bs -> find (conflict b) bs = None.
Proof.
  induction 1 as [|x r [Hn [Hs Hh]] _ IH]; [reflexivity|]. cbn [find]. unfold conflict at 1.
  destruct (bh x =? bh b) eqn:E1; [apply N.eqb_eq in E1; contradiction|].
  destruct (slot x =? slot b) eqn:E2; [apply N.eqb_eq in E2; lia|].
  destruct (num x =? num b) eqn:E3; [apply N.eqb_eq in E3; lia|]. exact IH.
Qed.
Lemma with_txs_id b : with_txs b (txs b) = b.
Proof. destruct b; reflexivity. Qed.

Lemma store_block_fresh bs b : fresh_for bs b -> store_block bs b = Some (bs ++ [b]).
Proof.
  intros [Hf [Hnd Hdis]]. unfold store_block. rewrite (find_conflict_none b bs Hf).
  rewrite (keep_new_id (txs b) (known_txs bs) Hnd Hdis), with_txs_id.
  rewrite insert_sorted_last; [reflexivity|].
  eapply Forall_impl; [|exact Hf]. intros x [H _]; exact H.
Qed.
Lemma store_blocks_ext l : forall bs, ext_ok bs l -> store_blocks bs l = Some (bs ++ l).
Proof.
  induction l as [|b r IH]; intros bs H; cbn [store_blocks].
  - rewrite app_nil_r; reflexivity.
  - destruct H as [Hf Hr]. rewrite (store_block_fresh bs b Hf), (IH _ Hr), <- app_assoc. reflexivity.
Qed.
Lemma flush_ext st buf : ext_ok (blocks st) buf -> flush st buf = Some (set_blocks st (blocks st ++ buf)).
Proof. intros H. unfold flush. rewrite (store_blocks_ext buf _ H). reflexivity. Qed.

(* ---- structure of chains ---- *)
Lemma ext_ok_app p : forall a q, ext_ok a (p ++ q) <-> ext_ok a p /\ ext_ok (a ++ p) q.
Proof.
  induction p as [|x p IH]; intros a q; cbn [app ext_ok].
  - rewrite app_nil_r. tauto.
  - rewrite IH, <- app_assoc. cbn [app]. tauto.
Qed.
Lemma ext_ok_later q : forall l, ext_ok l q ->
  forall x y, In x l -> In y q -> num x < num y /\ slot x < slot y.
Proof.
  induction q as [|b r IH]; intros l H x y Hx Hy; [destruct Hy|].
  destruct H as [[Hf _] Hr]. destruct Hy as [<-|Hy].
  - rewrite Forall_forall in Hf. destruct (Hf x Hx) as [? [? _]]. split; assumption.
  - apply (IH (l ++ [b]) Hr x y); [apply in_or_app; left; exact Hx | exact Hy].
Qed.
Lemma chain_split p a q : chain_ok (p ++ a :: q) ->
  Forall (fun x => num x < num a /\ slot x < slot a) p /\
  Forall (fun y => num a < num y /\ slot a < slot y) q.
Proof.
  unfold chain_ok. intros H. apply ext_ok_app in H as [_ H]. cbn [app] in H. destruct H as [[Hf _] Hq]. split.
  - eapply Forall_impl; [|exact Hf]. intros x [? [? _]]; split; assumption.
  - apply Forall_forall. intros y Hy. apply (ext_ok_later q _ Hq a y); [apply in_or_app; right; left; reflexivity | exact Hy].
Qed.

(* ---- roll-back ---- *)
Lemma filter_split {A} (f : A -> bool) p a q :
  Forall (fun x => f x = true) p -> f a = true -> Forall (fun x => f x = false) q ->
  filter f (p ++ a :: q) = p ++ [a].
Proof.
  intros Hp Ha Hq. rewrite filter_app. cbn [filter]. rewrite Ha. f_equal.
  - induction Hp as [|x r Hx _ IH]; [reflexivity|]. cbn [filter]. rewrite Hx, IH. reflexivity.
  - f_equal. induction Hq as [|x r Hx _ IH]; [reflexivity|]. cbn [filter]. rewrite Hx. exact IH.
Qed.
Lemma highest_snoc l a : highest (l ++ [a]) = Some a.
Proof.
  unfold highest. rewrite map_app. cbn [map]. induction (map Some l) as [|x r IH]; [reflexivity|].
  cbn [app last]. destruct (r ++ [Some a]) eqn:E; [destruct r; discriminate | exact IH].
Qed.
Lemma anchor_on_chain p a q : chain_ok (p ++ a :: q) -> anchor (p ++ a :: q) (slot a) = Some a.
Proof.
  intros H. destruct (chain_split p a q H) as [Hp Hq]. unfold anchor.
  rewrite (filter_split (fun b => slot b <=? slot a) p a q).
  - apply highest_snoc.
  - eapply Forall_impl; [|exact Hp]. intros x [_ Hs]. apply N.leb_le. lia.
  - apply N.leb_refl.
  - eapply Forall_impl; [|exact Hq]. intros x [_ Hs]. apply N.leb_gt. lia.
Qed.
Lemma rollback_on_chain st p a q :
  blocks st = p ++ a :: q -> chain_ok (p ++ a :: q) ->
  rollback st (slot a) =
    ({| blocks := p ++ [a];
        roots := filter (fun r => fst r <? range_start (num a)) (roots st);
        lroots := filter (fun r => fst r <? range_start (num a)) (lroots st) |}, false).
Proof.
  intros Hb H. unfold rollback. rewrite Hb, (anchor_on_chain p a q H).
  destruct (chain_split p a q H) as [Hp Hq].
  rewrite (filter_split (fun b => num b <=? num a) p a q); [reflexivity | | apply N.leb_refl |].
  - eapply Forall_impl; [|exact Hp]. intros x [Hn _]. apply N.leb_le. lia.
  - eapply Forall_impl; [|exact Hq]. intros x [Hn _]. apply N.leb_gt. lia.
Qed.
(* no stored block at or below the slot: nothing at all is deleted *)
Lemma rollback_no_anchor st s :
  Forall (fun b => s < slot b) (blocks st) -> fst (rollback st s) = st.
Proof.
  intros H. unfold rollback, anchor.
  replace (filter (fun b => slot b <=? s) (blocks st)) with (@nil block); [reflexivity|].
  induction H as [|x r Hx _ IH]; [reflexivity|]. cbn [filter].
  destruct (slot x <=? s) eqn:E; [apply N.leb_le in E; lia | exact IH].
Qed.

(* the ranges whose root survives a roll-back to [a] lie wholly below [a]: their content is
   the same before and after the roll-back *)
Lemma range_start_le x : range_start x <= x.
Proof. unfold range_start, LENGTH. pose proof (N.mul_div_le x Gen.Consts.BLOCK_RANGE_LENGTH). 
  destruct (N.eq_dec Gen.Consts.BLOCK_RANGE_LENGTH 0) as [E|E]; [rewrite E; rewrite N.mul_0_r; lia|].
  specialize (H E). lia. Qed.
Lemma range_start_mult_le s x : (LENGTH | s) -> LENGTH <> 0 -> s < range_start x -> s + LENGTH <= range_start x.
Proof.
  unfold range_start. intros [k ->] HL H.
  assert (k < x / LENGTH) by (apply N.mul_lt_mono_pos_r with (p := LENGTH); lia).
  nia.
Qed.
Lemma in_range_prefix p a q s :
  chain_ok (p ++ a :: q) -> s + LENGTH <= num a ->
  in_range (p ++ a :: q) s (s + LENGTH) = in_range (p ++ [a]) s (s + LENGTH).
Proof.
  intros H Hs. destruct (chain_split p a q H) as [_ Hq]. unfold in_range.
  assert (Hnil : filter (fun b => (s <=? num b) && (num b <? s + LENGTH)) q = []).
  { clear H. induction Hq as [|y r [Hy _] _ IH]; [reflexivity|]. cbn [filter].
    destruct (num y <? s + LENGTH) eqn:E; [apply N.ltb_lt in E; lia|]. rewrite andb_false_r. exact IH. }
  rewrite !filter_app. f_equal. cbn [filter]. rewrite Hnil. reflexivity.
Qed.

(* ---- the root query ---- *)
Lemma complete_beacon_fully b : LENGTH <> 0 -> (LENGTH | b + 1) -> (range_start b + LENGTH - 1 <=? b) = true.
Proof.
  intros HL [k Hk]. apply N.leb_le. unfold range_start.
  assert (Hb : b = k * LENGTH - 1) by lia. destruct k as [|k]; [lia|].
  pose proof (N.div_mod b LENGTH HL). pose proof (N.mod_lt b LENGTH HL).
  assert (b / LENGTH = N.pos k - 1).
  { symmetry. apply (N.div_unique b LENGTH (N.pos k - 1) (LENGTH - 1)); [lia | nia]. }
  rewrite H1. nia.
Qed.
Lemma signable_complete st b : LENGTH <> 0 -> (LENGTH | b + 1) ->
  signable_entries st b = filter (fun r => fst r <? b) (roots st).
Proof.
  intros HL Hd. unfold signable_entries. rewrite (complete_beacon_fully b HL Hd). reflexivity.
Qed.

(* ---- a fork switch at the store level ---- *)
Lemma switch_converges st p a q q' :
  blocks st = p ++ a :: q -> chain_ok (p ++ a :: q) -> chain_ok (p ++ a :: q') ->
  exists st1, fst (rollback st (slot a)) = st1 /\
    option_map blocks (flush st1 q') = Some (p ++ a :: q') /\
    option_map blocks (flush st1 q') = store_blocks [] (p ++ a :: q').
Proof.
  intros Hb H H'. rewrite (rollback_on_chain st p a q Hb H). cbn [fst]. eexists. split; [reflexivity|].
  assert (He : ext_ok (p ++ [a]) q').
  { unfold chain_ok in H'. replace (p ++ a :: q') with ((p ++ [a]) ++ q') in H' by (rewrite <- app_assoc; reflexivity).
    apply ext_ok_app in H' as [_ H']. exact H'. }
  rewrite flush_ext by (cbn [blocks]; exact He). cbn [option_map set_blocks blocks].
  replace ((p ++ [a]) ++ q') with (p ++ a :: q') by (rewrite <- app_assoc; reflexivity).
  split; [reflexivity|].
  symmetry. exact (store_blocks_ext _ [] H').
Qed.
