(* C13/Spec.v — predicates the theorems are stated with (no executable content). *)
From Coq Require Import Lia.
From MV Require Import Base.Prelude Base.SymHash C13.Model.
Open Scope N_scope.

(* [b] can follow the blocks [bs] on one chain: strictly higher number and slot, a hash of
   its own, transactions that are pairwise distinct and occur nowhere before *)
Definition fresh_for (bs : list block) (b : block) : Prop :=
  Forall (fun x => num x < num b /\ slot x < slot b /\ bh x <> bh b) bs /\
  NoDup (txs b) /\ (forall t, In t (txs b) -> ~ In t (known_txs bs)).
(* [l] extends [bs] as one chain *)
Fixpoint ext_ok (bs l : list block) : Prop :=
  match l with
  | [] => True
  | b :: r => fresh_for bs b /\ ext_ok (bs ++ [b]) r
  end.
(* a canonical chain *)
Definition chain_ok (c : list block) : Prop := ext_ok [] c.

Definition set_blocks (st : store) (bs : list block) : store :=
  {| blocks := bs; roots := roots st; lroots := lroots st |}.
