(* C13/ProofsHistory7.v — the signed root at a beacon that ends a block range is a function of
   (canonical chain, beacon), whatever the import target at or above the beacon. *)
From Coq Require Import Lia.
From MV Require Import Base.Prelude Base.SymHash Gen.Consts C13.Model C13.Spec C13.Proofs.
From MV Require Import C13.SpecHistory C13.ProofsHistory1 C13.ProofsHistory2 C13.ProofsHistory3 C13.ProofsHistory4 C13.ProofsHistory5 C13.ProofsHistory6.
Open Scope N_scope.

Lemma L_gt1 : 1 < LENGTH. Proof. reflexivity. Qed.

Lemma in_range_filter_le c t s e : e <= t + 1 ->
  in_range (filter (fun b => num b <=? t) c) s e = in_range c s e.
Proof.
  intros He. unfold in_range. induction c as [|x r IH]; [reflexivity|]. cbn [filter].
  destruct (num x <=? t) eqn:E1.
  - cbn [filter]. rewrite IH. reflexivity.
  - apply N.leb_gt in E1. rewrite IH.
    destruct (num x <? e) eqn:E2; [apply N.ltb_lt in E2; lia | rewrite andb_false_r; reflexivity].
Qed.

Lemma rstarts_in n s : In s (rstarts n) -> exists i, s = LENGTH * N.of_nat i.
Proof. unfold rstarts. intros H. apply in_map_iff in H as [i [<- _]]. exists i. reflexivity. Qed.

Lemma roots_below rootf c t b kb :
  b + 1 = LENGTH * N.of_nat kb -> b <= t ->
  filter (fun r => fst r <? b) (roots_fn rootf (filter (fun x => num x <=? t) c) (ranges_upto t))
  = roots_fn rootf c kb.
Proof.
  intros Hb Hle. unfold roots_fn at 1.
  rewrite (filter_flat_map_entry rootf _ (fun s => s <? b)).
  assert (Hf : filter (fun s => s <? b) (rstarts (ranges_upto t)) = rstarts kb).
  { rewrite (filter_ext_in (fun s => s <? b) (fun s => s <? LENGTH * N.of_nat kb)).
    - rewrite filter_rstarts, Nat2N.id. f_equal.
      assert (N.of_nat kb <= (t + 1) / LENGTH).
      { apply N.div_le_lower_bound; [exact L_nz | lia]. }
      unfold ranges_upto. set (q := (t + 1) / LENGTH) in *. clearbody q. lia.
    - intros s Hs. destruct (rstarts_in _ s Hs) as [i ->]. pose proof L_gt1.
      destruct (LENGTH * N.of_nat i <? b) eqn:E1; destruct (LENGTH * N.of_nat i <? LENGTH * N.of_nat kb) eqn:E2;
        try reflexivity; [apply N.ltb_lt in E1; apply N.ltb_ge in E2; nia | apply N.ltb_ge in E1; apply N.ltb_lt in E2;
           assert (N.of_nat i + 1 <= N.of_nat kb) by nia; nia]. }
  rewrite Hf. fold (roots_fn rootf (filter (fun x => num x <=? t) c) kb).
  apply roots_fn_ext. intros i Hi. apply in_range_filter_le. nia.
Qed.

Lemma signable_store_of c t b :
  (LENGTH | b + 1) -> b <= t ->
  signable_root (store_of c t) b = signable_root (store_of c b) b /\
  signable_root_legacy (store_of c t) b = signable_root_legacy (store_of c b) b.
Proof.
  intros Hd Hle. destruct Hd as [k Hk].
  assert (Hb : b + 1 = LENGTH * N.of_nat (N.to_nat k)) by (rewrite N2Nat.id; lia).
  split.
  - unfold signable_root.
    rewrite (signable_complete (store_of c t) b L_nz (ex_intro _ k Hk)), (signable_complete (store_of c b) b L_nz (ex_intro _ k Hk)).
    unfold store_of. cbn [roots]. rewrite (roots_below root_new c t b _ Hb Hle), (roots_below root_new c b b _ Hb (N.le_refl b)).
    reflexivity.
  - unfold signable_root_legacy, store_of. cbn [lroots].
    rewrite (roots_below root_legacy c t b _ Hb Hle), (roots_below root_legacy c b b _ Hb (N.le_refl b)). reflexivity.
Qed.

(* C13_root_fn at a complete-range beacon, along a history *)
Theorem converge_signable max c0 h t b :
  hist_ok c0 h -> Forall quiet h -> targets_ok max (world0 c0) h ->
  let w0 := run_history max c0 h in
  let w := run_history max c0 (h ++ [EImport t []]) in
  w_deep w = false -> polls (n_store (w_node w0)) t ->
  (LENGTH | b + 1) -> b <= t ->
  signable_root (n_store (w_node w)) b = signable_root (scratch max (chain (w_srv w)) b) b /\
  signable_root_legacy (n_store (w_node w)) b = signable_root_legacy (scratch max (chain (w_srv w)) b) b.
Proof.
  intros Hh Hq Ht. cbv zeta. intros Hd Hp Hdiv Hle.
  pose proof (converge_store max c0 h t Hh Hq Ht Hd Hp) as Hst. cbv zeta in Hst. rewrite Hst.
  destruct (converge_blocks max c0 h t Hh Hq Hd) as (_ & HW & _).
  rewrite !(scratch_store max _ _ HW). apply signable_store_of; assumption.
Qed.
