(* C13/ProofsHistory6.v — the roots invariant along a history; convergence of the whole store. *)
From Coq Require Import Lia.
From MV Require Import Base.Prelude Base.SymHash Gen.Consts C13.Model C13.Spec C13.Proofs.
From MV Require Import C13.SpecHistory C13.ProofsHistory1 C13.ProofsHistory2 C13.ProofsHistory3 C13.ProofsHistory4 C13.ProofsHistory5.
Open Scope N_scope.

Lemma RI_empty : RI empty.
Proof. exists O. split; [left; reflexivity | split; reflexivity]. Qed.

(* one import: the roots invariant is preserved when the target is at or below the tip *)
Lemma import_RI seen max t nd sv :
  Inv seen nd sv -> RI (n_store nd) ->
  (blocks (n_store nd) = [] \/ i_deep (import max t nd sv) = false) ->
  (match highest (chain sv) with Some b => t <= num b | None => False end) ->
  RI (n_store (i_node (import max t nd sv))).
Proof.
  intros HI HR Hd Ht.
  destruct (import_inv seen max t nd sv HI Hd) as (_ & _ & _ & _ & _ & _ & _ & _ & Hreach & st1 & bs' & Hrb & HC' & [q Hq] & Hst).
  pose proof HI as (_ & _ & HS & _).
  rewrite Hst. apply RI_compute.
  - cbn [set_blocks blocks]. destruct (highest (chain sv)) as [tip|] eqn:Etip; [|destruct Ht].
    specialize (Hreach tip eq_refl Ht). rewrite Hst in Hreach. exact Hreach.
  - rewrite Hq. apply RI_forward; [rewrite <- Hq; exact HC'|]. apply (RI_rollback (n_store nd)); assumption.
Qed.

(* one polling import: the store is a function of (canonical chain, target) *)

Lemma import_store_exact seen max t nd sv :
  Inv seen nd sv -> RI (n_store nd) ->
  (blocks (n_store nd) = [] \/ i_deep (import max t nd sv) = false) ->
  i_polled (import max t nd sv) = true ->
  n_store (i_node (import max t nd sv)) = store_of (chain sv) t.
Proof.
  intros HI HR Hd Hp.
  destruct (import_inv seen max t nd sv HI Hd) as (_ & _ & _ & _ & Hpo & _ & _ & _ & _ & st1 & bs' & Hrb & HC' & [q Hq] & Hst).
  pose proof HI as (_ & _ & HS & _).
  specialize (Hpo Hp). rewrite Hst in Hpo. cbn [run_roots set_blocks blocks] in Hpo.
  assert (HR' : RI (set_blocks st1 bs')).
  { rewrite Hq. apply RI_forward; [rewrite <- Hq; exact HC'|]. apply (RI_rollback (n_store nd)); assumption. }
  assert (Hle : Forall (fun b => num b <= t) (blocks (set_blocks st1 bs'))).
  { cbn [set_blocks blocks]. rewrite Hpo. apply Forall_forall. intros b Hb. apply filter_In in Hb as [_ Hb].
    apply N.leb_le. exact Hb. }
  destruct (RI_compute_exact _ t Hle HR') as [Hr Hl].
  rewrite Hst. unfold store_of. cbv zeta. rewrite <- Hpo.
  cbn [set_blocks blocks] in Hr, Hl. rewrite <- Hr, <- Hl. reflexivity.
Qed.

Lemma scratch_store max c t : wf_chain c -> scratch max c t = store_of c t.
Proof.
  intros HW. unfold scratch.
  pose proof (world0_inv c HW) as HI. unfold WInv, world0 in HI. cbn [w_node w_srv] in HI.
  apply (import_store_exact (map bh c) max t _ (srv0 c) HI RI_empty (or_introl eq_refl)).
  destruct (import_inv (map bh c) max t _ (srv0 c) HI (or_introl eq_refl)) as (_ & _ & _ & _ & _ & _ & Hpol & _).
  rewrite Hpol. reflexivity.
Qed.

(* ---- along a history ---- *)
Lemma step_RI max seen w e :
  WInv seen w -> RI (n_store (w_node w)) -> quiet e ->
  (match e with EImport t _ => target_le_tip w t | _ => True end) ->
  (blocks (n_store (w_node w)) = [] \/ w_deep (step max w e) = false) ->
  RI (n_store (w_node (step max w e))).
Proof.
  intros HI HR Hq Ht Hd. destruct e as [m|t during| |]; try exact HR.
  destruct during as [|x during]; [|destruct Hq].
  pose proof HI as (Hpend & _).
  assert (Hd' : blocks (n_store (w_node w)) = [] \/ i_deep (import max t (w_node w) (w_srv w)) = false).
  { destruct Hd as [H|H]; [left; exact H | right].
    unfold step in H. rewrite (with_pending_nil _ Hpend) in H. cbn [w_deep] in H.
    apply orb_false_iff in H as [_ H]. exact H. }
  unfold step. rewrite (with_pending_nil _ Hpend). cbn [w_node].
  exact (import_RI seen max t (w_node w) (w_srv w) HI HR Hd' Ht).
Qed.

Lemma run_inv_roots max : forall h seen w,
  WInv seen w -> RI (n_store (w_node w)) ->
  muts_ok seen (chain (w_srv w)) (flat_map muts_of_event h) -> Forall quiet h -> targets_ok max w h ->
  w_deep (fold_left (step max) h w) = false ->
  exists seen', WInv seen' (fold_left (step max) h w) /\ RI (n_store (w_node (fold_left (step max) h w))).
Proof.
  induction h as [|e h IH]; intros seen w HI HR Hm Hq Ht Hd.
  - exists seen. split; assumption.
  - cbn [fold_left flat_map targets_ok] in *. inversion Hq as [|? ? Hqe Hqh]; subst. destruct Ht as [Hte Hth].
    assert (Hde : w_deep (step max w e) = false).
    { destruct (w_deep (step max w e)) eqn:E; [|reflexivity]. rewrite (deep_sticky max h _ E) in Hd. discriminate. }
    assert (Hme : muts_ok seen (chain (w_srv w)) (muts_of_event e)).
    { clear - Hm. revert Hm. generalize (flat_map muts_of_event h) as r. generalize (chain (w_srv w)) as c. revert seen.
      induction (muts_of_event e) as [|m l IHl]; intros seen c r H; [exact I|].
      destruct m as [keep bs]. cbn [app muts_ok] in *. destruct H as [H1 [H2 H3]].
      split; [exact H1|]. split; [exact H2|]. exact (IHl _ _ _ H3). }
    destruct (step_inv max seen w e HI Hme Hqe (or_intror Hde)) as (seen' & HI' & Hms & _).
    pose proof (step_RI max seen w e HI HR Hqe Hte (or_intror Hde)) as HR'.
    exact (IH seen' (step max w e) HI' HR' (Hms _ Hm) Hqh Hth Hd).
Qed.


Lemma roots_invariant max c0 h :
  hist_ok c0 h -> Forall quiet h -> targets_ok max (world0 c0) h -> w_deep (run_history max c0 h) = false ->
  RI (n_store (w_node (run_history max c0 h))).
Proof.
  intros [HW0 Hm] Hq Ht Hd. unfold run_history in *.
  destruct (run_inv_roots max h (map bh c0) (world0 c0) (world0_inv c0 HW0) RI_empty Hm Hq Ht Hd) as (seen & _ & HR).
  exact HR.
Qed.

Lemma targets_ok_app max : forall h w h', targets_ok max w (h ++ h') ->
  targets_ok max w h /\ targets_ok max (fold_left (step max) h w) h'.
Proof.
  induction h as [|e h IH]; intros w h' H; [split; [exact I | exact H]|].
  cbn [app targets_ok fold_left] in *. destruct H as [H1 H2]. destruct (IH _ _ H2) as [H3 H4].
  split; [split; assumption | exact H4].
Qed.

(* ---- convergence of the whole store ---- *)
Theorem converge_store max c0 h t :
  hist_ok c0 h -> Forall quiet h -> targets_ok max (world0 c0) h ->
  let w0 := run_history max c0 h in
  let w := run_history max c0 (h ++ [EImport t []]) in
  w_deep w = false -> polls (n_store (w_node w0)) t ->
  n_store (w_node w) = scratch max (chain (w_srv w)) t.
Proof.
  intros [HW0 Hm] Hq Ht. cbv zeta. unfold run_history. rewrite fold_left_app. cbn [fold_left].
  set (w0 := fold_left (step max) h (world0 c0)). intros Hd Hp.
  assert (Hd0 : w_deep w0 = false).
  { destruct (w_deep w0) eqn:E; [|reflexivity].
    pose proof (deep_sticky max [EImport t []] w0 E) as X. cbn [fold_left] in X. rewrite X in Hd. discriminate. }
  destruct (run_inv_roots max h (map bh c0) (world0 c0) (world0_inv c0 HW0) RI_empty Hm Hq Ht Hd0) as (seen & HI & HR).
  fold w0 in HI, HR. pose proof HI as (Hpend & _).
  assert (Hd' : blocks (n_store (w_node w0)) = [] \/ i_deep (import max t (w_node w0) (w_srv w0)) = false).
  { right. unfold step in Hd. rewrite (with_pending_nil _ Hpend) in Hd. cbn [w_deep] in Hd.
    apply orb_false_iff in Hd as [_ H]. exact H. }
  destruct (import_inv seen max t (w_node w0) (w_srv w0) HI Hd') as (_ & _ & HI' & Hch & _ & _ & Hpol & _).
  pose proof HI' as (Hpend' & HW' & _).
  rewrite (step_import max t w0 Hpend Hpend'). cbv zeta. cbn [w_node w_srv].
  assert (Hpt : i_polled (import max t (w_node w0) (w_srv w0)) = true).
  { rewrite Hpol. unfold polls in Hp. destruct (highest (blocks (n_store (w_node w0)))) as [b|]; [|reflexivity].
    apply negb_true_iff. apply N.leb_gt. exact Hp. }
  rewrite (import_store_exact seen max t (w_node w0) (w_srv w0) HI HR Hd' Hpt).
  rewrite (scratch_store max _ t HW'). rewrite Hch. reflexivity.
Qed.
