(* C15/Properties.v — the property theorems, nothing else.
   C15: an aggregator crash at any persistence cut leaves a verifiable store.  Histories are
   arbitrary event lists, [Crash c] of every cut, any number of times, included. *)
From MV Require Import Base.Prelude C14.Model C14.Spec C14.Proofs1 C14.Proofs2 C14.Proofs3 C14.Proofs4 C14.Corollaries C15.Model C15.Proofs.
Open Scope N_scope.

(* the stored chain after any history with crashes: epochs ordered without gap, parent-link rule
   (and the master-certificate query computes it), every link passes the verifier's structural
   check and the walk to the genesis terminates *)
Theorem C15_chain_crash_invariant : forall k all l,
  let s := run_st k all l in
  epochs_ok (s_certs s) (tp_epoch (s_env s)) /\
  parent_rule (s_certs s) /\
  (forall e, master (s_certs s) e = mfirst (s_certs s) e) /\
  links_ok (s_certs s) /\
  (forall i, (i < length (s_certs s))%nat -> walk (s_certs s) (S i) i = Some 0%nat).
Proof.
  intros k all l s. split; [apply t1_any|]. split; [apply t2_any|]. split; [apply t2_any|]. apply t3_any.
Qed.

(* aggregate key and next key of every stored certificate are those of its epoch, signers are
   registered parties — for every history with crashes *)
Theorem C15_keys_crash_invariant : forall k all l,
  keys_ok (s_certs (run_st k all l)) (s_regs (run_st k all l)).
Proof. exact t4_any. Qed.

(* no signed entity has two artifacts; every artifact references a stored certificate that
   certifies exactly that entity — for every history with crashes *)
Theorem C15_artifacts_consistent : forall k all l,
  ents_ok (s_ents (run_st k all l)) (s_certs (run_st k all l)) /\
  NoDup (map se_ent (s_ents (run_st k all l))).
Proof. exact t8_any. Qed.

(* strongest true statement about double certification: outside the known class (no crash
   between the certificate insert and the open-message update) no entity is certified twice *)
Theorem C15_no_double_seal_outside : forall k all l,
  no_cert_cut l -> NoDup (cert_ents (s_certs (run_st k all l))).
Proof. exact t5_nocut. Qed.
Theorem C15_class_sound : forall k all l, no_cert_cut l -> known k all l = false.
Proof. intros k all l H. apply known_from_false_cut, H. Qed.

(* a certificate is stored only by a (possibly crashing) cycle of a Signing state, for an open,
   non-expired, non-certified message with a quorum — crashing cycles included *)
Theorem C15_sealing_precondition : forall k s e,
  (length (s_certs s) < length (s_certs (astep k s e)))%nat ->
  is_cycle e /\ sealed k (cut_of e) s (astep k s e).
Proof. exact t6_any. Qed.

(* progress, as witnesses (the general statement is judged on the implementation by the harness):
   for each of the seven cuts a history that takes the crash and still certifies a later round *)
Example C15_progress_after_each_cut : forallb later_round_certified all_cuts = true.
Proof. exact progress_witnesses. Qed.
