(* C15/Refuted.v — the full statement "no signed entity is certified twice, whatever the crash"
   is violated by the faithful model: witness by vm_compute.  A crash between the certificate
   insert and the open-message update (create_certificate's last two statements) lets the
   restarted aggregator seal a second certificate for the same entity. *)
From MV Require Import Base.Prelude C14.Model C14.Spec C14.Corollaries C15.Model C15.Proofs.
Open Scope N_scope.

Theorem C15_refuted_double_seal : exists k all l,
  known k all l = true /\ has_dup (certified (run_st k all l)) = true.
Proof. exists 3, [0;1;2], scenario_cut. exact refuted_witness. Qed.
