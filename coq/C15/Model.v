(* C15/Model.v — crash at any persistence cut, then restart on the same database.
   The state machine, the cuts and the event [Crash c] live in C14/Model.v (one shared
   model: [Tick] = [tick_at k None], [Crash c] = [tick_at k (Some c)] which stops the cycle
   at cut c if the cycle reaches it, drops the in-memory state and restarts in Idle).
   This file adds what only C15 talks about: which crashes of a history were actually
   taken, and the class of the known finding.  Executable definitions only. *)
From MV Require Import Base.Prelude C14.Model.
Open Scope N_scope.

Definition is_crash (e : ev) : bool := match e with Crash _ => true | _ => false end.

(* did event e, executed in state s, stop the cycle at its cut? *)
Definition crash_taken (k : N) (s : st) (e : ev) : bool :=
  match e with Crash c => snd (tick_at k (Some c) s) | _ => false end.

(* ... at the cut between the certificate insert and the open-message update? *)
Definition seal_cut_taken (k : N) (s : st) (e : ev) : bool :=
  match e with Crash CutCertInserted => snd (tick_at k (Some CutCertInserted) s) | _ => false end.

(* known-finding class "crash between certificate insert and open-message update":
   some event of the history takes that cut *)
Fixpoint known_from (k : N) (s : st) (l : list ev) : bool :=
  match l with
  | [] => false
  | e :: r => seal_cut_taken k s e || known_from k (astep k s e) r
  end.
Definition known (k : N) (all : list N) (l : list ev) : bool := known_from k (init all) l.

(* number of crashes taken along a history *)
Fixpoint crashes_from (k : N) (s : st) (l : list ev) : nat :=
  match l with
  | [] => O
  | e :: r => (if crash_taken k s e then 1 else 0)%nat + crashes_from k (astep k s e) r
  end.

(* entities certified by the stored certificates *)
Definition certified (s : st) : list entity :=
  concat (map (fun c => match c_ent c with Some x => [x] | None => [] end) (s_certs s)).
Fixpoint has_dup (l : list entity) : bool :=
  match l with [] => false | x :: r => existsb (ent_eqb x) r || has_dup r end.

Definition run := C14.Model.run.
