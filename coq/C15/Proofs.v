(* C15/Proofs.v — crash invariance: lemmas.  The inductive invariant [Inv1] of C14/Spec.v is
   proved there for every event, [Crash c] of every cut included (flag b = false), and with the
   no-double-certification part for histories without [Crash CutCertInserted] (b = true). *)
From Coq Require Import Lia.
From MV Require Import Base.Prelude C14.Model C14.Spec C14.Proofs1 C14.Proofs2 C14.Proofs3 C14.Corollaries C15.Model.
Open Scope N_scope.

(* the executable class predicate implies the syntactic one used by the invariant *)
Lemma known_from_false_cut k : forall l s, Forall (fun e => e <> Crash CutCertInserted) l -> known_from k s l = false.
Proof.
  induction l as [|e r IH]; intros s H; [reflexivity|].
  inversion H as [|? ? He Hr]; subst. cbn [known_from].
  rewrite (IH _ Hr), Bool.orb_false_r.
  destruct e as [| | | | | | | |c]; try reflexivity. destruct c; try reflexivity. exfalso; apply He; reflexivity.
Qed.

(* crash scenarios: one per cut, each followed by an honest continuation that certifies the
   interrupted round (or its successor) and the next one *)
Definition xd : entity := {| en_ty := CDB; en_epoch := 2; en_imm := 2 |}.
Definition sign_all (x : entity) : list ev := [Sig (sg_of x 0) x; Sig (sg_of x 1) x].
(* after the stake distribution of epoch 2 is certified: open the database round with a buffered
   signature waiting, crash at cut c somewhere in the round, then continue honestly *)
Definition round_with (c : cut) : list ev :=
  prefix2 ++ [Tick; NewImm; Sig (sg_of xd 0) xd] ++ [Crash c] ++ [Tick; Tick; Tick] ++ sign_all xd ++ [Crash c]
          ++ [Tick; Tick; Tick] ++ sign_all xd ++ [Tick; Tick; NewImm; Tick; Tick]
          ++ sign_all {| en_ty := CDB; en_epoch := 2; en_imm := 3 |} ++ [Tick].
Definition all_cuts : list cut :=
  [CutOmCreated; CutBufRegistered 0; CutBufRemoved; CutCertInserted; CutOmCertified; CutArtifactComputed; CutEntityStored].
Definition later_round_certified (c : cut) : bool :=
  let s := run_st 3 [0;1;2] (round_with c) in
  existsb (ent_eqb {| en_ty := CDB; en_epoch := 2; en_imm := 3 |}) (certified s)
  && existsb (fun e => ent_eqb (se_ent e) {| en_ty := CDB; en_epoch := 2; en_imm := 3 |}) (s_ents s)
  && Nat.ltb 0 (crashes_from 3 (init [0;1;2]) (round_with c)).
Lemma progress_witnesses : forallb later_round_certified all_cuts = true.
Proof. vm_compute. reflexivity. Qed.

Lemma refuted_witness :
  known 3 [0;1;2] scenario_cut = true /\ has_dup (certified (run_st 3 [0;1;2] scenario_cut)) = true.
Proof. vm_compute. split; reflexivity. Qed.
