#!/bin/bash
# agents/commit.sh "<message>" [Cxx ...]: commit everything in /verif EXCEPT the files of the properties
# listed (those are being edited by a sub-agent right now and may be in an inconsistent state)
cd /verif || exit 1
MSG="$1"; shift
EXC=()
for P in "$@"; do
  EXC+=(":!coq/$P" ":!props/$P.json" ":!evidence/$P.json")
  H=$(python3 -c "import json;p=json.load(open('props/$P.json'));print('harness/'+p['harness']['package']+'/src/bin/'+p['harness']['bin']+'.rs')" 2>/dev/null)
  [ -n "$H" ] && EXC+=(":!$H")
  case "$P" in C14|C15) EXC+=(":!harness/h_aggregator/src/drv.rs");; esac
done
git add -A . "${EXC[@]}"
git commit -qm "$MSG" && git log --oneline | head -1
