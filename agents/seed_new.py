#!/usr/bin/env python3
"""agents/seed_new.py Cxx [tag] : create a scratch worktree of /repo under /tmp/seed/<Cxx><tag>/wt and print the
seeding prompt for a fresh sub-agent (property record only; nothing from /verif)."""
import json, os, subprocess, sys
ROOT = os.path.dirname(os.path.dirname(os.path.abspath(__file__)))
pid = sys.argv[1]; tag = sys.argv[2] if len(sys.argv) > 2 else ""
rec = [json.loads(l) for l in open(os.path.join(ROOT, "properties.jsonl")) if l.strip()]
rec = [r for r in rec if r["id"] == pid][0]
base = f"/tmp/seed/{pid}{tag}"
wt, tgt = base + "/wt", base + "/target"
os.makedirs(base, exist_ok=True)
if not os.path.exists(wt):
    subprocess.check_call(["git", "-C", "/repo", "worktree", "add", "--detach", wt, "HEAD"], stdout=subprocess.DEVNULL)
text = (f"{rec['id']} — {rec['title']}\n\n{rec['statement']}\n\nQuantified over: {rec['quantifier']['text']}\n\n"
        f"Where it lives (anchors): files {', '.join(rec['anchors']['files'])}; mechanisms: " + "; ".join(f"{m['name']} [{m['where']}]" if isinstance(m, dict) else str(m) for m in (rec['anchors']['mechanism'] if isinstance(rec['anchors']['mechanism'], list) else [rec['anchors']['mechanism']])))
s = open(os.path.join(ROOT, "agents", "SEED_PROMPT.md")).read()
print(s.replace("{WT}", wt).replace("{TGT}", tgt).replace("{PID}", pid).replace("{PROPERTY}", text))
