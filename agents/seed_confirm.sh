#!/bin/bash
# agents/seed_confirm.sh <Cxx[tag]> [check-ids...]
# Confirms a seeded change produced in /tmp/seed/<Cxx[tag]>/wt (SEED/patch.diff, run_demo.sh, existing_tests.sh):
#   1. patch applies to a clean checkout of /repo's HEAD (checked on the worktree itself: reset, apply)
#   2. with the patch: existing tests of the touched crates pass, the demonstration FAILS
#   3. without the patch: the demonstration PASSES
#   4. runs ./check --scratch-repo <worktree> for each given check id (default: the property itself), patch applied
# then files everything under /verif/seeded/<Cxx[tag]>/ (patch.diff, demo files, meta.json + confirm.json).
# Nothing is ever applied to /repo.
set -u
ID="$1"; shift
PID="${ID:0:3}"
CHECKS="${*:-$PID}"
BASE=/tmp/seed/$ID; WT=$BASE/wt; TGT=$BASE/target
export WT TGT CARGO_NET_OFFLINE=true CARGO_TARGET_DIR=$TGT
LOG=$BASE/confirm.log; : > $LOG
say() { echo "[seed_confirm $ID] $*" | tee -a $LOG; }
cd $WT || exit 2
[ -f SEED/patch.diff ] || { say "no SEED/patch.diff"; exit 2; }
# clean source state (keep SEED/)
git -C $WT stash -u -q -- . ':!SEED' 2>/dev/null || true
git -C $WT checkout -q -- . 2>/dev/null
git -C $WT clean -fdq -e SEED 2>/dev/null
if ! git -C $WT apply --check SEED/patch.diff 2>>$LOG; then say "patch does not apply to HEAD"; exit 2; fi
# 3. without patch: demo passes
timeout 3600 bash SEED/run_demo.sh >> $LOG 2>&1; D0=$?
say "demo without patch: exit $D0 (want 0)"
git -C $WT apply SEED/patch.diff
timeout 3600 bash SEED/run_demo.sh >> $LOG 2>&1; D1=$?
say "demo with patch: exit $D1 (want != 0)"
timeout 7200 bash SEED/existing_tests.sh >> $LOG 2>&1; T1=$?
say "existing tests with patch: exit $T1 (want 0)"
RES=""
for c in $CHECKS; do
  (cd /verif && timeout 7200 ./check --scratch-repo $WT $c) > $BASE/check_$c.log 2>&1; rc=$?
  v=$(grep -m1 '^VIOLATION' $BASE/check_$c.log)
  say "check $c on patched worktree: exit $rc ${v}"
  RES="$RES{\"check\":\"$c\",\"exit\":$rc,\"line\":\"$v\"},"
done
DST=/verif/seeded/$ID; mkdir -p $DST
cp -r SEED/. $DST/ 2>/dev/null
rm -rf $DST/demo/target $DST/target
python3 - "$DST" "$ID" "$D0" "$D1" "$T1" "[${RES%,}]" <<'EOF'
import json, sys
dst, sid, d0, d1, t1, res = sys.argv[1:]
json.dump({"seed": sid, "demo_without_patch_exit": int(d0), "demo_with_patch_exit": int(d1),
           "existing_tests_with_patch_exit": int(t1), "confirmed": int(d0) == 0 and int(d1) != 0 and int(t1) == 0,
           "checks_on_patched_worktree": json.loads(res),
           "how": "agents/seed_confirm.sh: demo run on the clean worktree, then with SEED/patch.diff applied, existing tests of the touched crates with the patch, then ./check --scratch-repo <worktree> <id>"},
          open(dst + "/confirm.json", "w"), indent=1)
EOF
say "filed under $DST"
