#!/bin/bash
# agents/seed_clean.sh <id>...: remove the scratch worktree, its build output and the scratch copy of /verif
for ID in "$@"; do
  WT=/tmp/seed/$ID/wt
  H=$(python3 -c "import hashlib,sys; print(hashlib.md5(sys.argv[1].encode()).hexdigest()[:8])" "$WT")
  git -C /repo worktree remove --force $WT 2>/dev/null
  rm -rf /tmp/seed/$ID /tmp/verif-scratch-$H
done
git -C /repo worktree prune
