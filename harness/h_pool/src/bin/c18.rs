//! C18 correspondence harness: the resource pool driven through chosen interleavings.
//!
//! Real threads execute the real `ResourcePool` operations (and the provers' `compute_cache`
//! call sequence, reproduced in `refresh`); the `#[cfg(mithril_verif)]` yield points of
//! `resource_pool.rs` call the scheduler installed here, which parks the calling worker until
//! the controller grants it the next step.  One controller step = one critical section of one
//! thread, exactly the granularity of `coq/C18/Model.v`.  The executed event log is printed as
//! the model's schedule; the observation is, per event, (count, discriminant, status of the
//! stepped thread, hand-out (id, generation it was built for, item tag) / time-out).
//!
//! Callbacks are scheduling points too.  The pooled value belongs to the harness (`Hooked<T>`), and
//! the pool calls back into it: `Reset::reset` (give_back_resource, reset_available_resources) and
//! `Drop::drop` (resources drained by clear / clear_and_increment_discriminant, resources that
//! give_back_resource does not push).  Both callbacks park the calling worker.  The controller then
//! MEASURES whether a pool lock is held around the callback: two prober threads call
//! `pool.count()` (queue lock) and `pool.discriminant()` (discriminant lock) and the controller
//! looks at whether they return or go to sleep on the mutex (thread state in /proc).  A callback
//! under a lock is part of the critical section (the worker is released at once, the callback and
//! the locks seen are part of the observation); a callback with no lock held is an interleaving
//! point: the worker stays parked there and every other thread can run whole operations.  The
//! model predicts both (Model.step_cbs), so a refactoring that moves a callback out of (or into)
//! a critical section disagrees with the model, and the schedules walk through the window.
//!
//! The `holds` oracle uses provenance only (each resource carries the generation it was built
//! for; the controller knows which refreshes have drained the pool): no superseded resource is
//! handed out, the queue never grows beyond `size`, a blocked acquirer is woken by a push.
use hc::{coq, Case, Rng, Sink};
use mithril_common::crypto_helper::{MKMap, MKMapNode, MKTree, MKTreeStoreInMemory};
use mithril_common::entities::{BlockNumber, BlockRange};
use mithril_resource_pool::{verif, Reset, ResourcePool, ResourcePoolItem};
use std::cell::RefCell;
use std::collections::HashMap;
use std::sync::atomic::{AtomicBool, AtomicU64, Ordering};
use std::sync::mpsc::{channel, Sender};
use std::sync::{Arc, Condvar, Mutex};
use std::time::{Duration, Instant};

// ---------------------------------------------------------------------------------- resource

/// What the harness needs from a pooled value: build one for (id, generation), recover that
/// provenance from the value itself, write to it, see whether it has been reset.
trait Pooled: Reset + Send + Sync + Sized + 'static {
    fn make(id: u64, generation: u64) -> Self;
    /// (id, generation it was built for)
    fn provenance(&self) -> (u64, u64);
    fn touch(&mut self);
    fn is_dirty(&self) -> bool;
}

/// Light resource: an id, the generation it was built for, a "used" mark that `reset` must clear.
#[derive(Debug)]
struct Res {
    id: u64,
    built_for: u64,
    dirty: bool,
}
impl Reset for Res {
    fn reset(&mut self) -> anyhow::Result<()> {
        self.dirty = false;
        Ok(())
    }
}
impl Pooled for Res {
    fn make(id: u64, generation: u64) -> Self {
        Res { id, built_for: generation, dirty: false }
    }
    fn provenance(&self) -> (u64, u64) {
        (self.id, self.built_for)
    }
    fn touch(&mut self) {
        self.dirty = true;
    }
    fn is_dirty(&self) -> bool {
        self.dirty
    }
}

/// The type the provers pool: a Merkle map over block ranges, with the pool crate's own
/// `impl Reset for MKMap` (compress).  The map's content encodes (id, generation): its root is
/// looked up in a registry filled at creation, so the generation of a handed-out map is judged
/// from the data it would serve.  `touch` is what `compute_proof` does with an acquired map
/// (replace a block range root by the full Merkle tree of that range); `reset` must undo it.
type MkMap = MKMap<BlockRange, MKMapNode<BlockRange, MKTreeStoreInMemory>, MKTreeStoreInMemory>;

fn range_leaves(id: u64, generation: u64, k: u64) -> Vec<String> {
    if k == 3 {
        vec![format!("resource-{id}"), format!("resource-{id}-pad")]
    } else {
        (0..3).map(|j| format!("generation-{generation}-range-{k}-tx-{j}")).collect()
    }
}
fn range_tree(id: u64, generation: u64, k: u64) -> MKTree<MKTreeStoreInMemory> {
    MKTree::new(&range_leaves(id, generation, k)).unwrap()
}
static REGISTRY: Mutex<Option<HashMap<Vec<u8>, (u64, u64)>>> = Mutex::new(None);

impl Pooled for MkMap {
    fn make(id: u64, generation: u64) -> Self {
        let entries: Vec<(BlockRange, MKMapNode<BlockRange, MKTreeStoreInMemory>)> = (0..4u64)
            .map(|k| {
                let root = range_tree(id, generation, k).compute_root().unwrap();
                (BlockRange::from_block_number(BlockNumber(k * 15)), MKMapNode::TreeNode(root))
            })
            .collect();
        let map = MKMap::new(&entries).unwrap();
        let root: Vec<u8> = map.compute_root().unwrap().to_vec();
        REGISTRY.lock().unwrap().get_or_insert_with(HashMap::new).insert(root, (id, generation));
        map
    }
    fn provenance(&self) -> (u64, u64) {
        let root: Vec<u8> = self.compute_root().unwrap().to_vec();
        REGISTRY.lock().unwrap().as_ref().and_then(|m| m.get(&root).copied()).unwrap_or((u64::MAX, u64::MAX))
    }
    fn touch(&mut self) {
        let (id, generation) = self.provenance();
        let k = id % 3;
        self.replace(BlockRange::from_block_number(BlockNumber(k * 15)), range_tree(id, generation, k).into()).unwrap();
    }
    fn is_dirty(&self) -> bool {
        self.iter().any(|(_, v)| !matches!(v, MKMapNode::TreeNode(_)))
    }
}

/// The pooled value actually put in the pool: `T` with the two callbacks the pool makes into a
/// pooled value (`Reset::reset`, `Drop::drop`) turned into scheduling points.
struct Hooked<T: Pooled> {
    id: u64,
    inner: T,
}
impl<T: Pooled> Reset for Hooked<T> {
    fn reset(&mut self) -> anyhow::Result<()> {
        callback(0, self.id);
        self.inner.reset()
    }
}
impl<T: Pooled> Drop for Hooked<T> {
    fn drop(&mut self) {
        callback(1, self.id);
    }
}
impl<T: Pooled> Pooled for Hooked<T> {
    fn make(id: u64, generation: u64) -> Self {
        Hooked { id, inner: T::make(id, generation) }
    }
    fn provenance(&self) -> (u64, u64) {
        self.inner.provenance()
    }
    fn touch(&mut self) {
        self.inner.touch()
    }
    fn is_dirty(&self) -> bool {
        self.inner.is_dirty()
    }
}

// ---------------------------------------------------------------------------------- scheduler

#[derive(Clone, Copy, PartialEq, Debug)]
enum St {
    Idle,    // no operation in progress
    Running, // executing (between two yield points)
    Parked,  // stopped at a yield point, mid-operation
    ParkedCb, // stopped inside a callback of the pooled value (reset / drop), mid-operation
    Waiting, // blocked in the pool's condvar
}

#[derive(Clone, Debug, PartialEq)]
enum Outcome {
    None,
    Handout { id: u64, built_for: u64, dirty: bool, tag: u64 },
    Timeout,
}

struct W {
    st: St,
    grant: bool,
    pushed: bool,
    holding: bool,
    outcome: Outcome,
    drained: Option<u64>, // generation whose drain (discriminant change + clear) this worker completed
    cb: Option<(u8, u64)>, // the callback the worker is parked in: (0 reset / 1 drop, resource id)
    param: Option<u64>,    // concrete argument of the operation just started (give_back_resource / set_discriminant)
}

struct Ctl {
    m: Mutex<Vec<W>>,
    cv: Condvar,
    free: AtomicBool,
    next_id: AtomicU64,
}

thread_local! {
    static ME: RefCell<Option<(usize, Arc<Ctl>)>> = const { RefCell::new(None) };
}

/// The scheduler installed in the pool crate.
fn sched(label: &'static str) {
    ME.with(|me| {
        let me = me.borrow();
        let Some((i, ctl)) = me.as_ref() else { return };
        let i = *i;
        if let Some(l) = label.strip_prefix("in_lock:") {
            let mut g = ctl.m.lock().unwrap();
            match l {
                "acquire_resource:wait" => g[i].st = St::Waiting,
                "acquire_resource:woken" => g[i].st = St::Running,
                "give_back_resource:pushed" => g[i].pushed = true,
                _ => {}
            }
            ctl.cv.notify_all();
            return;
        }
        if ctl.free.load(Ordering::SeqCst) {
            return;
        }
        let mut g = ctl.m.lock().unwrap();
        g[i].st = St::Parked;
        ctl.cv.notify_all();
        while !g[i].grant && !ctl.free.load(Ordering::SeqCst) {
            g = ctl.cv.wait(g).unwrap();
        }
        g[i].grant = false;
        g[i].st = St::Running;
    })
}

/// Called by the pooled value from `Reset::reset` / `Drop::drop`: parks the calling worker.
fn callback(kind: u8, id: u64) {
    let _ = ME.try_with(|me| {
        let Ok(me) = me.try_borrow() else { return };
        let Some((i, ctl)) = me.as_ref() else { return };
        let i = *i;
        if ctl.free.load(Ordering::SeqCst) {
            return;
        }
        let mut g = ctl.m.lock().unwrap();
        g[i].st = St::ParkedCb;
        g[i].cb = Some((kind, id));
        ctl.cv.notify_all();
        while !g[i].grant && !ctl.free.load(Ordering::SeqCst) {
            g = ctl.cv.wait(g).unwrap();
        }
        g[i].grant = false;
        g[i].cb = None;
        g[i].st = St::Running;
    });
}

// ---------------------------------------------------------------------------------- lock probes

/// A thread that, on request, calls one pool operation that takes one pool lock and nothing else
/// (`count()`: the queue lock; `discriminant()`: the discriminant lock).  The controller decides
/// whether the lock is held by somebody else from what happens to the call: it returns (free), or
/// the thread goes to sleep inside it (state `S` in /proc: between `entered` and `done` the only
/// place where the thread can sleep is the pool mutex).
struct Probe {
    m: Mutex<(u64, bool)>, // (request number, stop)
    cv: Condvar,
    entered: AtomicU64,
    done: AtomicU64,
    tid: AtomicU64,
}
impl Probe {
    fn new() -> Arc<Probe> {
        Arc::new(Probe { m: Mutex::new((0, false)), cv: Condvar::new(), entered: AtomicU64::new(0), done: AtomicU64::new(0), tid: AtomicU64::new(0) })
    }
    fn serve(&self, call: impl Fn()) {
        let tid = std::fs::read_link("/proc/thread-self")
            .ok()
            .and_then(|p| p.file_name().and_then(|f| f.to_str().and_then(|f| f.parse::<u64>().ok())))
            .unwrap_or(0);
        self.tid.store(tid, Ordering::SeqCst);
        let mut seen = 0u64;
        loop {
            {
                let mut g = self.m.lock().unwrap();
                while g.0 == seen && !g.1 {
                    g = self.cv.wait(g).unwrap();
                }
                if g.1 {
                    return;
                }
                seen = g.0;
            }
            self.entered.store(seen, Ordering::SeqCst);
            call();
            self.done.store(seen, Ordering::SeqCst);
        }
    }
    fn request(&self) -> u64 {
        let mut g = self.m.lock().unwrap();
        if self.done.load(Ordering::SeqCst) != g.0 {
            // the previous call is still in progress (it found the lock taken and the worker that
            // holds it has stopped again): what happens to that call is the answer
            return g.0;
        }
        g.0 += 1;
        self.cv.notify_all();
        g.0
    }
    fn sleeping(&self) -> Option<bool> {
        let tid = self.tid.load(Ordering::SeqCst);
        let stat = std::fs::read_to_string(format!("/proc/self/task/{tid}/stat")).ok()?;
        let rest = &stat[stat.rfind(')')? + 1..];
        Some(rest.trim_start().starts_with('S'))
    }
    /// true = the lock is held by another thread
    fn locked(&self, req: u64) -> bool {
        let start = Instant::now();
        loop {
            if self.done.load(Ordering::SeqCst) == req {
                return false;
            }
            if self.entered.load(Ordering::SeqCst) == req {
                match self.sleeping() {
                    Some(true) => {
                        // a lock held by a PARKED worker stays held: require the prober to stay asleep over a
                        // window of 12 ms (a running thread that merely passes through the lock, or is
                        // descheduled for a moment while holding it, lets the prober through well within that)
                        let mut still = true;
                        for _ in 0..12 {
                            std::thread::sleep(Duration::from_millis(1));
                            if self.done.load(Ordering::SeqCst) == req {
                                return false;
                            }
                            if self.sleeping() != Some(true) {
                                still = false;
                                break;
                            }
                        }
                        if still && self.done.load(Ordering::SeqCst) != req {
                            return true;
                        }
                    }
                    Some(false) => {}
                    None => {
                        // no /proc: fall back to a generous time-out
                        if start.elapsed() > Duration::from_millis(400) {
                            return true;
                        }
                    }
                }
            }
            if start.elapsed() > Duration::from_secs(5) {
                return true;
            }
            std::thread::sleep(Duration::from_micros(30));
        }
    }
    fn stop(&self) {
        self.m.lock().unwrap().1 = true;
        self.cv.notify_all();
    }
}

#[derive(Clone, Copy, Debug, PartialEq)]
enum Cmd {
    Acquire { long: bool },
    Drop,
    GiveItem,
    Use,
    Refresh,
    ResetAvail,
    Clear,
    Bump,
    SetDiscUp,
    Give(i8),
    Exit,
}

const LONG: Duration = Duration::from_secs(30);
const SHORT: Duration = Duration::from_millis(8);

/// The pool calls of `compute_cache` (prover.rs / prover_legacy.rs), in the same order:
/// `size()`, `clear_and_increment_discriminant()`, then `size` x `give_back_resource(new, g)`.
/// (`SOURCE_SHAPE` below checks that the two provers still make exactly these calls.)
fn refresh<T: Pooled>(pool: &'static ResourcePool<T>, ctl: &Ctl, me: usize) {
    let size = pool.size();
    let g = pool.clear_and_increment_discriminant().unwrap();
    ctl.m.lock().unwrap()[me].drained = Some(g);
    for _ in 0..size {
        let id = ctl.next_id.fetch_add(1, Ordering::SeqCst);
        pool.give_back_resource(T::make(id, g), g).unwrap();
    }
}

fn worker<T: Pooled>(i: usize, ctl: Arc<Ctl>, pool: &'static ResourcePool<T>, rx: std::sync::mpsc::Receiver<Cmd>) {
    ME.with(|me| *me.borrow_mut() = Some((i, ctl.clone())));
    let mut item: Option<ResourcePoolItem<'static, T>> = None;
    while let Ok(cmd) = rx.recv() {
        let mut outcome = Outcome::None;
        match cmd {
            Cmd::Exit => break,
            Cmd::Acquire { long } => match pool.acquire_resource(if long { LONG } else { SHORT }) {
                Ok(it) => {
                    let (id, built_for) = it.provenance();
                    outcome = Outcome::Handout { id, built_for, dirty: it.is_dirty(), tag: it.discriminant() };
                    item = Some(it);
                }
                Err(_) => outcome = Outcome::Timeout,
            },
            Cmd::Drop => drop(item.take()),
            Cmd::GiveItem => {
                if let Some(it) = item.take() {
                    pool.give_back_resource_pool_item(it).unwrap();
                }
            }
            Cmd::Use => {
                if let Some(it) = item.as_mut() {
                    it.touch();
                }
            }
            Cmd::Refresh => refresh(pool, &ctl, i),
            Cmd::ResetAvail => pool.reset_available_resources().unwrap(),
            Cmd::Clear => pool.clear(),
            Cmd::Bump => {
                let g = pool.clear_and_increment_discriminant().unwrap();
                ctl.m.lock().unwrap()[i].drained = Some(g);
            }
            Cmd::SetDiscUp => {
                let d = pool.discriminant().unwrap() + 1;
                ctl.m.lock().unwrap()[i].param = Some(d);
                pool.set_discriminant(d).unwrap();
            }
            Cmd::Give(delta) => {
                // a resource built for generation g, given back tagged g (g = current, older, newer)
                let d = pool.discriminant().unwrap();
                let g = if delta < 0 { d.saturating_sub(1) } else { d + delta as u64 };
                ctl.m.lock().unwrap()[i].param = Some(g);
                let id = ctl.next_id.fetch_add(1, Ordering::SeqCst);
                pool.give_back_resource(T::make(id, g), g).unwrap();
            }
        }
        let mut g = ctl.m.lock().unwrap();
        g[i].st = St::Idle;
        g[i].holding = item.is_some();
        g[i].outcome = outcome;
        ctl.cv.notify_all();
    }
    // leave: whatever is still held is given back without scheduling
    drop(item);
}

// ---------------------------------------------------------------------------------- schedules

/// What an idle thread that holds nothing does when stepped.
#[derive(Clone, Copy, Debug, PartialEq)]
enum CI {
    None,
    Acquire,      // acquire_resource with a long time-out (blocks when empty)
    AcquireShort, // acquire_resource with a short time-out (the harness lets it expire when empty)
    Refresh,
    Reset,
    Clear,     // clear()
    Bump,      // clear_and_increment_discriminant() alone
    SetDiscUp, // set_discriminant(current + 1)
    Give(i8),  // give_back_resource(new resource built for g, g), g = current - 1 / current / current + 1
}
/// What an idle thread that holds an item does when stepped.
#[derive(Clone, Copy, Debug, PartialEq)]
enum CH {
    None,
    Drop,
    GiveItem,
    Use,
}
#[derive(Clone, Copy, Debug)]
struct Ev {
    t: usize,
    ci: CI,
    ch: CH,
}

#[derive(Clone, Debug)]
struct Input {
    size: usize,
    init: usize, // number of generation-0 resources the pool starts with
    threads: usize,
    sched: Vec<Ev>,
}

/// One executed event, as the model sees it.
#[derive(Clone, Debug)]
enum Exec {
    Step { t: usize, ci: CI, arg: u64, ch: CH, wake: usize },
    Timeout { t: usize },
}

struct Snap {
    st: St,
    status: u64,
    outcome: Outcome,
    drained: Option<u64>,
    others_busy: bool,
    cb: Option<(u8, u64)>,
    param: Option<u64>,
}

/// (0 reset / 1 drop, resource id, queue lock held, discriminant lock held)
type Cb = (u8, u64, bool, bool);

struct StepObs {
    count: Option<usize>,
    disc: u64,
    status: u64,
    outcome: Outcome,
    cbs: Vec<Cb>,
}

struct RunResult {
    log: Vec<Exec>,
    obs: Vec<StepObs>,
    final_queue: Vec<(u64, u64)>,
    violation: Option<String>,
    handouts: usize,
    refreshes: usize,
    overlap: bool,
    windows: usize, // events of a thread while another thread was stopped in a callback with no lock held
}

fn status_code(w: &W) -> u64 {
    match (w.st, w.holding) {
        (St::Idle, false) => 0,
        (St::Idle, true) => 1,
        (St::Parked, _) => 2,
        (St::ParkedCb, _) => match w.cb {
            Some((0, _)) => 5,
            _ => 6,
        },
        (St::Waiting, _) => 3,
        (St::Running, _) => 9,
    }
}

fn wait_until<F: Fn(&Vec<W>) -> bool>(ctl: &Ctl, limit: Duration, f: F) -> bool {
    let deadline = Instant::now() + limit;
    let mut g = ctl.m.lock().unwrap();
    loop {
        if f(&g) {
            return true;
        }
        let now = Instant::now();
        if now >= deadline {
            return false;
        }
        g = ctl.cv.wait_timeout(g, deadline - now).unwrap().0;
    }
}

fn run_impl<U: Pooled>(inp: &Input) -> RunResult {
    run_hooked::<Hooked<U>>(inp)
}

fn run_hooked<T: Pooled>(inp: &Input) -> RunResult {
    let init: Vec<T> = (0..inp.init).map(|i| T::make(i as u64 + 1, 0)).collect();
    let pool: &'static ResourcePool<T> = Box::leak(Box::new(ResourcePool::new(inp.size, init)));
    let ctl = Arc::new(Ctl {
        m: Mutex::new(
            (0..inp.threads)
                .map(|_| W { st: St::Idle, grant: false, pushed: false, holding: false, outcome: Outcome::None, drained: None, cb: None, param: None })
                .collect(),
        ),
        cv: Condvar::new(),
        free: AtomicBool::new(false),
        next_id: AtomicU64::new(100),
    });
    let mut txs: Vec<Sender<Cmd>> = vec![];
    let mut joins = vec![];
    for i in 0..inp.threads {
        let (tx, rx) = channel();
        txs.push(tx);
        let c = ctl.clone();
        joins.push(std::thread::spawn(move || worker::<T>(i, c, pool, rx)));
    }

    // lock probes
    let probe_q = Probe::new();
    let probe_d = Probe::new();
    let pj = {
        let (pq, pd) = (probe_q.clone(), probe_d.clone());
        [
            std::thread::spawn(move || pq.serve(|| { let _ = pool.count(); })),
            std::thread::spawn(move || pd.serve(|| { let _ = pool.discriminant(); })),
        ]
    };
    let locks_held = || -> (bool, bool) {
        let (rq, rd) = (probe_q.request(), probe_d.request());
        (probe_q.locked(rq), probe_d.locked(rd))
    };

    let mut res = RunResult { log: vec![], obs: vec![], final_queue: vec![], violation: None, handouts: 0, refreshes: 0, overlap: false, windows: 0 };
    let mut last_drained: u64 = 0;

    // judge + record one executed event from a snapshot of the stepped thread
    let record = |res: &mut RunResult, ex: Exec, t: usize, snap: Snap, cbs: Vec<Cb>, cap_ref: Option<usize>, with_count: bool, last_drained: &mut u64| {
        if let Some(d) = snap.drained {
            if d > *last_drained {
                *last_drained = d;
            }
            res.refreshes += 1;
            if snap.others_busy {
                res.overlap = true;
            }
        }
        let count = pool.count().unwrap();
        let disc = pool.discriminant().unwrap();
        if let Outcome::Handout { id, built_for, dirty, .. } = &snap.outcome {
            res.handouts += 1;
            if *built_for < *last_drained && res.violation.is_none() {
                res.violation = Some(format!(
                    "event {}: thread {} was handed resource #{} built for generation {} after the pool had been drained for generation {}",
                    res.log.len(), t, id, built_for, last_drained
                ));
            }
            if *dirty && res.violation.is_none() {
                res.violation = Some(format!("event {}: resource #{} handed out without having been reset", res.log.len(), id));
            }
        }
        if let Some(before) = cap_ref {
            if count > std::cmp::max(inp.size, before) && res.violation.is_none() {
                res.violation = Some(format!("event {}: the pool holds {} resources, its size is {}", res.log.len(), count, inp.size));
            }
        }
        res.log.push(ex);
        res.obs.push(StepObs { count: if with_count { Some(count) } else { None }, disc, status: snap.status, outcome: snap.outcome, cbs });
    };
    // wait until thread t is not running any more and take a snapshot under the same lock
    let settle_snap = |t: usize, want_idle: bool| -> Option<Snap> {
        let deadline = Instant::now() + Duration::from_secs(20);
        let mut g = ctl.m.lock().unwrap();
        loop {
            let done = if want_idle { g[t].st == St::Idle } else { g[t].st != St::Running };
            if done {
                let outcome = std::mem::replace(&mut g[t].outcome, Outcome::None);
                let drained = g[t].drained.take();
                let others_busy = (0..g.len()).any(|w| w != t && (g[w].holding || g[w].st == St::Parked || g[w].st == St::ParkedCb));
                let param = g[t].param.take();
                return Some(Snap { st: g[t].st, status: status_code(&g[t]), outcome, drained, others_busy, cb: g[t].cb, param });
            }
            let now = Instant::now();
            if now >= deadline {
                return None;
            }
            g = ctl.cv.wait_timeout(g, deadline - now).unwrap().0;
        }
    };
    let idle_snap = |t: usize| -> Snap {
        let g = ctl.m.lock().unwrap();
        Snap { st: g[t].st, status: status_code(&g[t]), outcome: Outcome::None, drained: None, others_busy: false, cb: None, param: None }
    };

    'outer: for ev in &inp.sched {
        let t = ev.t;
        // a thread that was woken by a push the controller did not see (no `pushed` label: only
        // on changed code) may still be running: let it settle
        if !wait_until(&ctl, Duration::from_secs(20), |g| g[t].st != St::Running) {
            res.violation = Some(format!("event {}: thread {} is still running although the controller did not step it", res.log.len(), t));
            break 'outer;
        }
        let (st, holding, in_window) = {
            let g = ctl.m.lock().unwrap();
            (g[t].st, g[t].holding, (0..g.len()).any(|w| w != t && g[w].st == St::ParkedCb))
        };
        let count_before = pool.count().unwrap();
        let waiting_before: Vec<usize> = {
            let g = ctl.m.lock().unwrap();
            (0..inp.threads).filter(|&w| w != t && g[w].st == St::Waiting).collect()
        };
        let step = |arg: u64, wake: usize| Exec::Step { t, ci: ev.ci, arg, ch: ev.ch, wake };
        let mut short = false;
        match st {
            St::Waiting => {
                // blocked in the condvar: the scheduler cannot advance it
                record(&mut res, step(0, 0), t, idle_snap(t), vec![], Some(count_before), true, &mut last_drained);
                continue;
            }
            St::Parked | St::ParkedCb => {
                let mut g = ctl.m.lock().unwrap();
                g[t].st = St::Running;
                g[t].grant = true;
                ctl.cv.notify_all();
            }
            St::Idle => {
                let cmd = if holding {
                    match ev.ch {
                        CH::None => None,
                        CH::Drop => Some(Cmd::Drop),
                        CH::GiveItem => Some(Cmd::GiveItem),
                        CH::Use => Some(Cmd::Use),
                    }
                } else {
                    match ev.ci {
                        CI::None => None,
                        CI::Acquire if inp.size > 0 => Some(Cmd::Acquire { long: true }),
                        CI::Acquire | CI::AcquireShort => {
                            short = true;
                            Some(Cmd::Acquire { long: false })
                        }
                        CI::Refresh => Some(Cmd::Refresh),
                        CI::Reset => Some(Cmd::ResetAvail),
                        CI::Clear => Some(Cmd::Clear),
                        CI::Bump => Some(Cmd::Bump),
                        CI::SetDiscUp => Some(Cmd::SetDiscUp),
                        CI::Give(d) => Some(Cmd::Give(d)),
                    }
                };
                match cmd {
                    None => {
                        record(&mut res, step(0, 0), t, idle_snap(t), vec![], Some(count_before), true, &mut last_drained);
                        continue;
                    }
                    Some(c) => {
                        ctl.m.lock().unwrap()[t].st = St::Running;
                        txs[t].send(c).unwrap();
                    }
                }
            }
            St::Running => {
                res.violation = Some(format!("event {}: thread {} started running without being stepped", res.log.len(), t));
                break 'outer;
            }
        }
        if in_window {
            res.windows += 1;
        }
        // let t run to its next yield point, the end of its operation, the condvar, or a callback
        // with no lock held; a callback under a pool lock is part of the critical section: it is
        // recorded with the locks seen and the thread is released at once
        let mut cbs: Vec<Cb> = vec![];
        let mut arg: u64 = 0;
        let mut drained_acc: Option<u64> = None;
        let snap = loop {
            let Some(mut snap) = settle_snap(t, false) else {
                res.violation = Some(format!("event {}: thread {} did not reach a yield point (deadlock?)", res.log.len(), t));
                break 'outer;
            };
            if let Some(p) = snap.param {
                arg = p;
            }
            drained_acc = drained_acc.or(snap.drained);
            if snap.st == St::ParkedCb {
                let (kind, id) = snap.cb.unwrap_or((9, 0));
                let (ql, dl) = locks_held();
                cbs.push((kind, id, ql, dl));
                if (ql || dl) && cbs.len() < 64 {
                    let mut g = ctl.m.lock().unwrap();
                    g[t].st = St::Running;
                    g[t].grant = true;
                    ctl.cv.notify_all();
                    continue;
                }
            }
            snap.drained = drained_acc;
            break snap;
        };
        if snap.st == St::Waiting {
            // the label is emitted under the queue lock just before the wait: once the lock can be
            // taken the thread is enqueued on the condvar
            let _ = pool.count();
        }
        // did this step push while others were blocked?  then one of them must wake up and take it
        let pushed = std::mem::replace(&mut ctl.m.lock().unwrap()[t].pushed, false);
        let mut woken: Option<usize> = None;
        if pushed && !waiting_before.is_empty() {
            let wb = waiting_before.clone();
            if wait_until(&ctl, Duration::from_secs(2), |g| wb.iter().any(|&w| g[w].st == St::Idle)) {
                let g = ctl.m.lock().unwrap();
                woken = wb.iter().copied().find(|&w| g[w].st == St::Idle);
            } else {
                if res.violation.is_none() {
                    res.violation = Some(format!(
                        "event {}: thread {} pushed a resource while threads {:?} were blocked in acquire_resource and none was woken",
                        res.log.len(), t, waiting_before
                    ));
                }
                record(&mut res, step(arg, 0), t, snap, cbs, None, true, &mut last_drained);
                break 'outer;
            }
        }
        let waiting_short = short && snap.st == St::Waiting;
        if short && snap.st == St::Idle && snap.outcome == Outcome::Timeout {
            // the short wait expired before the controller looked: the thread did block (it reports
            // a time-out), so the two events are recorded from what is known of them
            let blocked = Snap { st: St::Waiting, status: 3, outcome: Outcome::None, drained: None, others_busy: false, cb: None, param: None };
            record(&mut res, step(arg, 0), t, blocked, vec![], Some(count_before), true, &mut last_drained);
            record(&mut res, Exec::Timeout { t }, t, snap, vec![], Some(count_before), true, &mut last_drained);
            continue;
        }
        match woken {
            Some(w) => {
                // the push and the woken thread's pop are observed together: the count is reported
                // with the second event only (Model.run does the same while a wake-up is in flight)
                record(&mut res, step(arg, w), t, snap, cbs, None, false, &mut last_drained);
                let sw = settle_snap(w, true).unwrap();
                record(&mut res, Exec::Step { t: w, ci: CI::None, arg: 0, ch: CH::None, wake: 0 }, w, sw, vec![], Some(count_before), true, &mut last_drained);
            }
            None => record(&mut res, step(arg, 0), t, snap, cbs, Some(count_before), true, &mut last_drained),
        }
        if waiting_short {
            // the short time-out expires with nothing else running
            let Some(s2) = settle_snap(t, true) else {
                res.violation = Some(format!("event {}: acquire_resource did not time out", res.log.len()));
                break 'outer;
            };
            record(&mut res, Exec::Timeout { t }, t, s2, vec![], Some(count_before), true, &mut last_drained);
        }
    }

    // final queue content: take everything out, then make the tags stale so that dropping does not re-admit
    let mut items = vec![];
    let waiting_now = ctl.m.lock().unwrap().iter().any(|w| w.st == St::Waiting);
    if !waiting_now {
        while pool.count().unwrap() > 0 {
            match pool.acquire_resource(Duration::from_millis(1)) {
                Ok(it) => {
                    res.final_queue.push(it.provenance());
                    items.push(it);
                }
                Err(_) => break,
            }
        }
    }
    for (id, built_for) in &res.final_queue {
        if *built_for < last_drained && res.violation.is_none() {
            res.violation = Some(format!(
                "end of the schedule: the pool still holds (and serves) resource #{} built for generation {} although it has been drained for generation {}",
                id, built_for, last_drained
            ));
        }
    }
    // un-modelled clean-up: everybody runs freely, blocked acquirers are released
    ctl.free.store(true, Ordering::SeqCst);
    ctl.cv.notify_all();
    pool.set_discriminant(u64::MAX - 1).unwrap();
    drop(items);
    let deadline = Instant::now() + Duration::from_secs(if res.violation.is_some() { 1 } else { 10 });
    loop {
        let all_idle = ctl.m.lock().unwrap().iter().all(|w| w.st == St::Idle);
        if all_idle || Instant::now() > deadline {
            break;
        }
        let any_waiting = ctl.m.lock().unwrap().iter().any(|w| w.st == St::Waiting);
        if any_waiting && inp.size > 0 {
            let _ = pool.give_back_resource(T::make(0, u64::MAX - 1), pool.discriminant().unwrap());
        }
        ctl.cv.notify_all();
        std::thread::sleep(Duration::from_micros(200));
    }
    for tx in &txs {
        let _ = tx.send(Cmd::Exit);
    }
    probe_q.stop();
    probe_d.stop();
    for j in pj {
        let _ = j.join();
    }
    // a worker that is still blocked (only after a wake-up failure) is left to time out on its own
    let idle: Vec<bool> = ctl.m.lock().unwrap().iter().map(|w| w.st == St::Idle).collect();
    for (k, j) in joins.into_iter().enumerate() {
        if idle[k] {
            let _ = j.join();
        }
    }
    res
}

// ---------------------------------------------------------------------------------- Coq printing

fn ci_coq(c: CI, arg: u64) -> String {
    match c {
        CI::None => "CiNone".into(),
        CI::Acquire | CI::AcquireShort => "CiAcquire".into(),
        CI::Refresh => "CiRefresh".into(),
        CI::Reset => "CiReset".into(),
        CI::Clear => "CiClear".into(),
        CI::Bump => "CiBump".into(),
        CI::SetDiscUp => format!("(CiSetDisc {})", coq::n(arg)),
        CI::Give(_) => format!("(CiGive {})", coq::n(arg)),
    }
}
fn ch_coq(c: CH) -> &'static str {
    match c {
        CH::None => "ChNone",
        CH::Drop => "ChDrop",
        CH::GiveItem => "ChGiveItem",
        CH::Use => "ChUse",
    }
}
fn exec_coq(e: &Exec) -> String {
    match e {
        Exec::Step { t, ci, arg, ch, wake } => format!("Step {} {} {} {}", t, ci_coq(*ci, *arg), ch_coq(*ch), wake),
        Exec::Timeout { t } => format!("Timeout {}", t),
    }
}
fn outcome_obs(o: &Outcome) -> String {
    match o {
        Outcome::None => coq::ol(&[]),
        Outcome::Handout { id, built_for, dirty, tag } => coq::ol(&[coq::on(*id), coq::on(*built_for), coq::ob(*dirty), coq::on(*tag)]),
        Outcome::Timeout => coq::ol(&[coq::oz(1)]),
    }
}
fn obs_of(r: &RunResult) -> String {
    let steps: Vec<String> = r
        .obs
        .iter()
        .map(|s| {
            let cbs: Vec<String> = s.cbs.iter().map(|(k, id, ql, dl)| coq::ol(&[coq::on(*k as u64), coq::on(*id), coq::ob(*ql), coq::ob(*dl)])).collect();
            coq::ol(&[coq::oopt(s.count.map(|c| coq::on(c as u64))), coq::on(s.disc), coq::on(s.status), outcome_obs(&s.outcome), coq::ol(&cbs)])
        })
        .collect();
    let fq: Vec<String> = r.final_queue.iter().map(|(i, g)| coq::ol(&[coq::on(*i), coq::on(*g)])).collect();
    coq::ol(&[coq::ol(&steps), coq::ol(&fq)])
}

fn desc(inp: &Input, mkmap: bool) -> serde_json::Value {
    let s: Vec<String> = inp.sched.iter().map(|e| format!("{}:{:?}/{:?}", e.t, e.ci, e.ch)).collect();
    serde_json::json!({"pooled": if mkmap { "MKMap<BlockRange, MKMapNode, MKTreeStoreInMemory>" } else { "record" }, "size": inp.size, "initial_resources": inp.init, "threads": inp.threads, "schedule": s.join(" ")})
}

// ---------------------------------------------------------------------------------- generators

fn ev(t: usize, ci: CI, ch: CH) -> Ev {
    Ev { t, ci, ch }
}
fn n(t: usize) -> Ev {
    ev(t, CI::None, CH::None)
}

/// The three schedules that broke the pool before the fixes (regression).
fn witnesses() -> Vec<(&'static str, Input)> {
    let mut v = vec![];
    // (a) give_back_resource_pool_item after a refresh
    let mut s = vec![ev(0, CI::Acquire, CH::None), ev(1, CI::Refresh, CH::None)];
    s.extend(std::iter::repeat(n(1)).take(12));
    s.push(ev(2, CI::Acquire, CH::None));
    s.push(ev(0, CI::None, CH::GiveItem));
    s.extend(std::iter::repeat(n(0)).take(3));
    s.push(ev(3, CI::Acquire, CH::None));
    s.push(ev(3, CI::None, CH::Drop));
    s.extend(std::iter::repeat(n(3)).take(3));
    s.push(ev(3, CI::Acquire, CH::None));
    s.push(ev(3, CI::None, CH::Drop));
    s.extend(std::iter::repeat(n(3)).take(3));
    s.push(ev(3, CI::Acquire, CH::None));
    v.push(("witness-item", Input { size: 2, init: 2, threads: 4, sched: s }));
    // (b) acquire between set_discriminant and clear
    let mut s = vec![ev(1, CI::Refresh, CH::None), n(1), n(1), ev(0, CI::Acquire, CH::None)];
    s.extend(std::iter::repeat(n(1)).take(12));
    s.push(ev(2, CI::Acquire, CH::None));
    s.push(ev(0, CI::None, CH::Drop));
    s.extend(std::iter::repeat(n(0)).take(3));
    s.push(ev(3, CI::Acquire, CH::None));
    s.push(ev(3, CI::None, CH::Drop));
    s.extend(std::iter::repeat(n(3)).take(3));
    s.push(ev(3, CI::Acquire, CH::None));
    v.push(("witness-window", Input { size: 2, init: 2, threads: 4, sched: s }));
    // (c) two concurrent give-backs at size-1 (the two resources come from two overlapping refreshes)
    let mut s = vec![ev(0, CI::Refresh, CH::None), ev(1, CI::Refresh, CH::None)];
    for _ in 0..5 {
        s.extend([n(0), n(1)]);
    }
    s.push(ev(2, CI::Acquire, CH::None));
    v.push(("witness-cap", Input { size: 1, init: 1, threads: 3, sched: s }));
    v
}

/// `legacy`: the walk also uses the public entry points the provers do not call (clear,
/// clear_and_increment_discriminant alone, set_discriminant, give_back_resource of a resource
/// built for the current / previous / next generation).
fn random_input(rng: &mut Rng, class: u64, legacy: bool) -> Input {
    let (threads, size, max_len) = match class {
        0 => (rng.range(2, 3), rng.range(1, 2), 20),
        1 => (rng.range(2, 4), rng.range(1, 3), 40),
        _ => (rng.range(3, 6), rng.range(0, 4), 80),
    };
    let (threads, size) = (threads as usize, size as usize);
    let init = match rng.below(6) {
        0 => 0,
        1 => size + rng.range(1, 2) as usize, // over-full initial pool (allowed by `new`)
        _ => size,
    };
    let len = rng.range(6, max_len) as usize;
    let mut sched = vec![];
    // a weighted walk: threads tend to continue what they started for a few steps
    let mut cur = rng.below(threads as u64) as usize;
    let stick = rng.range(1, 3);
    for _ in 0..len {
        if rng.chance(1, stick + 1) {
            cur = rng.below(threads as u64) as usize;
        }
        let ci = match rng.below(if legacy { 18 } else { 12 }) {
            0..=4 => CI::Acquire,
            5 | 6 => CI::AcquireShort,
            7..=9 => CI::Refresh,
            10 => CI::Reset,
            11 => CI::None,
            12 => CI::Clear,
            13 => CI::Bump,
            14 => CI::SetDiscUp,
            15 => CI::Give(0),
            16 => CI::Give(-1),
            _ => CI::Give(1),
        };
        let ch = match rng.below(8) {
            0..=2 => CH::Drop,
            3..=5 => CH::GiveItem,
            6 => CH::Use,
            _ => CH::None,
        };
        sched.push(ev(cur, ci, ch));
    }
    Input { size, init, threads, sched }
}

/// The operations of the systematic family.
#[derive(Clone, Copy, Debug, PartialEq)]
enum Op {
    Acquire,
    GiveFresh,
    GiveStale,
    GiveFuture,
    GiveItem,
    DropItem,
    Clear,
    Bump,
    ResetAvail,
    SetDisc,
    Refresh,
}
const OPS: [Op; 11] = [Op::Acquire, Op::GiveFresh, Op::GiveStale, Op::GiveFuture, Op::GiveItem, Op::DropItem, Op::Clear, Op::Bump, Op::ResetAvail, Op::SetDisc, Op::Refresh];
impl Op {
    fn needs_item(self) -> bool {
        matches!(self, Op::GiveItem | Op::DropItem)
    }
    fn start(self, t: usize) -> Ev {
        match self {
            Op::Acquire => ev(t, CI::Acquire, CH::None),
            Op::GiveFresh => ev(t, CI::Give(0), CH::None),
            Op::GiveStale => ev(t, CI::Give(-1), CH::None),
            Op::GiveFuture => ev(t, CI::Give(1), CH::None),
            Op::GiveItem => ev(t, CI::None, CH::GiveItem),
            Op::DropItem => ev(t, CI::None, CH::Drop),
            Op::Clear => ev(t, CI::Clear, CH::None),
            Op::Bump => ev(t, CI::Bump, CH::None),
            Op::ResetAvail => ev(t, CI::Reset, CH::None),
            Op::SetDisc => ev(t, CI::SetDiscUp, CH::None),
            Op::Refresh => ev(t, CI::Refresh, CH::None),
        }
    }
    /// how many steps the operation can take on today's code (a little more is tried: a window
    /// that does not exist today shows up as one more stop)
    fn steps(self, size: usize) -> usize {
        match self {
            Op::Refresh => 1 + 3 * size,
            Op::GiveFresh | Op::GiveStale | Op::GiveFuture | Op::GiveItem | Op::DropItem => 4,
            _ => 1,
        }
    }
}

/// Systematic family: operation Y of thread 1 runs to completion inside operation X of thread 0,
/// started after X's k-th stop (yield point or callback with no lock held), for every X, Y and k.
/// Before: thread 3 takes a generation-0 item, thread 2 refreshes the pool completely (generation
/// 1), threads 0 / 1 take an item of generation 1 if their operation needs one.  After: X
/// completes, thread 3 returns its generation-0 item, thread 2 cycles through the pool.
fn window_input(size: usize, x: Op, k: usize, y: Op) -> Input {
    let mut s = vec![ev(3, CI::Acquire, CH::None), ev(2, CI::Refresh, CH::None)];
    s.extend(std::iter::repeat(n(2)).take(3 * size + 1));
    if x.needs_item() {
        s.push(ev(0, CI::Acquire, CH::None));
    }
    if y.needs_item() {
        s.push(ev(1, CI::Acquire, CH::None));
    }
    s.push(x.start(0));
    s.extend(std::iter::repeat(n(0)).take(k));
    s.push(y.start(1));
    s.extend(std::iter::repeat(n(1)).take(y.steps(size) + 2));
    s.extend(std::iter::repeat(n(0)).take(x.steps(size) + size + 3));
    s.extend(std::iter::repeat(n(1)).take(2)); // Y, if it was blocked behind X
    s.push(ev(3, CI::None, CH::Drop));
    s.extend(std::iter::repeat(n(3)).take(4));
    for _ in 0..size + 1 {
        s.push(ev(2, CI::AcquireShort, CH::None));
        s.push(ev(2, CI::None, CH::Drop));
        s.extend(std::iter::repeat(n(2)).take(4));
    }
    Input { size, init: size, threads: 4, sched: s }
}

fn window_inputs(sizes: &[usize]) -> Vec<(String, Input)> {
    let mut v = vec![];
    for &size in sizes {
        for x in OPS {
            // one more stop per queued resource is tried for the one-step operations that drain or
            // visit the queue (a drop / reset moved out of the lock stops there)
            let kmax = x.steps(size) + size;
            for k in 0..=kmax {
                for y in OPS {
                    v.push((format!("window-{:?}-in-{:?}", y, x).to_lowercase(), window_input(size, x, k, y)));
                }
            }
        }
    }
    v
}

fn model_term(inp: &Input, log: &[Exec]) -> String {
    let evs: Vec<String> = log.iter().map(exec_coq).collect();
    format!("C18.Model.run {} {} {} [{}]", coq::n(inp.size as u64), inp.init, inp.threads, evs.join("; "))
}

// ---------------------------------------------------------------------------------- source shape

const PROVERS: [(&str, &str); 2] = [
    ("mithril-aggregator/src/services/prover.rs", include_str!("/repo/mithril-aggregator/src/services/prover.rs")),
    ("mithril-aggregator/src/services/prover_legacy.rs", include_str!("/repo/mithril-aggregator/src/services/prover_legacy.rs")),
];

fn method_code(m: &str) -> i128 {
    match m {
        "size" => 0,
        "clear_and_increment_discriminant" => 1,
        "give_back_resource" => 2,
        "acquire_resource" => 3,
        "give_back_resource_pool_item" => 4,
        "set_discriminant" => 5,
        "clear" => 6,
        "discriminant" => 7,
        "count" => 8,
        "reset_available_resources" => 9,
        _ => 99,
    }
}

/// The methods called on `mk_map_pool`, in textual order, inside / outside the body of the
/// `compute_cache` implementation (non-test code only).
fn pool_calls(src: &str) -> (Vec<String>, Vec<String>) {
    let code = match src.find("#[cfg(test)]\nmod tests") {
        Some(i) => &src[..i],
        None => src,
    };
    let calls_in = |text: &str| -> Vec<String> {
        let mut v = vec![];
        let mut rest = text;
        while let Some(i) = rest.find("mk_map_pool") {
            rest = &rest[i + "mk_map_pool".len()..];
            let t = rest.trim_start();
            if let Some(t) = t.strip_prefix('.') {
                let t = t.trim_start();
                let name: String = t.chars().take_while(|c| c.is_alphanumeric() || *c == '_').collect();
                if t[name.len()..].trim_start().starts_with('(') {
                    v.push(name);
                }
            }
        }
        v
    };
    // body of the implementation (the declaration in the trait ends with `;`)
    let mut inside = String::new();
    let mut outside = String::new();
    let mut rest = code;
    while let Some(i) = rest.find("fn compute_cache(") {
        outside.push_str(&rest[..i]);
        let after = &rest[i..];
        let semi = after.find(';').unwrap_or(usize::MAX);
        let brace = after.find('{').unwrap_or(usize::MAX);
        if semi < brace {
            rest = &after[semi..];
            continue;
        }
        let mut depth = 0i32;
        let mut end = after.len();
        for (k, ch) in after.char_indices().skip(brace) {
            if ch == '{' {
                depth += 1;
            } else if ch == '}' {
                depth -= 1;
                if depth == 0 {
                    end = k + 1;
                    break;
                }
            }
        }
        inside.push_str(&after[brace..end]);
        rest = &after[end..];
    }
    outside.push_str(rest);
    let mut out = calls_in(&outside);
    out.sort_by_key(|m| method_code(m));
    out.dedup();
    (calls_in(&inside), out)
}

fn source_shape_case(id: u64, path: &str, src: &str) -> Case {
    let (inside, outside) = pool_calls(src);
    let mut why = None;
    let renew = inside.iter().position(|m| m == "clear_and_increment_discriminant");
    let first_fill = inside.iter().position(|m| m == "give_back_resource");
    if inside.iter().any(|m| m == "set_discriminant" || m == "clear") {
        why = Some(format!("{}: compute_cache refreshes the pool with separate set_discriminant / clear calls (not atomic): {:?}", path, inside));
    } else if renew.is_none() || first_fill.map_or(false, |f| f < renew.unwrap()) {
        why = Some(format!("{}: compute_cache does not start a new generation before refilling the pool: {:?}", path, inside));
    } else if outside.iter().any(|m| m == "set_discriminant" || m == "clear" || m == "clear_and_increment_discriminant" || m == "give_back_resource") {
        why = Some(format!("{}: the pool generation is manipulated outside compute_cache: {:?}", path, outside));
    }
    let codes = |v: &Vec<String>| coq::ol(&v.iter().map(|m| coq::oz(method_code(m))).collect::<Vec<_>>());
    Case {
        id,
        kind: "source-shape".into(),
        desc: serde_json::json!({"file": path, "compute_cache_calls": inside, "other_calls": outside}),
        model: Some("C18.Model.prover_calls".into()),
        impl_obs: coq::ol(&[codes(&inside), codes(&outside)]),
        holds: Some(why.is_none()),
        why,
        known: None,
        nontrivial: false,
        key: format!("shape/{}", path),
    }
}

fn fnv(s: &str) -> u64 {
    s.bytes().fold(0xcbf29ce484222325u64, |h, b| (h ^ b as u64).wrapping_mul(0x100000001b3))
}

fn main() {
    let args = hc::parse_args();
    let mut rng = Rng::new(args.seed);
    let mut sink = Sink::new(&args);
    verif::install_scheduler(Some(sched));

    // (kind, input, pooled type: false = light record, true = the provers' MKMap)
    let mut inputs: Vec<(String, Input, bool)> = vec![];
    for (k, i) in witnesses() {
        inputs.push((k.to_string(), i.clone(), false));
        inputs.push((format!("{k}-mkmap"), i, true));
    }
    let sizes: &[usize] = if args.thorough { &[1, 2, 3, 4] } else { &[2] };
    for (j, (kind, inp)) in window_inputs(sizes).into_iter().enumerate() {
        if j % 7 == 6 {
            inputs.push((format!("{kind}-mkmap"), inp, true));
        } else {
            inputs.push((kind, inp, false));
        }
    }
    let n_rand = if args.thorough { 9_000 } else { 500 };
    for k in 0..n_rand {
        let mut r = rng.fork();
        let class = k % 3;
        let legacy = k % 4 == 3;
        let kind = ["random-small", "random-medium", "random-wide"][class as usize];
        let kind = if legacy { format!("{kind}-legacy") } else { kind.to_string() };
        let inp = random_input(&mut r, class, legacy);
        if k % 5 == 4 {
            inputs.push((format!("{kind}-mkmap"), inp, true));
        } else {
            inputs.push((kind, inp, false));
        }
    }

    for (path, src) in PROVERS {
        let Some(id) = sink.wants() else { continue };
        sink.push(source_shape_case(id, path, src));
    }

    // which cases are wanted (ids are reserved in order whether or not they run)
    let wanted: Vec<Option<u64>> = inputs.iter().map(|_| sink.wants()).collect();
    let results: Vec<Mutex<Option<RunResult>>> = inputs.iter().map(|_| Mutex::new(None)).collect();
    let next = AtomicU64::new(0);
    let runners = if args.thorough { 8 } else { 4 };
    std::thread::scope(|sc| {
        for _ in 0..runners {
            sc.spawn(|| loop {
                let k = next.fetch_add(1, Ordering::SeqCst) as usize;
                if k >= inputs.len() {
                    break;
                }
                if wanted[k].is_some() {
                    let r = if inputs[k].2 { run_impl::<MkMap>(&inputs[k].1) } else { run_impl::<Res>(&inputs[k].1) };
                    *results[k].lock().unwrap() = Some(r);
                }
            });
        }
    });
    for (k, (kind, inp, mkmap)) in inputs.into_iter().enumerate() {
        let Some(id) = wanted[k] else { continue };
        let r = results[k].lock().unwrap().take().unwrap();
        let key = format!("{}/{}/{}/{}/{:016x}", mkmap, inp.size, inp.init, inp.threads, fnv(&format!("{:?}", r.log)));
        sink.push(Case {
            id,
            kind,
            desc: desc(&inp, mkmap),
            model: Some(model_term(&inp, &r.log)),
            impl_obs: obs_of(&r),
            holds: Some(r.violation.is_none()),
            why: r.violation.clone(),
            known: None,
            nontrivial: (r.overlap || r.windows > 0) && r.handouts > 0,
            key,
        });
    }
    sink.finish();
}
