//! harness crate h_pool (binaries in src/bin)
