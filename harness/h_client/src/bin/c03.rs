//! C03 correspondence harness: certificate chain verification.
//!
//! Real chains from `CertificateChainBuilder` are tampered with (fields altered with / without hash
//! recomputation, certificates re-signed by an adversarial but internally consistent fixture,
//! links re-targeted / dropped / duplicated / looped / served for the wrong hash, epochs shifted)
//! and fed through a fake `CertificateRetriever` to `MithrilCertificateVerifier::verify_certificate_chain`.
//! Every certificate of a case is also printed as a term of the Coq model (symbolic hashes by
//! provenance: a string equal to the hash of an earlier certificate becomes `(hash cN)`).
//! `holds`: acceptance is a failure exactly when the generator knows the tampered chain violates
//! the property (provenance), independently of the model.
//!
//! Second entry point (same chains, same tamperings): mithril-client's own walk,
//! `CertificateClient::verify_chain(hash)` -> `certificate_client::MithrilCertificateVerifier::verify_chain`,
//! over a fake `CertificateAggregatorRequest` (served as `CertificateMessage`s, so the message <->
//! entity conversion is on the path) with the `MemoryCertificateVerifierCache` of the `unstable`
//! feature shared between the calls of one case: a case is a *history* of calls (honest warm-up,
//! the same tampering twice, an adversarial chain first, a reset, ...), the observation is the
//! list of verdicts, the model (`C03.Model.run_client`) carries the cache from call to call.
//! This binary lives in h_client because h_common does not depend on mithril-client.
use hc::{coq, Case, Rng, Sink};
use mithril_client::certificate_client::{
    CertificateAggregatorRequest, CertificateClient, CertificateVerifierCache, MemoryCertificateVerifierCache,
    MithrilCertificateVerifier as ClientCertificateVerifier,
};
use mithril_client::feedback::FeedbackSender;
use mithril_client::{MithrilCertificate, MithrilCertificateListItem, MithrilResult};
use mithril_common::certificate_chain::{
    CertificateRetriever, CertificateRetrieverError, CertificateVerifier, MithrilCertificateVerifier,
};
use mithril_common::crypto_helper::{GenesisEd25519Signer, ProtocolClerk};
use mithril_common::entities::{
    Certificate, CertificateSignature, Epoch, ProtocolMessagePartKey as K, ProtocolParameters, SignedEntityType,
};
use mithril_common::test::builder::{CertificateChainBuilder, CertificateChainFixture, MithrilFixture, MithrilFixtureBuilder};
use mithril_common::test::double::Dummy;
use mithril_stm::{AggregateSignatureType, AncillaryProofInput};
use std::collections::HashMap;
use std::sync::Arc;

const KEYS: [K; 12] = [
    K::SnapshotDigest,
    K::CardanoTransactionsMerkleRoot,
    K::CardanoBlocksTransactionsMerkleRoot,
    K::NextAggregateVerificationKey,
    K::NextProtocolParameters,
    K::CurrentEpoch,
    K::LatestBlockNumber,
    K::CardanoBlocksTransactionsBlockNumberOffset,
    K::CardanoStakeDistributionEpoch,
    K::CardanoStakeDistributionMerkleRoot,
    K::CardanoDatabaseMerkleRoot,
    K::NextSnarkAggregateVerificationKey,
];

fn lit(s: &str) -> String {
    format!("(BLit {})", coq::bytes(s.as_bytes()))
}
fn dyadic(x: f64) -> (i128, i128) {
    let bits = x.to_bits();
    let sign: i128 = if bits >> 63 == 1 { -1 } else { 1 };
    let e = ((bits >> 52) & 0x7ff) as i128;
    let frac = (bits & ((1u64 << 52) - 1)) as i128;
    if e == 0 { (sign * frac, -1074) } else { (sign * (frac | (1 << 52)), e - 1075) }
}
fn phi_coq(x: f64) -> String {
    let (m, e) = dyadic(x);
    format!("({}, {})%Z", m, e)
}
fn set_coq(t: &SignedEntityType) -> String {
    match t {
        SignedEntityType::MithrilStakeDistribution(e) => format!("(MSD {})", **e),
        SignedEntityType::CardanoStakeDistribution(e) => format!("(CSD {})", **e),
        SignedEntityType::CardanoDatabase(b) => format!("(CDb {} {})", *b.epoch, b.immutable_file_number),
        SignedEntityType::CardanoTransactions(e, b) => format!("(CTx {} {})", **e, **b),
        SignedEntityType::CardanoBlocksTransactions(e, b, o) => format!("(CBTx {} {} {})", **e, **b, **o),
    }
}

/// provenance of a multi-signature: who signed what
#[derive(Clone)]
struct SigProv {
    id: u64,
    avk: String,
    params: (u64, u64, f64),
    msg: String,
}

/// Builds the Coq `let` chain for the certificates of one case.
struct Ctx {
    strings: HashMap<String, String>,  // known string -> Coq expression of type bt
    avk_ids: HashMap<String, u64>,     // avk json-hex -> key id
    msigs: HashMap<String, SigProv>,   // multi-signature json-hex -> provenance
    gsigs: HashMap<String, (u64, String)>, // genesis signature hex -> (signer id, message)
    pps: Vec<(u64, u64, f64)>,
    lets: Vec<String>,
    names: HashMap<String, String>,    // identity (exhaustive Debug) -> node name
    n: usize,
}
impl Ctx {
    fn avk_id(&mut self, s: &str) -> u64 {
        let n = self.avk_ids.len() as u64 + 1;
        *self.avk_ids.entry(s.to_string()).or_insert(n)
    }
    fn sym(&self, s: &str) -> String {
        self.strings.get(s).cloned().unwrap_or_else(|| lit(s))
    }
    fn node(&mut self, c: &Certificate) -> String {
        let ident = format!("{:#?}", c);
        if let Some(n) = self.names.get(&ident) {
            return n.clone();
        }
        let i = self.n;
        self.n += 1;
        let md = &c.metadata;
        let pp = &md.protocol_parameters;
        if !self.pps.iter().any(|p| p.0 == pp.k && p.1 == pp.m && p.2.to_bits() == pp.phi_f.to_bits()) {
            self.pps.push((pp.k, pp.m, pp.phi_f));
        }
        // protocol message
        let mut parts = vec![];
        for (k, v) in c.protocol_message.message_parts.iter() {
            let ki = KEYS.iter().position(|x| x == k).expect("unknown key");
            let val = if let Some(e) = self.strings.get(v) {
                e.clone()
            } else if ki == 3 && self.avk_ids.contains_key(v) {
                format!("(BHex (BLit [{}]))", self.avk_ids[v])
            } else if let Some(p) = (ki == 4).then(|| self.pps.iter().find(|p| ProtocolParameters::new(p.0, p.1, p.2).compute_hash() == *v)).flatten() {
                format!("(pph {} {} {})", p.0, p.1, phi_coq(p.2))
            } else {
                lit(v)
            };
            parts.push(format!("({}%nat, {})", ki, val));
        }
        self.lets.push(format!("let pm{} := {} in", i, coq::list(&parts)));
        let own_pm_hash = c.protocol_message.compute_hash();
        let own = format!("(pm_hash (pmsg_of pm{}))", i);
        let msg_sym = |ctx: &Ctx, s: &str| if s == own_pm_hash { own.clone() } else { ctx.sym(s) };
        let signed = msg_sym(self, &c.signed_message);
        let avk_s = c.aggregate_verification_key.to_json_hex().unwrap();
        let avk = self.avk_id(&avk_s);
        let sig = match &c.signature {
            CertificateSignature::GenesisSignature(g) => {
                let h = g.to_bytes_hex().unwrap();
                match self.gsigs.get(&h).cloned() {
                    Some((sk, m)) => format!("(GenesisSig (SigOf {} {}))", sk, msg_sym(self, &m)),
                    None => "(GenesisSig (Junk 0))".to_string(),
                }
            }
            CertificateSignature::MultiSignature(t, s) => {
                let h = s.to_json_hex().unwrap();
                match self.msigs.get(&h).cloned() {
                    Some(p) => {
                        let a = self.avk_id(&p.avk);
                        format!(
                            "(MultiSig {} (MSby {} (BLit [{}]) (fixp {} {} {}) {}))",
                            set_coq(t), p.id, a, p.params.0, p.params.1, phi_coq(p.params.2), msg_sym(self, &p.msg)
                        )
                    }
                    None => format!("(MultiSig {} (MS 0))", set_coq(t)),
                }
            }
        };
        let ts = |d: &chrono::DateTime<chrono::Utc>| d.timestamp() as i128 * 1_000_000_000 + d.timestamp_subsec_nanos() as i128;
        let meta = format!(
            "(mk_meta {} {} {} {} {} ({})%Z ({})%Z {})",
            coq::bytes(md.network.as_bytes()),
            coq::bytes(md.protocol_version.as_bytes()),
            pp.k,
            pp.m,
            phi_coq(pp.phi_f),
            ts(&md.initiated_at),
            ts(&md.sealed_at),
            coq::list(&md.signers.iter().map(|p| format!("({}, {})", coq::bytes(p.party_id.as_bytes()), p.stake)).collect::<Vec<_>>())
        );
        let recomputed = c.try_compute_hash().map(|h| h == c.hash).unwrap_or(false);
        let body = |h: String, ctx: &Ctx| {
            format!("(mk_cert {} {} {} {} pm{} {} (BLit [{}]) {})", h, ctx.sym(&c.previous_hash), *c.epoch, meta, i, signed, avk, sig)
        };
        let expr = if recomputed && !self.strings.contains_key(&c.hash) {
            format!("(fin {})", body("(BLit [])".into(), self))
        } else {
            body(self.sym(&c.hash), self)
        };
        self.lets.push(format!("let c{} := {} in", i, expr));
        let name = format!("c{}", i);
        if recomputed {
            self.strings.entry(c.hash.clone()).or_insert(format!("(hash {})", name));
        }
        self.strings.entry(own_pm_hash).or_insert(own);
        self.names.insert(ident, name.clone());
        name
    }
}

struct MapRetriever(HashMap<String, Certificate>);
#[async_trait::async_trait]
impl CertificateRetriever for MapRetriever {
    async fn get_certificate_details(&self, h: &str) -> Result<Certificate, CertificateRetrieverError> {
        self.0.get(h).cloned().ok_or_else(|| CertificateRetrieverError(anyhow::anyhow!("not found")))
    }
}

struct Group {
    a: CertificateChainFixture, // honest chain, latest first
    b: CertificateChainFixture, // adversary's chain: own signer sets, own genesis key, internally consistent
    params: ProtocolParameters,
    na: usize,
    msigs: HashMap<String, SigProv>,
    gsigs: HashMap<String, (u64, String)>,
    next_sig_id: u64,
    per_epoch: u64,
    constant_avk: bool,
}

fn fixture(params: &ProtocolParameters, n: usize) -> MithrilFixture {
    MithrilFixtureBuilder::default().with_protocol_parameters(params.clone()).with_signers(n).build()
}
fn sign_with(fx: &MithrilFixture, msg: &str) -> Option<mithril_common::crypto_helper::ProtocolMultiSignature> {
    let signers = fx.signers_fixture();
    let sigs: Vec<_> = signers.iter().filter_map(|s| s.protocol_signer.sign(msg.as_bytes())).collect();
    let clerk = ProtocolClerk::new_clerk_from_signer(&signers[0].protocol_signer);
    clerk
        .aggregate_signatures_with_type(&sigs, msg.as_bytes(), AggregateSignatureType::default(), AncillaryProofInput::dummy())
        .ok()
        .map(|(s, _)| s.into())
}
fn rehash(c: &mut Certificate) {
    c.hash = c.try_compute_hash().unwrap();
}

fn n_signers_a(constant: bool, na: usize, e: u64) -> usize {
    if constant { na } else { 2 + ((e as usize + na) % 3) }
}
fn n_signers_b(constant: bool, na: usize, e: u64) -> usize {
    if constant { na + 1 } else { 5 + ((e as usize + na) % 2) }
}
impl Group {
    fn signers_a(&self, e: u64) -> usize { n_signers_a(self.constant_avk, self.na, e) }
    fn signers_b(&self, e: u64) -> usize { n_signers_b(self.constant_avk, self.na, e) }
    fn register_chain(&mut self, chain: &CertificateChainFixture, genesis_sk: u64) {
        for c in chain.certificates_chained.iter() {
            match &c.signature {
                CertificateSignature::GenesisSignature(g) => {
                    self.gsigs.insert(g.to_bytes_hex().unwrap(), (genesis_sk, c.signed_message.clone()));
                }
                CertificateSignature::MultiSignature(_, s) => {
                    let pp = &c.metadata.protocol_parameters;
                    self.next_sig_id += 1;
                    self.msigs.insert(
                        s.to_json_hex().unwrap(),
                        SigProv { id: self.next_sig_id, avk: c.aggregate_verification_key.to_json_hex().unwrap(), params: (pp.k, pp.m, pp.phi_f), msg: c.signed_message.clone() },
                    );
                }
            }
        }
    }
    /// re-sign certificate `c` with the adversary's fixture for its epoch (own AVK, valid multi-signature)
    fn resign_b(&mut self, c: &mut Certificate) -> bool {
        let fx = fixture(&self.params, self.signers_b(*c.epoch));
        let Some(ms) = sign_with(&fx, &c.signed_message) else { return false };
        let avk = fx.compute_and_encode_concatenation_aggregate_verification_key();
        c.aggregate_verification_key = avk.as_str().try_into().unwrap();
        c.metadata.signers = fx.stake_distribution_parties();
        self.next_sig_id += 1;
        let pp = &c.metadata.protocol_parameters;
        self.msigs.insert(
            ms.to_json_hex().unwrap(),
            SigProv { id: self.next_sig_id, avk: avk.clone(), params: (pp.k, pp.m, pp.phi_f), msg: c.signed_message.clone() },
        );
        let t = c.signed_entity_type();
        c.signature = CertificateSignature::MultiSignature(t, ms);
        true
    }
}

fn build_group(rng: &mut Rng, variant: u64) -> Group {
    let constant_avk = variant % 2 == 1;
    // constant-AVK groups are where only the epoch rules separate valid from invalid links: keep them long enough
    let total = if constant_avk { rng.range(7, 12) } else { rng.range(2, 12) };
    let per_epoch = if constant_avk { rng.range(1, 2) } else { std::cmp::min(rng.range(1, 4), total) };
    let params = [ProtocolParameters::new(5, 100, 0.65), ProtocolParameters::new(4, 80, 0.75), ProtocolParameters::new(6, 120, 0.9)][rng.below(3) as usize].clone();
    let na = rng.range(2, 4) as usize;
    let fa = move |e: Epoch| n_signers_a(constant_avk, na, *e);
    let a = CertificateChainBuilder::new()
        .with_total_certificates(total)
        .with_certificates_per_epoch(per_epoch)
        .with_protocol_parameters(params.clone().into())
        .with_total_signers_per_epoch_processor(&fa)
        .build();
    let fb = move |e: Epoch| n_signers_b(constant_avk, na, *e);
    let mut b = CertificateChainBuilder::new()
        .with_total_certificates(total)
        .with_certificates_per_epoch(per_epoch)
        .with_protocol_parameters(params.clone().into())
        .with_total_signers_per_epoch_processor(&fb)
        .build();
    // the adversary owns its genesis key: re-sign B's genesis and re-hash B bottom-up
    let adv = GenesisEd25519Signer::create_non_deterministic_signer();
    let mut gsigs = HashMap::new();
    {
        let n = b.certificates_chained.len();
        let old_to_new: &mut HashMap<String, String> = &mut HashMap::new();
        for i in (0..n).rev() {
            let c = &mut b.certificates_chained[i];
            let old = c.hash.clone();
            if c.is_genesis() {
                let s = adv.sign(c.signed_message.as_bytes());
                gsigs.insert(s.to_bytes_hex().unwrap(), (2u64, c.signed_message.clone()));
                c.signature = CertificateSignature::GenesisSignature(s);
            }
            if let Some(nh) = old_to_new.get(&c.previous_hash) {
                c.previous_hash = nh.clone();
            }
            rehash(c);
            old_to_new.insert(old, c.hash.clone());
        }
    }
    let mut g = Group { a, b, params, na, msigs: HashMap::new(), gsigs, next_sig_id: 0, per_epoch, constant_avk };
    let (a2, b2) = (g.a.clone(), g.b.clone());
    g.register_chain(&a2, 1);
    g.register_chain(&b2, 2);
    g
}

#[derive(Clone)]
struct Tampered {
    kind: String,
    table: Vec<(String, Certificate)>,
    start: Certificate,
    /// the tampered chain violates the property: acceptance is a failure
    must_reject: bool,
    note: String,
    /// the tampered certificate is the start certificate itself
    target_is_start: bool,
}
impl Tampered {
    /// The violation lies on the chain of certificates *identified by their hashes* from the start
    /// certificate (the start certificate itself does not match its hash, or every hash from the
    /// tampered certificate up to the start was recomputed): then no earlier verdict a cache may
    /// remember can make acceptance right.  A stale certificate served deeper in the chain, a
    /// withheld one or one served for another hash leave the hash-identified chain of the start
    /// certificate the honest one: a client that remembers having validated it may accept.
    fn closed(&self) -> bool {
        if !self.must_reject { return false }
        let k = self.kind.as_str();
        if k.ends_with("/rehash") || k == "genesis-message-commits-to-adversary-key" { return true }
        if k.ends_with("/stale-hash") || k == "self-loop" { return self.target_is_start }
        !matches!(k, "dropped" | "looped" | "wrong-hash-served")
    }
}

/// path (indices into `a`, latest first) walked from `start_idx` to genesis by previous_hash
fn path_from(chain: &[Certificate], start_idx: usize) -> Vec<usize> {
    let mut p = vec![start_idx];
    let mut cur = start_idx;
    loop {
        let prev = &chain[cur].previous_hash;
        match chain.iter().position(|c| &c.hash == prev) {
            Some(j) if j != cur => {
                p.push(j);
                cur = j;
            }
            _ => break,
        }
    }
    p
}

/// after modifying chain[j] (on `path`, which starts at the start certificate), recompute hashes from j up to the start
fn rehash_up(certs: &mut Vec<Certificate>, path: &[usize], pos: usize) {
    let mut new_hash = {
        let c = &mut certs[path[pos]];
        rehash(c);
        c.hash.clone()
    };
    for k in (0..pos).rev() {
        let c = &mut certs[path[k]];
        c.previous_hash = new_hash;
        rehash(c);
        new_hash = c.hash.clone();
    }
}

fn tamper(rng: &mut Rng, g: &mut Group) -> Tampered {
    let a: Vec<Certificate> = g.a.certificates_chained.clone();
    let b: Vec<Certificate> = g.b.certificates_chained.clone();
    let n = a.len();
    let start_idx = if rng.chance(2, 3) { 0 } else { rng.below(n as u64) as usize };
    let path = path_from(&a, start_idx);
    let pos = rng.below(path.len() as u64) as usize; // target on the walked path
    let j = path[pos];
    let mut certs = a.clone();
    let table_of = |cs: &Vec<Certificate>| cs.iter().map(|c| (c.hash.clone(), c.clone())).collect::<Vec<_>>();
    let rehash_it = rng.coin();
    let kind_sel = rng.below(29);
    let std_target = !certs[j].is_genesis();
    let mk = |kind: &str, certs: Vec<Certificate>, must_reject: bool, note: String| Tampered {
        kind: kind.to_string(),
        table: table_of(&certs),
        start: certs[start_idx].clone(),
        must_reject,
        note,
        target_is_start: pos == 0,
    };
    let suffix = if rehash_it { "rehash" } else { "stale-hash" };
    match kind_sel {
        0 => mk("untouched", certs, false, format!("start {}", start_idx)),
        // ---- field edits ----
        1 | 2 => {
            // metadata not covered by any signature: only the hash protects it
            match rng.below(4) {
                0 => certs[j].metadata.network.push('x'),
                1 => certs[j].metadata.sealed_at += chrono::Duration::nanoseconds(1),
                2 => certs[j].metadata.protocol_version = "9.9.9".into(),
                _ => certs[j].metadata.initiated_at -= chrono::Duration::seconds(3),
            }
            if rehash_it { rehash_up(&mut certs, &path, pos); }
            mk(&format!("metadata/{}", suffix), certs, !rehash_it, format!("cert {} metadata edited", j))
        }
        3 => {
            if let Some(p) = certs[j].metadata.signers.first_mut() { p.stake += 1 } else { certs[j].metadata.network.push('y') }
            if rehash_it { rehash_up(&mut certs, &path, pos); }
            mk(&format!("signers/{}", suffix), certs, !rehash_it, format!("cert {} signer stake edited", j))
        }
        4 | 5 => {
            // epoch shifted by -2..+2 (field only)
            let d = *rng.pick(&[-2i64, -1, 1, 2]);
            let e = (*certs[j].epoch as i64 + d).max(0) as u64;
            let changed = e != *certs[j].epoch;
            certs[j].epoch = Epoch(e);
            if rehash_it { rehash_up(&mut certs, &path, pos); }
            mk(&format!("epoch-shift/{}", suffix), certs, changed, format!("cert {} epoch {:+}", j, d))
        }
        6 => {
            // epoch shifted consistently in field and signed message (message digest recomputed): the multi-signature no longer matches
            let d = *rng.pick(&[-2i64, -1, 1, 2]);
            let e = (*certs[j].epoch as i64 + d).max(0) as u64;
            let changed = e != *certs[j].epoch;
            certs[j].epoch = Epoch(e);
            certs[j].protocol_message.set_message_part(K::CurrentEpoch, format!("{}", e));
            certs[j].signed_message = certs[j].protocol_message.compute_hash();
            rehash_up(&mut certs, &path, pos);
            mk("epoch-shift-with-message/rehash", certs, changed, format!("cert {} epoch and message {:+}", j, d))
        }
        7 => {
            let k = *rng.pick(&[K::SnapshotDigest, K::NextAggregateVerificationKey, K::NextProtocolParameters, K::CurrentEpoch]);
            certs[j].protocol_message.set_message_part(k, "00ff".into());
            if rng.coin() { certs[j].signed_message = certs[j].protocol_message.compute_hash(); }
            if rehash_it { rehash_up(&mut certs, &path, pos); }
            mk(&format!("protocol-message/{}", suffix), certs, true, format!("cert {} message part {:?}", j, k))
        }
        8 => {
            certs[j].signed_message = format!("{}00", certs[j].signed_message);
            if rehash_it { rehash_up(&mut certs, &path, pos); }
            mk(&format!("signed-message/{}", suffix), certs, true, format!("cert {}", j))
        }
        9 => {
            let pp = &mut certs[j].metadata.protocol_parameters;
            match rng.below(3) { 0 => pp.k += 1, 1 => pp.m += 1, _ => pp.phi_f = 0.2 }
            if rehash_it { rehash_up(&mut certs, &path, pos); }
            mk(&format!("parameters/{}", suffix), certs, std_target || !rehash_it, format!("cert {}{}", j, if std_target { "" } else { " (genesis: its own parameters are not constrained by the property)" }))
        }
        10 => {
            // AVK swapped for the adversary's (signature untouched)
            let fx = fixture(&g.params, g.signers_b(*certs[j].epoch));
            certs[j].aggregate_verification_key = fx.compute_and_encode_concatenation_aggregate_verification_key().as_str().try_into().unwrap();
            if rehash_it { rehash_up(&mut certs, &path, pos); }
            mk(&format!("avk-swap/{}", suffix), certs, std_target || !rehash_it, format!("cert {}{}", j, if std_target { "" } else { " (genesis: its own AVK is not constrained by the property)" }))
        }
        24 | 25 => {
            // the certificate's AVK keeps the genuine Merkle commitment but states another total stake
            // (the honest multi-signature still verifies under a LOWER total stake: every lottery gets easier);
            // the key is no longer the one of the certificate it links to / the one the preceding epoch signed
            let hexs = certs[j].aggregate_verification_key.to_json_hex().unwrap();
            let mut v: serde_json::Value = serde_json::from_slice(&hex::decode(&hexs).unwrap()).unwrap();
            let old = v["total_stake"].as_u64();
            match old {
                Some(t) if std_target => {
                    let new_t = match rng.below(4) { 0 => t / 2, 1 => t.saturating_sub(1), 2 => t / 16 + 1, _ => t + 1 };
                    v["total_stake"] = serde_json::json!(new_t);
                    let enc = hex::encode(serde_json::to_vec(&v).unwrap());
                    certs[j].aggregate_verification_key = enc.as_str().try_into().unwrap();
                    if rehash_it { rehash_up(&mut certs, &path, pos); }
                    mk(&format!("avk-total-stake/{}", suffix), certs, new_t != t, format!("cert {} AVK total stake {} -> {} (same Merkle commitment)", j, t, new_t))
                }
                _ => mk("untouched", certs, false, "no-op".into()),
            }
        }
        26 | 27 => {
            // the other fields of the key that take part in its equality: the number of leaves and the root of
            // the Merkle commitment (the multi-signature no longer verifies either; the link rule must reject too)
            let hexs = certs[j].aggregate_verification_key.to_json_hex().unwrap();
            let mut v: serde_json::Value = serde_json::from_slice(&hex::decode(&hexs).unwrap()).unwrap();
            let which = rng.below(3);
            let what = match which {
                0 | 1 => match v["mt_commitment"]["nr_leaves"].as_u64() {
                    Some(nl) => {
                        let new = if which == 0 { nl + 1 } else { nl.saturating_sub(1).max(1) };
                        v["mt_commitment"]["nr_leaves"] = serde_json::json!(new);
                        (new != nl).then(|| ("avk-nr-leaves", format!("{} -> {}", nl, new)))
                    }
                    None => None,
                },
                _ => match v["mt_commitment"]["root"].as_array().cloned() {
                    Some(mut r) if !r.is_empty() => {
                        let i = rng.below(r.len() as u64) as usize;
                        let old = r[i].as_u64().unwrap_or(0);
                        r[i] = serde_json::json!((old + 1) % 256);
                        v["mt_commitment"]["root"] = serde_json::Value::Array(r);
                        Some(("avk-root", format!("byte {} of the root", i)))
                    }
                    _ => None,
                },
            };
            let enc = hex::encode(serde_json::to_vec(&v).unwrap());
            match (what, mithril_common::crypto_helper::ProtocolAggregateVerificationKeyForConcatenation::try_from(enc.as_str())) {
                (Some((kind, w)), Ok(k)) if std_target => {
                    certs[j].aggregate_verification_key = k;
                    if rehash_it { rehash_up(&mut certs, &path, pos); }
                    mk(&format!("{}/{}", kind, suffix), certs, true, format!("cert {} AVK {} (rest of the key untouched)", j, w))
                }
                _ => mk("untouched", certs, false, "no-op".into()),
            }
        }
        28 => {
            // the honest genesis certificate's signature moved onto a standard certificate: it now takes the
            // genesis branch of verify_certificate (no link is followed); the signature is valid, for another message
            let gen = a.iter().find(|c| c.is_genesis()).cloned();
            match gen {
                Some(gc) if std_target => {
                    certs[j].signature = gc.signature.clone();
                    if rehash_it { rehash_up(&mut certs, &path, pos); }
                    mk(&format!("genesis-signature-on-standard/{}", suffix), certs, true, format!("cert {} carries the genesis certificate's signature", j))
                }
                _ => mk("untouched", certs, false, "no-op".into()),
            }
        }
        11 | 12 => {
            // re-signed by the adversary's fixture: valid multi-signature under the adversary's AVK
            if std_target && g.resign_b(&mut certs[j]) {
                rehash_up(&mut certs, &path, pos);
                mk("resigned-by-adversary/rehash", certs, true, format!("cert {} carries the adversary's AVK and a valid multi-signature", j))
            } else {
                mk("untouched", certs, false, "no-op".into())
            }
        }
        13 => {
            // whole adversary chain (own genesis key)
            let t = table_of(&b);
            Tampered { kind: "adversary-chain".into(), table: t, start: b[0].clone(), must_reject: true, note: "internally consistent chain under another genesis key".into(), target_is_start: true }
        }
        14 => {
            // splice: honest upper part re-targeted onto the adversary's chain at the same epoch
            if std_target {
                let e = *a[j].epoch;
                let want = if pos + 1 < path.len() { *a[path[pos + 1]].epoch } else { e };
                if let Some(q) = b.iter().find(|c| *c.epoch == want) {
                    certs[j].previous_hash = q.hash.clone();
                    rehash_up(&mut certs, &path, pos);
                    let mut t = table_of(&certs);
                    t.extend(table_of(&b));
                    return Tampered { kind: "splice-onto-adversary/rehash".into(), table: t, start: certs[start_idx].clone(), must_reject: true, note: format!("cert {} now chains to the adversary's certificate of epoch {}", j, want), target_is_start: pos == 0 };
                }
            }
            mk("untouched", certs, false, "no-op".into())
        }
        // ---- links ----
        15 | 16 | 17 => {
            // re-target the link of cert j to another honest certificate
            if std_target {
                let cands: Vec<usize> = (0..n).filter(|&q| q != j && a[q].hash != a[j].previous_hash).collect();
                if !cands.is_empty() {
                    let q = *rng.pick(&cands);
                    let (ej, eq) = (*a[j].epoch, *a[q].epoch);
                    certs[j].previous_hash = a[q].hash.clone();
                    if rehash_it { rehash_up(&mut certs, &path, pos); }
                    // still a chain allowed by the property? same epoch needs same AVK/params (true inside an honest epoch);
                    // previous epoch needs that certificate's signed next AVK/params to be this one's
                    let legit = rehash_it && ((eq == ej && q > j) || (eq + 1 == ej));
                    let legit = legit && (eq == ej || a[q].protocol_message.get_message_part(&K::NextAggregateVerificationKey).map(|s| *s == a[j].aggregate_verification_key.to_json_hex().unwrap()).unwrap_or(false));
                    return mk(&format!("retarget/{}", suffix), certs, !legit, format!("cert {} (epoch {}) now chains to cert {} (epoch {})", j, ej, q, eq));
                }
            }
            mk("untouched", certs, false, "no-op".into())
        }
        18 => {
            // dropped from what the provider serves
            if pos > 0 {
                let mut t = table_of(&certs);
                t.retain(|(h, _)| *h != a[j].hash);
                Tampered { kind: "dropped".into(), table: t, start: certs[start_idx].clone(), must_reject: true, note: format!("cert {} not served", j), target_is_start: pos == 0 }
            } else {
                mk("untouched", certs, false, "no-op".into())
            }
        }
        19 => {
            // duplicated: also served under a second, unrelated key
            let mut t = table_of(&certs);
            t.push((format!("{}ff", a[j].hash), a[j].clone()));
            t.push((a[j].hash.clone(), a[j].clone()));
            Tampered { kind: "duplicated".into(), table: t, start: certs[start_idx].clone(), must_reject: false, note: format!("cert {} served twice", j), target_is_start: pos == 0 }
        }
        20 => {
            // looped: the provider answers the request for j's parent with a descendant (or j itself)
            if std_target {
                let back = path[rng.below(pos as u64 + 1) as usize];
                let mut t = table_of(&certs);
                t.retain(|(h, _)| *h != a[j].previous_hash);
                t.push((a[j].previous_hash.clone(), a[back].clone()));
                Tampered { kind: "looped".into(), table: t, start: certs[start_idx].clone(), must_reject: true, note: format!("request for the parent of cert {} answered with cert {}", j, back), target_is_start: pos == 0 }
            } else {
                mk("untouched", certs, false, "no-op".into())
            }
        }
        21 => {
            // self-loop on the field
            if std_target {
                certs[j].previous_hash = certs[j].hash.clone();
                mk("self-loop", certs, true, format!("cert {} chains to itself", j))
            } else {
                mk("untouched", certs, false, "no-op".into())
            }
        }
        22 => {
            // served for the wrong hash: the adversary's certificate of the same position
            if std_target && pos + 1 < path.len() {
                let parent = path[pos + 1];
                let mut t = table_of(&certs);
                t.retain(|(h, _)| *h != a[parent].hash);
                let wrong = if rng.coin() && parent < b.len() { b[parent].clone() } else { a[(parent + 1) % n].clone() };
                let same = wrong.hash == a[parent].hash;
                t.push((a[parent].hash.clone(), wrong));
                Tampered { kind: "wrong-hash-served".into(), table: t, start: certs[start_idx].clone(), must_reject: !same, note: format!("request for cert {} answered with another certificate", parent), target_is_start: false }
            } else {
                mk("untouched", certs, false, "no-op".into())
            }
        }
        _ => {
            // multi-signature taken from another certificate
            if std_target {
                if let Some(q) = (0..n).find(|&q| q != j && !a[q].is_genesis()) {
                    if let CertificateSignature::MultiSignature(_, s) = &a[q].signature {
                        let t = certs[j].signed_entity_type();
                        certs[j].signature = CertificateSignature::MultiSignature(t, s.clone());
                        if rehash_it { rehash_up(&mut certs, &path, pos); }
                        return mk(&format!("foreign-signature/{}", suffix), certs, true, format!("cert {} carries the multi-signature of cert {}", j, q));
                    }
                }
            }
            mk("untouched", certs, false, "no-op".into())
        }
    }
}

/// targeted boundary cases on chains whose AVK and parameters are the same in every epoch, so that
/// only the epoch rules separate valid from invalid links
fn boundary(rng: &mut Rng, g: &mut Group, which: u64) -> Option<Tampered> {
    let a: Vec<Certificate> = g.a.certificates_chained.clone();
    let n = a.len();
    let table_of = |cs: &Vec<Certificate>| cs.iter().map(|c| (c.hash.clone(), c.clone())).collect::<Vec<_>>();
    let std: Vec<usize> = (0..n).filter(|&i| !a[i].is_genesis()).collect();
    if std.is_empty() { return None }
    let j = *rng.pick(&std);
    let _ = j;
    match which {
        0 | 1 | 2 | 3 => {
            // (which 0..3) link to a certificate of epoch ej + d, d in {+1, +2, -2, (and -1/0 as valid controls)}
            let d: i64 = [1, 2, -2, -1][which as usize];
            // every (certificate, target) pair at epoch distance d; pick one
            let pairs: Vec<(usize, usize)> = std
                .iter()
                .flat_map(|&j| (0..n).filter(move |&q| q != j).map(move |q| (j, q)))
                .filter(|&(j, q)| *a[q].epoch as i64 == *a[j].epoch as i64 + d && a[q].hash != a[j].previous_hash)
                .collect();
            if pairs.is_empty() { return None }
            let (j, q) = *rng.pick(&pairs);
            let ej = *a[j].epoch;
            let mut c = a[j].clone();
            let want = ej as i64 + d;
            c.previous_hash = a[q].hash.clone();
            rehash(&mut c);
            let mut t = table_of(&a);
            t.push((c.hash.clone(), c.clone()));
            let valid = d == -1 && a[q].protocol_message.get_message_part(&K::NextAggregateVerificationKey).map(|s| *s == c.aggregate_verification_key.to_json_hex().unwrap()).unwrap_or(false);
            Some(Tampered { kind: format!("link-epoch{:+}", d), table: t, start: c, must_reject: !valid, note: format!("cert {} (epoch {}) chained to cert {} (epoch {})", j, ej, q, want), target_is_start: true })
        }
        4 => {
            // epoch field moved to the parent's epoch, everything else untouched, hash recomputed:
            // only the epoch-in-signed-message rule can reject when the AVK is constant
            let cands: Vec<usize> = std.iter().cloned().filter(|&j| a.iter().any(|p| p.hash == a[j].previous_hash && p.epoch != a[j].epoch)).collect();
            if cands.is_empty() { return None }
            let j = *rng.pick(&cands);
            let mut c = a[j].clone();
            let parent = a.iter().position(|p| p.hash == a[j].previous_hash)?;
            c.epoch = a[parent].epoch;
            rehash(&mut c);
            let mut t = table_of(&a);
            t.push((c.hash.clone(), c.clone()));
            Some(Tampered { kind: "epoch-field-to-parent-epoch".into(), table: t, start: c, must_reject: true, note: format!("cert {} claims its parent's epoch", j), target_is_start: true })
        }
        7 => {
            // the request for the parent is answered with ANOTHER honest certificate of the parent's epoch (same
            // key, same signed next key and parameters): every chaining rule but previous hash = hash of the served
            // certificate passes, in every group
            let cands: Vec<(usize, usize, usize)> = std
                .iter()
                .filter_map(|&j| a.iter().position(|p| p.hash == a[j].previous_hash).map(|p| (j, p)))
                .flat_map(|(j, p)| (0..n).filter(move |&q| q != p && q != j).map(move |q| (j, p, q)))
                .filter(|&(j, p, q)| a[q].epoch == a[p].epoch && a[q].hash != a[j].hash)
                .collect();
            if cands.is_empty() { return None }
            let (j, p, q) = *rng.pick(&cands);
            let mut t: Vec<(String, Certificate)> = a.iter().filter(|c| c.hash != a[p].hash).map(|c| (c.hash.clone(), c.clone())).collect();
            t.push((a[p].hash.clone(), a[q].clone()));
            Some(Tampered { kind: "wrong-hash-served".into(), table: t, start: a[j].clone(), must_reject: true,
                            note: format!("request for cert {} (parent of cert {}) answered with cert {} of the same epoch", p, j, q), target_is_start: false })
        }
        6 => {
            // the genesis certificate's protocol message commits to the adversary's key for the next epoch; its
            // signed message (what the genesis key signed) is untouched, every hash recomputed up to the latest
            // certificate; the first standard certificate is re-signed by the adversary under that key.
            // Only signed message = digest of the protocol message, on the genesis certificate, can reject.
            let mut certs = a.clone();
            let path = path_from(&a, 0);
            let gpos = path.len() - 1;
            if !a[path[gpos]].is_genesis() || gpos == 0 { return None }
            let child = path[gpos - 1];
            if !g.resign_b(&mut certs[child]) { return None }
            let adv = certs[child].aggregate_verification_key.to_json_hex().unwrap();
            certs[path[gpos]].protocol_message.set_message_part(K::NextAggregateVerificationKey, adv);
            if certs[path[gpos]].epoch == certs[child].epoch {
                // same epoch as the genesis certificate: the link compares the key fields (the genesis key signs neither)
                certs[path[gpos]].aggregate_verification_key = certs[child].aggregate_verification_key.clone();
            }
            rehash_up(&mut certs, &path, gpos);
            let start = certs[child].clone();
            Some(Tampered { kind: "genesis-message-commits-to-adversary-key".into(), table: table_of(&certs), start, must_reject: true,
                            note: format!("genesis message edited (signed message untouched), cert {} re-signed by the adversary, start at cert {}", child, child), target_is_start: false })
        }
        _ => {
            // same-epoch link with the adversary's AVK and a valid adversary multi-signature
            let cands: Vec<usize> = std.iter().cloned().filter(|&j| a.iter().any(|p| p.hash == a[j].previous_hash && p.epoch == a[j].epoch)).collect();
            if cands.is_empty() { return None }
            let j = *rng.pick(&cands);
            let mut c = a[j].clone();
            if !g.resign_b(&mut c) { return None }
            rehash(&mut c);
            let mut t = table_of(&a);
            t.push((c.hash.clone(), c.clone()));
            Some(Tampered { kind: "same-epoch-adversary-avk".into(), table: t, start: c, must_reject: true, note: format!("cert {} re-signed by the adversary, parent in the same epoch", j), target_is_start: true })
        }
    }
}

/// what one case serves and asks: the common entry point takes the start certificate, the client its hash
fn run_common(rt: &tokio::runtime::Runtime, g: &Group, t: &Tampered) -> u64 {
    let map: HashMap<String, Certificate> = {
        let mut m = HashMap::new();
        for (k, c) in t.table.iter() {
            m.entry(k.clone()).or_insert_with(|| c.clone()); // first entry wins, as `lookup` in the model
        }
        m
    };
    let verifier = MithrilCertificateVerifier::new(
        slog::Logger::root(slog::Discard, slog::o!()),
        Arc::new(MapRetriever(map)),
        Arc::new(g.a.genesis_verifier.clone()),
    );
    let start = t.start.clone();
    let out = hc::catch(std::panic::AssertUnwindSafe(|| rt.block_on(verifier.verify_certificate_chain(start)).is_ok()));
    match out { Some(true) => 0, Some(false) => 1, None => 2 }
}

/// Coq terms of the certificates of some tamperings (shared `let` chain) and, per tampering, the
/// served table, the name of the start certificate and the term of its hash field
fn terms(g: &Group, ts: &[&Tampered]) -> (String, Vec<(String, String, String)>) {
    let mut ctx = Ctx { strings: HashMap::new(), avk_ids: HashMap::new(), msigs: g.msigs.clone(), gsigs: g.gsigs.clone(), pps: vec![], lets: vec![], names: HashMap::new(), n: 0 };
    // honest originals first (bottom-up), then everything the case serves, in dependency order
    for c in g.a.certificates_chained.iter().rev() {
        // register AVK ids before protocol messages mention them
        ctx.avk_id(&c.aggregate_verification_key.to_json_hex().unwrap());
    }
    for e in 1..=(g.a.certificates_chained[0].epoch.0 + 2) {
        for n in [g.signers_a(e), g.signers_b(e)] {
            let fx = fixture(&g.params, n);
            ctx.avk_id(&fx.compute_and_encode_concatenation_aggregate_verification_key());
        }
    }
    for c in g.a.certificates_chained.iter().rev() {
        ctx.node(c);
    }
    let mut pending: Vec<Certificate> = vec![];
    for t in ts.iter() {
        pending.extend(t.table.iter().map(|(_, c)| c.clone()));
        pending.push(t.start.clone());
    }
    while !pending.is_empty() {
        let idx = (0..pending.len())
            .find(|&i| !pending.iter().enumerate().any(|(k, o)| k != i && o.hash == pending[i].previous_hash && o.hash != pending[i].hash && !ctx.strings.contains_key(&o.hash)))
            .unwrap_or(0);
        let c = pending.remove(idx);
        ctx.node(&c);
    }
    let per = ts
        .iter()
        .map(|t| {
            let entries: Vec<String> = t.table.iter().map(|(k, c)| format!("({}, {})", ctx.sym(k), ctx.names[&format!("{:#?}", c)])).collect();
            (coq::list(&entries), ctx.names[&format!("{:#?}", t.start)].clone(), ctx.sym(&t.start.hash))
        })
        .collect();
    (ctx.lets.join(" "), per)
}

fn run_case(rt: &tokio::runtime::Runtime, g: &Group, t: &Tampered) -> (u64, String) {
    let obs = run_common(rt, g, t);
    let (lets, per) = terms(g, &[t]);
    let model = format!("C03.Model.run 1 ({} ({}, {}))", lets, per[0].0, per[0].1);
    (obs, model)
}

// ---------------------------------------------------------------------------------------------
// mithril-client entry point
// ---------------------------------------------------------------------------------------------

struct FakeAggregator(HashMap<String, MithrilCertificate>);
#[async_trait::async_trait]
impl CertificateAggregatorRequest for FakeAggregator {
    async fn list_latest(&self) -> MithrilResult<Vec<MithrilCertificateListItem>> {
        Ok(vec![])
    }
    async fn get_by_hash(&self, hash: &str) -> MithrilResult<Option<MithrilCertificate>> {
        Ok(self.0.get(hash).cloned())
    }
}

#[derive(Clone)]
enum Op {
    Run(Tampered),
    Reset,
}

/// one client (one verifier cache when `use_cache`), a history of `verify_chain(hash)` calls, each
/// against its own provider; returns one verdict per call (0 accept, 1 reject, 2 panic)
fn run_client(rt: &tokio::runtime::Runtime, g: &Group, use_cache: bool, ops: &[Op]) -> Vec<u64> {
    let logger = slog::Logger::root(slog::Discard, slog::o!());
    let gvk: String = g.a.genesis_verifier.to_ed25519_verification_key().try_into().unwrap();
    let cache = Arc::new(MemoryCertificateVerifierCache::new(chrono::TimeDelta::hours(1)));
    let mut out = vec![];
    for op in ops {
        match op {
            Op::Reset => {
                rt.block_on(cache.reset()).unwrap();
            }
            Op::Run(t) => {
                let mut m: HashMap<String, MithrilCertificate> = HashMap::new();
                for (k, c) in t.table.iter() {
                    if !m.contains_key(k) {
                        let msg: MithrilCertificate = c.clone().try_into().expect("certificate -> message");
                        m.insert(k.clone(), msg);
                    }
                }
                let agg = Arc::new(FakeAggregator(m));
                let verifier = ClientCertificateVerifier::new(
                    agg.clone(),
                    &gvk,
                    FeedbackSender::new(&[]),
                    use_cache.then(|| cache.clone() as Arc<dyn CertificateVerifierCache>),
                    logger.clone(),
                )
                .unwrap();
                let client = CertificateClient::new(agg, Arc::new(verifier), logger.clone());
                let h = t.start.hash.clone();
                let r = hc::catch(std::panic::AssertUnwindSafe(|| rt.block_on(client.verify_chain(&h)).is_ok()));
                out.push(match r { Some(true) => 0, Some(false) => 1, None => 2 });
            }
        }
    }
    out
}

fn untouched_from(g: &Group, start_idx: usize) -> Tampered {
    let a = &g.a.certificates_chained;
    Tampered {
        kind: "untouched".into(),
        table: a.iter().map(|c| (c.hash.clone(), c.clone())).collect(),
        start: a[start_idx].clone(),
        must_reject: false,
        note: format!("start {}", start_idx),
        target_is_start: false,
    }
}
fn adversary_chain(g: &Group) -> Tampered {
    let b = &g.b.certificates_chained;
    Tampered {
        kind: "adversary-chain".into(),
        table: b.iter().map(|c| (c.hash.clone(), c.clone())).collect(),
        start: b[0].clone(),
        must_reject: true,
        note: "internally consistent chain under another genesis key".into(),
        target_is_start: true,
    }
}
/// The adversary's chain, except that the request for the adversary's genesis certificate is
/// answered with the honest genesis certificate (valid under the configured key, another hash).
/// Whoever reaches that request through remembered links must notice the hash.
fn adversary_chain_honest_genesis_served(g: &Group) -> Tampered {
    let mut t = adversary_chain(g);
    let bg = g.b.certificates_chained.last().unwrap().hash.clone();
    let ag = g.a.certificates_chained.last().unwrap().clone();
    t.table.retain(|(h, _)| *h != bg);
    t.table.push((bg, ag));
    t.kind = "adversary-chain-honest-genesis-served".into();
    t.note = "adversary chain; the request for its genesis certificate is answered with the honest genesis certificate".into();
    t
}
/// A certificate re-signed by the adversary (own key, valid multi-signature, hash recomputed) that
/// chains to the hash of an honest certificate; the request for that hash is answered with a copy
/// of the honest certificate edited to commit to the adversary's key (same epoch: its key field;
/// preceding epoch: the next-key part of its message) that keeps the honest hash field.  Only the
/// verification of the served parent itself (hash against content) can tell.
fn forged_over_fake_parent(rng: &mut Rng, g: &mut Group) -> Option<Tampered> {
    let a: Vec<Certificate> = g.a.certificates_chained.clone();
    let cands: Vec<(usize, usize)> = (0..a.len())
        .filter(|&j| !a[j].is_genesis())
        .filter_map(|j| a.iter().position(|p| p.hash == a[j].previous_hash).map(|q| (j, q)))
        .collect();
    if cands.is_empty() { return None }
    let (j, q) = *rng.pick(&cands);
    let mut c = a[j].clone();
    if !g.resign_b(&mut c) { return None }
    rehash(&mut c);
    let mut p = a[q].clone();
    let same_epoch = p.epoch == c.epoch;
    if same_epoch {
        p.aggregate_verification_key = c.aggregate_verification_key.clone();
    } else {
        p.protocol_message.set_message_part(K::NextAggregateVerificationKey, c.aggregate_verification_key.to_json_hex().unwrap());
        if rng.coin() { p.signed_message = p.protocol_message.compute_hash(); }
    }
    let mut t: Vec<(String, Certificate)> = a.iter().filter(|x| x.hash != a[q].hash).map(|x| (x.hash.clone(), x.clone())).collect();
    t.push((a[q].hash.clone(), p));
    t.push((c.hash.clone(), c.clone()));
    Some(Tampered {
        kind: "forged-over-fake-parent".into(),
        table: t,
        start: c,
        must_reject: true,
        note: format!("cert {} re-signed by the adversary; its parent cert {} ({}) is served with the honest hash field but commits to the adversary's key", j, q, if same_epoch { "same epoch" } else { "preceding epoch" }),
        target_is_start: true,
    })
}

/// number of systematic boundary cases per group
const NB: u64 = 8;
const CLIENT_SHAPES: u64 = 12;
/// the history of calls of one client case: (shape name, cache enabled, calls)
fn client_case(rng: &mut Rng, g: &mut Group, which: u64) -> (String, bool, Vec<Op>) {
    let n = g.a.certificates_chained.len();
    let mid = if n > 2 { rng.range(1, n as u64 - 2) as usize } else { 0 };
    let h0 = Op::Run(untouched_from(g, 0));
    let hmid = Op::Run(untouched_from(g, mid));
    let mut t = tamper(rng, g);
    if matches!(which % CLIENT_SHAPES, 2 | 4) {
        // a violation strictly below the start certificate with every hash recomputed: the first call validates
        // the start certificate's own step and fails deeper; nothing of that call may help the second one
        for _ in 0..40 {
            if t.closed() && !t.target_is_start && t.kind.ends_with("/rehash") { break }
            t = tamper(rng, g);
        }
    }
    let t2 = tamper(rng, g);
    let k1 = forged_over_fake_parent(rng, g);
    let adv = Op::Run(adversary_chain(g));
    let k2 = Op::Run(adversary_chain_honest_genesis_served(g));
    let k1_or_t = |k1: Option<Tampered>, t: &Tampered| Op::Run(k1.unwrap_or_else(|| t.clone()));
    match which % CLIENT_SHAPES {
        0 => ("no-cache".into(), false, vec![Op::Run(t)]),
        1 => ("warm".into(), true, vec![h0, Op::Run(t)]),
        2 => ("twice".into(), true, vec![Op::Run(t.clone()), Op::Run(t)]),
        3 => ("warm-from-middle".into(), true, vec![hmid, Op::Run(t)]),
        4 => ("tampered-warm-tampered".into(), true, vec![Op::Run(t.clone()), h0, Op::Run(t)]),
        5 => ("warm".into(), true, vec![h0, k1_or_t(k1, &t)]),
        6 => ("twice".into(), true, { let o = k1_or_t(k1, &t); vec![o.clone(), o] }),
        7 => ("adversary-first".into(), true, vec![adv, k2]),
        8 => ("warm-adversary-first".into(), true, vec![h0, adv, k2]),
        9 => ("warm-reset".into(), true, vec![h0, Op::Reset, k1_or_t(k1, &t)]),
        10 => ("warm-from-middle".into(), true, vec![hmid, k1_or_t(k1, &t)]),
        _ => ("two-tamperings".into(), true, vec![Op::Run(t), Op::Run(t2)]),
    }
}

fn main() {
    let args = hc::parse_args();
    let mut rng = Rng::new(args.seed);
    let mut sink = Sink::new(&args);
    let rt = tokio::runtime::Builder::new_current_thread().enable_all().build().unwrap();
    // per group: NB boundary cases + `per_group` tamperings on the common verifier, then `per_client` client histories
    let (n_groups, per_group, per_client) = if args.thorough { (12, 60, 36) } else { (4, 28, 12) };
    let group_cases = per_group + NB + per_client;
    for gi in 0..n_groups {
        let mut gr = rng.fork();
        // building a group is expensive: skip it entirely when --only selects a case of another group
        let first_id = gi as u64 * group_cases;
        if let Some(o) = args.only {
            if o < first_id || o >= first_id + group_cases {
                for _ in 0..group_cases { sink.wants(); }
                continue;
            }
        }
        let mut g = build_group(&mut gr, gi as u64);
        let chain_desc = |g: &Group| serde_json::json!({"certificates": g.a.certificates_chained.len(), "per_epoch": g.per_epoch, "constant_avk": g.constant_avk,
                              "k": g.params.k, "m": g.params.m, "phi_f": g.params.phi_f});
        for ci in 0..(per_group + NB) {
            let mut r = gr.fork();
            let Some(id) = sink.wants() else { continue };
            let t = if ci < NB {
                match boundary(&mut r, &mut g, ci) {
                    Some(t) => t,
                    None => tamper(&mut r, &mut g),
                }
            } else {
                tamper(&mut r, &mut g)
            };
            let (obs, model) = run_case(&rt, &g, &t);
            let accepted = obs == 0;
            let holds = !(accepted && t.must_reject) && obs != 2;
            sink.push(Case {
                id,
                kind: t.kind.clone(),
                desc: serde_json::json!({
                    "entry": "mithril_common MithrilCertificateVerifier::verify_certificate_chain",
                    "chain": chain_desc(&g),
                    "tampering": t.note, "start_epoch": *t.start.epoch, "start_hash": t.start.hash, "served": t.table.len(),
                    "violates_property": t.must_reject }),
                model: Some(model),
                impl_obs: coq::oz(obs as i128),
                holds: Some(holds),
                why: if holds { None } else if obs == 2 { Some("the verifier panicked".into()) } else { Some(format!("accepted although the chain violates the property: {} ({})", t.kind, t.note)) },
                known: None,
                nontrivial: t.kind != "untouched",
                key: format!("{}/{}/{}", gi, t.kind, t.note),
            });
        }
        for ci in 0..per_client {
            let mut r = gr.fork();
            let Some(id) = sink.wants() else { continue };
            // every shape in turn; the offset makes the groups start at different shapes in the thorough tier
            let (shape, use_cache, ops) = client_case(&mut r, &mut g, ci + gi as u64 * per_client);
            let verdicts = run_client(&rt, &g, use_cache, &ops);
            let runs: Vec<&Tampered> = ops.iter().filter_map(|o| if let Op::Run(t) = o { Some(t) } else { None }).collect();
            let (lets, per) = terms(&g, &runs);
            let mut k = 0;
            let op_terms: Vec<String> = ops
                .iter()
                .map(|o| match o {
                    Op::Reset => "C03.Model.CReset".to_string(),
                    Op::Run(_) => {
                        let s = format!("(C03.Model.CRun {} {})", per[k].0, per[k].2);
                        k += 1;
                        s
                    }
                })
                .collect();
            let model = format!("C03.Model.run_client {} 1 ({} {})", if use_cache { "true" } else { "false" }, lets, coq::list(&op_terms));
            let mut why = None;
            for (i, (t, v)) in runs.iter().zip(verdicts.iter()).enumerate() {
                if *v == 2 {
                    why = Some(format!("call {} panicked", i + 1));
                    break;
                }
                if *v == 0 && t.closed() {
                    why = Some(format!(
                        "call {} of the history accepted although the chain of the start certificate violates the property: {} ({})",
                        i + 1, t.kind, t.note
                    ));
                    break;
                }
            }
            let last = runs.last().unwrap();
            let kind = format!("client/{}/{}", shape, last.kind);
            let history: Vec<serde_json::Value> = ops
                .iter()
                .map(|o| match o {
                    Op::Reset => serde_json::json!("reset of the verifier cache"),
                    Op::Run(t) => serde_json::json!({"kind": t.kind, "tampering": t.note, "start_hash": t.start.hash, "start_epoch": *t.start.epoch,
                                                     "served": t.table.len(), "violates_property_whatever_was_validated_before": t.closed()}),
                })
                .collect();
            sink.push(Case {
                id,
                kind: kind.clone(),
                desc: serde_json::json!({
                    "entry": "mithril_client CertificateClient::verify_chain (one client, calls in order)",
                    "verifier_cache": use_cache, "chain": chain_desc(&g), "calls": history, "verdicts (0 accept, 1 reject)": verdicts }),
                model: Some(model),
                impl_obs: coq::ol(&verdicts.iter().map(|v| coq::oz(*v as i128)).collect::<Vec<_>>()),
                holds: Some(why.is_none()),
                why,
                known: None,
                nontrivial: true,
                key: format!("{}/{}/{}", gi, kind, runs.iter().map(|t| t.note.clone()).collect::<Vec<_>>().join(" | ")),
            });
        }
    }
    sink.finish();
}
