//! C06 correspondence harness: one aggregate key from one registration set.
//!
//! A case is a table of BLS keys and several signer lists over it (permutations and
//! edits of a base set).  Every list is run through the real code on three paths:
//!   A  aggregator / generic: `SignerBuilder::new(..).compute_aggregate_verification_key()`
//!      (optionally after a JSON round trip of the `SignerWithStake` list);
//!   B  signer: `SignerBuilder::restore_signer_from_initializer` + `sign` (slot = signer index,
//!      signature verified by path A's multi-signer, i.e. the signer committed to the same key),
//!      and `KeyRegWrapper::{register, close}` + `new_signer` + `Clerk::new_clerk_from_signer`;
//!   C  client: `MessageBuilder::compute_mithril_stake_distribution_message` on the
//!      stake-distribution message parsed back from its JSON text.
//! Observed: per list outcome, number of leaves, total stake, slots; the equality pattern of the
//! JSON-hex encoded aggregate keys over the lists of the case; agreement of the paths.
//! `holds` is judged from provenance: lists registering the same set of (key, stake) pairs must
//! give one key and the same slots on every path, different sets different keys.
use hc::{coq, Case, Rng, Sink};
use mithril_client::{MessageBuilder, MithrilCertificate, MithrilSigner, MithrilStakeDistribution};
use mithril_common::{
    crypto_helper::{
        KesEvolutions, KesPeriod, KesSigner, KesSignerStandard, ProtocolAggregateVerificationKey, ProtocolClerk,
        ProtocolInitializer, ProtocolKey, ProtocolKeyRegistration, ProtocolOpCert, SignerRegistrationParameters,
    },
    entities::{Epoch, ProtocolMessage, ProtocolMessagePartKey, ProtocolParameters, SignerWithStake},
    protocol::SignerBuilder,
    test::{builder::MithrilFixtureBuilder, double::Dummy},
};
use rand_chacha::ChaCha20Rng;
use rand_core::SeedableRng;
use std::collections::{BTreeMap, BTreeSet, HashMap};
use std::path::PathBuf;
use std::sync::Arc;

const N_POOLS: usize = 40;
const N_KEYS: usize = 160;

#[derive(Clone)]
struct Pool {
    party_id: String,
    opcert: ProtocolOpCert,
    kes_sk: PathBuf,
    opcert_path: PathBuf,
}

/// one listed signer: (pool index, key seed, stake)
type Item = (usize, usize, u64);

#[derive(Clone)]
struct Spec {
    id: u64,
    kind: String,
    /// lists with a label (how it was derived from the base list)
    lists: Vec<(String, Vec<Item>, bool)>, // (label, items, json round trip of the inputs on path A)
}

struct World {
    params: ProtocolParameters,
    pools: Vec<Pool>,
    /// key seed -> 96 key bytes
    key_bytes: Vec<[u8; 96]>,
}

fn make_initializer(w: &World, it: Item) -> (SignerWithStake, ProtocolInitializer) {
    let (p, k, stake) = it;
    let pool = &w.pools[p];
    let mut seed = [0u8; 32];
    seed[..8].copy_from_slice(&(k as u64 + 1).to_le_bytes());
    seed[31] = 0xC6;
    let kes: Arc<dyn KesSigner> = Arc::new(KesSignerStandard::new(pool.kes_sk.clone(), pool.opcert_path.clone()));
    let init = ProtocolInitializer::setup(
        w.params.clone().into(),
        Some(kes),
        Some(KesPeriod(0)),
        stake,
        &mut ChaCha20Rng::from_seed(seed),
    )
    .expect("initializer setup");
    let s = SignerWithStake {
        party_id: pool.party_id.clone(),
        verification_key_for_concatenation: init.verification_key_for_concatenation().into(),
        verification_key_signature_for_concatenation: init.verification_key_signature_for_concatenation(),
        operational_certificate: Some(pool.opcert.clone()),
        kes_evolutions: Some(KesEvolutions(0)),
        stake,
    };
    (s, init)
}

fn avk_hex(avk: &ProtocolAggregateVerificationKey) -> String {
    ProtocolKey::new(avk.to_concatenation_aggregate_verification_key().to_owned())
        .to_json_hex()
        .expect("avk json hex")
}

/// (nr_leaves, total_stake) read back from the JSON-hex form of the key
fn avk_fields(hexs: &str) -> (u64, u64) {
    let raw = hex::decode(hexs).expect("hex");
    let v: serde_json::Value = serde_json::from_slice(&raw).expect("json");
    fn find(v: &serde_json::Value, key: &str) -> Option<u64> {
        match v {
            serde_json::Value::Object(m) => {
                if let Some(x) = m.get(key) {
                    return x.as_u64();
                }
                m.values().find_map(|x| find(x, key))
            }
            serde_json::Value::Array(a) => a.iter().find_map(|x| find(x, key)),
            _ => None,
        }
    }
    (find(&v, "nr_leaves").expect("nr_leaves"), find(&v, "total_stake").expect("total_stake"))
}

#[derive(Clone, Debug)]
struct ListOut {
    /// None = panic; Some(Err) = rejected; Some(Ok) = (avk json-hex, n, total, slots per listed signer)
    a: Option<Result<(String, u64, u64, Vec<Option<u64>>), String>>,
    /// anything that makes the paths disagree
    path_issues: Vec<String>,
}

fn run_list(
    w: &World,
    cache: &HashMap<Item, (SignerWithStake, ProtocolInitializer)>,
    items: &[Item],
    json_inputs: bool,
    sample: usize,
) -> ListOut {
    let r = std::panic::catch_unwind(std::panic::AssertUnwindSafe(|| {
        let mut issues = vec![];
        let mut signers: Vec<SignerWithStake> = items.iter().map(|it| cache[it].0.clone()).collect();
        if json_inputs {
            let txt = serde_json::to_string(&signers).expect("signers to json");
            signers = serde_json::from_str(&txt).expect("signers from json");
        }
        // ---- path A
        let builder = match SignerBuilder::new(&signers, &w.params) {
            Ok(b) => b,
            Err(e) => {
                // the other paths must reject too
                let c = run_client(w, &signers);
                if c.is_ok() {
                    issues.push("client path accepts a list SignerBuilder rejects".to_string());
                }
                if run_keyreg(w, &signers).is_ok() {
                    issues.push("KeyRegWrapper path accepts a list SignerBuilder rejects".to_string());
                }
                return (Err(format!("{e:#}")), issues);
            }
        };
        let avk_a = avk_hex(&builder.compute_aggregate_verification_key());
        // re-decode the key from its JSON-hex form and encode again
        let back = mithril_common::crypto_helper::ProtocolAggregateVerificationKeyForConcatenation::from_json_hex(&avk_a)
            .expect("avk from json hex");
        if back.to_json_hex().expect("hex") != avk_a {
            issues.push("aggregate key JSON-hex round trip changed the key".to_string());
        }
        let (n, total) = avk_fields(&avk_a);
        let multi = builder.build_multi_signer();
        if avk_hex(&multi.compute_aggregate_verification_key()) != avk_a {
            issues.push("multi-signer key differs from SignerBuilder key".to_string());
        }
        // ---- path B1: every listed signer restores itself and signs
        let mut msg = ProtocolMessage::new();
        msg.set_message_part(ProtocolMessagePartKey::SnapshotDigest, "c06".to_string());
        let mut slots = vec![];
        for (i, it) in items.iter().enumerate() {
            let init = cache[it].1.clone();
            match builder.restore_signer_from_initializer(signers[i].party_id.clone(), init) {
                Ok(single) => match single.sign(&msg) {
                    Ok(Some(sig)) => {
                        slots.push(Some(sig.signature.signer_index));
                        // a party id listed twice names two keys: since the fix binding a single signature to
                        // the key registered under its party id (76f9acd29) the multi-signer refuses one of
                        // them by design, so the cross-check only applies to lists with distinct party ids
                        let party_listed_once = items.iter().filter(|x| x.0 == it.0).count() == 1;
                        if let (true, Err(e)) = (party_listed_once, multi.verify_single_signature(&msg, &sig)) {
                            issues.push(format!("signature of listed signer {i} rejected under the aggregator's key: {e:#}"));
                        }
                    }
                    _ => {
                        issues.push(format!("listed signer {i} could not sign (phi_f = 1)"));
                        slots.push(None)
                    }
                },
                Err(_) => slots.push(None),
            }
        }
        // ---- path B2: KeyRegWrapper by hand + clerk from a signer
        match run_keyreg(w, &signers) {
            Ok(closed) => {
                let it = &items[sample % items.len()];
                match cache[it].1.clone().new_signer(closed) {
                    Ok(ps) => {
                        let k = avk_hex(&ProtocolClerk::new_clerk_from_signer(&ps).compute_aggregate_verification_key());
                        if k != avk_a {
                            issues.push("a signer's clerk computes another aggregate key".to_string());
                        }
                    }
                    Err(_) => {
                        if slots[sample % items.len()].is_some() {
                            issues.push("signer creation fails on the KeyRegWrapper path only".to_string());
                        }
                    }
                }
            }
            Err(e) => issues.push(format!("KeyRegWrapper path rejects: {e}")),
        }
        // ---- path C: the client recomputes the key from the message JSON
        match run_client(w, &signers) {
            Ok(k) => {
                if k != avk_a {
                    issues.push("client recomputation gives another aggregate key".to_string());
                }
            }
            Err(e) => issues.push(format!("client path rejects: {e}")),
        }
        (Ok((avk_a, n, total, slots)), issues)
    }));
    match r {
        Ok((a, path_issues)) => ListOut { a: Some(a), path_issues },
        Err(_) => ListOut { a: None, path_issues: vec![] },
    }
}

fn run_keyreg(w: &World, signers: &[SignerWithStake]) -> Result<mithril_common::crypto_helper::ProtocolClosedKeyRegistration, String> {
    let sd: Vec<(String, u64)> = signers.iter().map(|s| (s.party_id.clone(), s.stake)).collect();
    let mut kr = ProtocolKeyRegistration::init(&sd);
    for s in signers {
        kr.register(SignerRegistrationParameters {
            party_id: Some(s.party_id.clone()),
            operational_certificate: s.operational_certificate.clone(),
            verification_key_for_concatenation: s.verification_key_for_concatenation,
            verification_key_signature_for_concatenation: s.verification_key_signature_for_concatenation,
            kes_evolutions: s.kes_evolutions,
        })
        .map_err(|e| format!("{e:#}"))?;
    }
    kr.close(&w.params.clone().into()).map_err(|e| format!("{e:#}"))
}

fn run_client(w: &World, signers: &[SignerWithStake]) -> Result<String, String> {
    let msd = MithrilStakeDistribution {
        epoch: Epoch(7),
        signers_with_stake: MithrilSigner::from_signers(signers.to_vec()),
        hash: "hash".to_string(),
        certificate_hash: "certificate-hash".to_string(),
        created_at: Default::default(),
        protocol_parameters: w.params.clone(),
    };
    let txt = serde_json::to_string(&msd).map_err(|e| e.to_string())?;
    let msd: MithrilStakeDistribution = serde_json::from_str(&txt).map_err(|e| e.to_string())?;
    let cert = MithrilCertificate::dummy();
    let m = MessageBuilder::new()
        .compute_mithril_stake_distribution_message(&cert, &msd)
        .map_err(|e| format!("{e:#}"))?;
    m.get_message_part(&ProtocolMessagePartKey::NextAggregateVerificationKey)
        .cloned()
        .ok_or_else(|| "no next aggregate verification key in the message".to_string())
}

/// effective registered set of a list: (key bytes, stake the distribution holds for the pool)
fn registered_set(w: &World, items: &[Item]) -> BTreeSet<(Vec<u8>, u64)> {
    let mut sd: HashMap<usize, u64> = HashMap::new();
    for (p, _, st) in items {
        sd.insert(*p, *st);
    }
    items.iter().map(|(p, k, _)| (w.key_bytes[*k].to_vec(), sd[p])).collect()
}

fn exec(w: &World, spec: &Spec) -> Case {
    let mut cache: HashMap<Item, (SignerWithStake, ProtocolInitializer)> = HashMap::new();
    for (_, items, _) in &spec.lists {
        for it in items {
            cache.entry(*it).or_insert_with(|| make_initializer(w, *it));
        }
    }
    let outs: Vec<ListOut> = spec
        .lists
        .iter()
        .enumerate()
        .map(|(i, (_, items, js))| run_list(w, &cache, items, *js, i))
        .collect();

    // ---- equality pattern of the keys (all failures share one class)
    let mut classes: Vec<String> = vec![];
    let mut pattern = vec![];
    for o in &outs {
        let s = match &o.a {
            Some(Ok((k, ..))) => k.clone(),
            _ => "FAIL".to_string(),
        };
        let idx = classes.iter().position(|c| *c == s).unwrap_or_else(|| {
            classes.push(s.clone());
            classes.len() - 1
        });
        pattern.push(idx as u64);
    }
    let paths_agree = outs.iter().all(|o| o.path_issues.is_empty());
    let impl_obs = coq::ol(&[
        coq::oln(&pattern),
        coq::ol(
            &outs
                .iter()
                .map(|o| match &o.a {
                    Some(Ok((_, n, total, slots))) => coq::ol(&[
                        coq::oz(0),
                        coq::on(*n),
                        coq::on(*total),
                        coq::ol(&slots.iter().map(|s| coq::oopt(s.map(coq::on))).collect::<Vec<_>>()),
                    ]),
                    Some(Err(_)) => coq::ores_err(),
                    None => coq::ores_panic(),
                })
                .collect::<Vec<_>>(),
        ),
        coq::ob(paths_agree),
    ]);

    // ---- the property, judged from provenance
    let mut why: Option<String> = None;
    let mut fail = |s: String| {
        if why.is_none() {
            why = Some(s)
        }
    };
    for (i, o) in outs.iter().enumerate() {
        if o.a.is_none() {
            fail(format!("list {} ({}): panic", i, spec.lists[i].0));
        }
        if let Some(p) = o.path_issues.first() {
            fail(format!("list {} ({}): {}", i, spec.lists[i].0, p));
        }
    }
    let sets: Vec<BTreeSet<(Vec<u8>, u64)>> = spec.lists.iter().map(|(_, it, _)| registered_set(w, it)).collect();
    for i in 0..outs.len() {
        // slots of one list: a bijection between its registered entries and 0..n-1
        if let Some(Ok((_, n, total, slots))) = &outs[i].a {
            let items = &spec.lists[i].1;
            let mut sd: HashMap<usize, u64> = HashMap::new();
            for (p, _, st) in items {
                sd.insert(*p, *st);
            }
            let mut seen: BTreeMap<u64, (Vec<u8>, u64)> = BTreeMap::new();
            for (j, (p, k, st)) in items.iter().enumerate() {
                let entry = (w.key_bytes[*k].to_vec(), sd[p]);
                match slots[j] {
                    Some(s) => {
                        if s >= *n {
                            fail(format!("list {i}: slot {s} out of range (n = {n})"));
                        }
                        if *st != sd[p] {
                            fail(format!("list {i}: signer {j} obtained a slot although its stake is not the registered one"));
                        }
                        if let Some(prev) = seen.insert(s, entry.clone()) {
                            if prev != entry {
                                fail(format!("list {i}: slot {s} given to two different registrations"));
                            }
                        }
                    }
                    None => {
                        if *st == sd[p] {
                            fail(format!("list {i}: registered signer {j} has no slot"));
                        }
                    }
                }
            }
            if *n as usize != sets[i].len() {
                fail(format!("list {i}: {} leaves for {} registered entries", n, sets[i].len()));
            }
            let sum: u128 = sets[i].iter().map(|e| e.1 as u128).sum();
            if *total as u128 != sum {
                fail(format!("list {i}: total stake {total} but the registered stakes sum to {sum}"));
            }
        }
        for j in (i + 1)..outs.len() {
            let (Some(oi), Some(oj)) = (&outs[i].a, &outs[j].a) else { continue };
            let same_set = sets[i] == sets[j] && spec.lists[i].1.len() == spec.lists[j].1.len();
            match (oi, oj) {
                (Ok((ki, _, _, si)), Ok((kj, _, _, sj))) => {
                    if sets[i] == sets[j] && ki != kj {
                        fail(format!(
                            "lists {i} ({}) and {j} ({}) register the same set but give different aggregate keys",
                            spec.lists[i].0, spec.lists[j].0
                        ));
                    }
                    if sets[i] != sets[j] && ki == kj {
                        fail(format!(
                            "lists {i} ({}) and {j} ({}) register different sets but give the same aggregate key",
                            spec.lists[i].0, spec.lists[j].0
                        ));
                    }
                    if sets[i] == sets[j] {
                        // same signer (pool, key, stake) -> same slot
                        for (a, ita) in spec.lists[i].1.iter().enumerate() {
                            for (b, itb) in spec.lists[j].1.iter().enumerate() {
                                if ita == itb && si[a] != sj[b] {
                                    fail(format!(
                                        "signer {:?} has slot {:?} in list {i} and {:?} in list {j} (same registered set)",
                                        ita, si[a], sj[b]
                                    ));
                                }
                            }
                        }
                    }
                }
                (Ok(_), Err(_)) | (Err(_), Ok(_)) => {
                    if same_set {
                        fail(format!(
                            "lists {i} ({}) and {j} ({}) are permutations of each other but only one is accepted",
                            spec.lists[i].0, spec.lists[j].0
                        ));
                    }
                }
                _ => {}
            }
        }
    }

    // ---- model term
    let mut used: Vec<usize> = vec![];
    for (_, items, _) in &spec.lists {
        for (_, k, _) in items {
            if !used.contains(k) {
                used.push(*k);
            }
        }
    }
    let keys_term = coq::list(&used.iter().map(|k| format!("0x{}", hex::encode(w.key_bytes[*k]))).collect::<Vec<_>>());
    let lists_term = coq::list(
        &spec
            .lists
            .iter()
            .map(|(_, items, _)| {
                coq::list(
                    &items
                        .iter()
                        .map(|(p, k, st)| format!("({}, ({}, {}))", p, used.iter().position(|x| x == k).unwrap(), st))
                        .collect::<Vec<_>>(),
                )
            })
            .collect::<Vec<_>>(),
    );
    let n_ok = outs.iter().filter(|o| matches!(o.a, Some(Ok(_)))).count();
    let n0 = spec.lists[0].1.len();
    Case {
        id: spec.id,
        kind: spec.kind.clone(),
        desc: serde_json::json!({
            "lists": spec.lists.iter().map(|(l, items, js)| serde_json::json!({"derivation": l, "json_inputs": js,
                "signers(pool,key,stake)": items.iter().map(|(p,k,s)| serde_json::json!([p,k,s])).collect::<Vec<_>>()})).collect::<Vec<_>>(),
            "keys": used.iter().map(|k| serde_json::json!({"key": k, "vk_hex": hex::encode(w.key_bytes[*k])})).collect::<Vec<_>>(),
            "outcomes": outs.iter().map(|o| match &o.a { Some(Ok((k,n,t,s))) => serde_json::json!({"avk": &k[k.len().saturating_sub(48)..], "n": n, "total": t, "slots": s}),
                                                        Some(Err(e)) => serde_json::json!({"rejected": e}), None => serde_json::json!("panic") }).collect::<Vec<_>>(),
        }),
        model: Some(format!("C06.Model.run {} {}", keys_term, lists_term)),
        impl_obs,
        holds: Some(why.is_none()),
        why,
        known: None,
        nontrivial: n0 >= 2 && n_ok >= 2,
        key: format!("{:?}", spec.lists.iter().map(|(_, i, _)| i.clone()).collect::<Vec<_>>()),
    }
}

fn permutations(n: usize) -> Vec<Vec<usize>> {
    fn go(cur: &mut Vec<usize>, used: &mut Vec<bool>, n: usize, out: &mut Vec<Vec<usize>>) {
        if cur.len() == n {
            out.push(cur.clone());
            return;
        }
        for i in 0..n {
            if !used[i] {
                used[i] = true;
                cur.push(i);
                go(cur, used, n, out);
                cur.pop();
                used[i] = false;
            }
        }
    }
    let mut out = vec![];
    go(&mut vec![], &mut vec![false; n], n, &mut out);
    out
}

fn gen_spec(rng: &mut Rng, id: u64, w: &World, buckets: &[Vec<usize>], all_perm_5: bool, thorough: bool) -> Spec {
    // size
    let n = match rng.below(10) {
        0 => 1,
        1 | 2 => 2,
        3 | 4 => 3,
        5 => 4,
        6 => {
            if all_perm_5 { 5 } else { rng.range(5, 8) as usize }
        }
        7 | 8 => rng.range(5, 16) as usize,
        _ => rng.range(17, N_POOLS as u64) as usize,
    };
    // pools
    let mut pools: Vec<usize> = (0..N_POOLS).collect();
    rng.shuffle(&mut pools);
    pools.truncate(n);
    // keys: random, or drawn from one first-byte bucket (equal prefixes)
    let key_mode = rng.below(3);
    let mut keys: Vec<usize> = match key_mode {
        0 => {
            let mut ks: Vec<usize> = (0..N_KEYS).collect();
            rng.shuffle(&mut ks);
            ks
        }
        _ => {
            // biggest buckets first, then the rest
            let b = rng.below(std::cmp::min(4, buckets.len() as u64)) as usize;
            let mut ks = buckets[b].clone();
            rng.shuffle(&mut ks);
            let mut rest: Vec<usize> = (0..N_KEYS).filter(|k| !ks.contains(k)).collect();
            rng.shuffle(&mut rest);
            ks.extend(rest);
            ks
        }
    };
    let spare_key = keys[n];
    let spare_pool = (0..N_POOLS).find(|p| !pools.contains(p));
    keys.truncate(n);
    // stakes
    let stake_mode = rng.below(8);
    let stakes: Vec<u64> = (0..n)
        .map(|i| match stake_mode {
            0 => 1_000,                                         // all equal
            1 => [5u64, 9][(rng.below(2)) as usize],            // two values
            2 => rng.below(4),                                  // tiny, zero included
            3 => rng.range(1, 1_000_000_000_000),               // lovelace-like
            4 => (i as u64 / 2) + 1,                            // pairs of equal stakes
            5 => u64::MAX / (n as u64) - rng.below(3),          // total near 2^64
            6 => (u64::MAX / (n as u64)).saturating_add(rng.below(2)),          // total at / over 2^64
            _ => rng.next() >> rng.below(64),
        })
        .collect();
    let base: Vec<Item> = (0..n).map(|i| (pools[i], keys[i], stakes[i])).collect();
    let mut lists: Vec<(String, Vec<Item>, bool)> = vec![("base".into(), base.clone(), false)];
    let kind;
    // permutations
    if n <= 4 || (n == 5 && all_perm_5) {
        kind = format!("all-permutations-n{}", n);
        for p in permutations(n).into_iter().skip(1) {
            let js = rng.chance(1, 6);
            lists.push((format!("perm{:?}", p), p.iter().map(|i| base[*i]).collect(), js));
        }
    } else {
        kind = if n <= 16 { "sampled-permutations-n5-16".to_string() } else { "sampled-permutations-n17-40".to_string() };
        let mut r = base.clone();
        r.reverse();
        lists.push(("reversed".into(), r, true));
        let mut s = base.clone();
        s.sort_by(|a, b| w.key_bytes[a.1].cmp(&w.key_bytes[b.1]));
        lists.push(("sorted-by-key".into(), s, false));
        let mut s = base.clone();
        s.sort_by(|a, b| (b.2, w.key_bytes[b.1]).cmp(&(a.2, w.key_bytes[a.1])));
        lists.push(("sorted-descending".into(), s, false));
        let extra = if thorough { 4 } else { 2 };
        for i in 0..extra {
            let mut s = base.clone();
            rng.shuffle(&mut s);
            lists.push((format!("shuffle{i}"), s, rng.chance(1, 3)));
        }
    }
    // edited sets (each should give another key), shuffled
    let mut push_variant = |label: &str, mut v: Vec<Item>, rng: &mut Rng| {
        if rng.coin() {
            rng.shuffle(&mut v);
        }
        lists.push((label.to_string(), v, rng.chance(1, 4)));
    };
    let i = rng.below(n as u64) as usize;
    let j = rng.below(n as u64) as usize;
    {
        let mut v = base.clone();
        v[i].2 = v[i].2.wrapping_add(1);
        push_variant("stake+1", v, rng);
    }
    {
        let mut v = base.clone();
        v[i].1 = spare_key;
        push_variant("key-replaced", v, rng);
    }
    if n > 1 {
        let mut v = base.clone();
        v.remove(i);
        push_variant("party-removed", v, rng);
    }
    if let Some(sp) = spare_pool {
        let mut v = base.clone();
        v.push((sp, spare_key, stakes[j]));
        push_variant("party-added", v, rng);
    }
    if i != j {
        if base[i].2 != base[j].2 {
            let mut v = base.clone();
            let t = v[i].2;
            v[i].2 = v[j].2;
            v[j].2 = t;
            push_variant("stakes-swapped", v, rng);
        }
        if base[i].2 < u64::MAX && base[j].2 > 0 {
            let mut v = base.clone();
            v[i].2 += 1;
            v[j].2 -= 1;
            push_variant("stake-moved-same-total", v, rng);
        }
        // the same key under two pools: the second registration must be refused
        if rng.chance(1, 4) {
            let mut v = base.clone();
            v[j].1 = v[i].1;
            push_variant("duplicate-key", v.clone(), rng);
            v.reverse();
            push_variant("duplicate-key-reversed", v, rng);
        }
        // one pool listed twice with two keys and two stakes: the distribution keeps the last stake
        if rng.chance(1, 5) {
            let mut v = base.clone();
            v[j].0 = v[i].0;
            lists.push(("duplicate-party".to_string(), v.clone(), false));
            v.swap(i, j);
            lists.push(("duplicate-party-swapped".to_string(), v, false));
        }
    }
    Spec { id, kind, lists }
}

fn main() {
    let args = hc::parse_args();
    let work = std::env::var("VERIF_WORK").unwrap_or_else(|_| ".".to_string());
    let tmp = PathBuf::from(&work).join("tmp");
    std::fs::create_dir_all(&tmp).expect("tmp dir");
    std::env::set_var("TMPDIR", &tmp);
    let mut rng = Rng::new(args.seed);
    let mut sink = Sink::new(&args);

    // ---- world: pools with cold keys, KES keys and operational certificates; a table of BLS keys
    let params = ProtocolParameters::new(1, 2, 1.0);
    let fixture = MithrilFixtureBuilder::default()
        .with_signers(N_POOLS)
        .with_protocol_parameters(params.clone())
        .build();
    let pools: Vec<Pool> = fixture
        .signers_fixture()
        .iter()
        .map(|f| Pool {
            party_id: f.signer_with_stake.party_id.clone(),
            opcert: f.signer_with_stake.operational_certificate.clone().expect("opcert"),
            kes_sk: f.kes_secret_key_path.clone().expect("kes path"),
            opcert_path: f.operational_certificate_path.clone().expect("opcert path"),
        })
        .collect();
    let mut w = World { params, pools, key_bytes: vec![] };
    for k in 0..N_KEYS {
        let (s, _) = make_initializer(&w, (0, k, 1));
        w.key_bytes.push(s.verification_key_for_concatenation.vk.to_bytes());
    }
    // buckets of keys sharing the first byte, largest first
    let mut by_first: BTreeMap<u8, Vec<usize>> = BTreeMap::new();
    for (k, b) in w.key_bytes.iter().enumerate() {
        by_first.entry(b[0]).or_default().push(k);
    }
    let mut buckets: Vec<Vec<usize>> = by_first.into_values().collect();
    buckets.sort_by_key(|b| std::cmp::Reverse(b.len()));

    let debug = std::env::var("VERIF_DEBUG").is_ok();
    std::panic::set_hook(Box::new(move |info| {
        if debug {
            eprintln!("panic: {info}");
        }
    }));
    // ---- specs (all randomness is consumed here, identically with or without --only)
    let n_cases = if args.thorough { 600 } else { 140 };
    let n_all5 = if args.thorough { 20 } else { 3 };
    let mut specs = vec![];
    for c in 0..n_cases {
        let id = c as u64;
        let mut r = rng.fork();
        let spec = gen_spec(&mut r, id, &w, &buckets, c % (n_cases / n_all5) == 1, args.thorough);
        specs.push(spec);
    }
    let wanted: Vec<Spec> = specs.into_iter().filter(|_| sink.wants().is_some()).collect();

    // ---- run the implementation (parallel; cases are independent)
    let threads = std::thread::available_parallelism().map(|n| n.get()).unwrap_or(4).min(12);
    let results: std::sync::Mutex<Vec<Option<Case>>> = std::sync::Mutex::new(vec![None; wanted.len()]);
    let next = std::sync::atomic::AtomicUsize::new(0);
    std::thread::scope(|sc| {
        for _ in 0..threads {
            sc.spawn(|| loop {
                let i = next.fetch_add(1, std::sync::atomic::Ordering::SeqCst);
                if i >= wanted.len() {
                    break;
                }
                let c = exec(&w, &wanted[i]);
                results.lock().unwrap()[i] = Some(c);
            });
        }
    });
    for c in results.into_inner().unwrap().into_iter().flatten() {
        sink.push(c);
    }
    sink.finish();
}
