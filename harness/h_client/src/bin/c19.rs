//! C19 correspondence harness: only verified immutables and manifest-vouched ancillary files get
//! restored.  Each case writes crafted `tar.gz` / `tar.zst` archives (immutable archives per number
//! and location, an ancillary archive with a signed manifest) served over `file://` to the REAL
//! `HttpFileDownloader`, runs `client.cardano_database_v2().download_unpack(..)` on a target directory
//! with generated initial content, and observes the success flag and the recursive listing of
//! regular files with content ids.  `holds` is the containment property judged from provenance.
use hc::{coq, Case, Rng, Sink};
use mithril_cardano_node_internal_database::entities::AncillaryFilesManifest;
use mithril_client::cardano_database_client::{DownloadUnpackOptions, ImmutableFileRange};
use mithril_client::file_downloader::HttpFileDownloader;
use mithril_client::ClientBuilder;
use mithril_common::crypto_helper::ManifestSigner;
use mithril_common::entities::{
    AncillaryLocation, CardanoDbBeacon, CompressionAlgorithm, ImmutablesLocation, MultiFilesUri, TemplateUri,
};
use mithril_common::messages::{AncillaryMessagePart, CardanoDatabaseSnapshotMessage, ImmutablesMessagePart};
use mithril_common::test::double::{fake_keys, Dummy};
use sha2::{Digest, Sha256};
use std::collections::{BTreeMap, HashMap};
use std::io::Write;
use std::path::{Path, PathBuf};
use std::sync::Arc;

const EXTS: [&str; 3] = ["chunk", "primary", "secondary"];
const MAGIC: &[u8] = b"764824073";
const UNKNOWN_ID: u64 = 999_999_999;

#[derive(Clone, Debug)]
struct Archive {
    entries: Vec<(String, u64)>,
    fail_after: Option<usize>,
}
type Location = Option<Archive>;

#[derive(Clone, Debug, PartialEq)]
enum Dv {
    Of(u64),
    Junk(u64),
}
#[derive(Clone, Debug)]
enum Sig {
    /// signature by key k (1 = the key configured in the client, 2 = another key) over the manifest
    /// hash of `signed` data
    By(u64, Vec<(String, Dv)>),
    Junk,
    Missing,
}
#[derive(Clone, Debug)]
struct Manifest {
    id: u64,
    data: Vec<(String, Dv)>,
    sig: Sig,
}
#[derive(Clone, Debug)]
enum Rg {
    Full,
    From(u64),
    Range(u64, u64),
    UpTo(u64),
}
#[derive(Clone, Debug)]
struct Scenario {
    kind: String,
    init: Vec<(String, u64)>,
    beacon: u64,
    range: Rg,
    allow_override: bool,
    anc: bool,
    has_key: bool,
    net_known: bool,
    imm: Vec<(u64, Vec<Location>)>,
    anc_locs: Vec<Location>,
    manifests: Vec<Manifest>,
    zstd: [bool; 2],
}

fn content_bytes(id: u64, blobs: &HashMap<u64, Vec<u8>>) -> Vec<u8> {
    if let Some(b) = blobs.get(&id) {
        return b.clone();
    }
    match id {
        0 => vec![],
        1 => MAGIC.to_vec(),
        _ => {
            let mut v = format!("file content #{id}\n").into_bytes();
            v.extend(std::iter::repeat((id % 251) as u8).take((id % 4) as usize * 1500));
            v
        }
    }
}
fn sha_hex(b: &[u8]) -> String {
    hex::encode(Sha256::digest(b))
}
fn trio(n: u64) -> [String; 3] {
    [format!("immutable/{n:05}.chunk"), format!("immutable/{n:05}.primary"), format!("immutable/{n:05}.secondary")]
}
fn range_bounds(r: &Rg, beacon: u64) -> Option<(u64, u64)> {
    match r {
        Rg::Full => Some((0, beacon)),
        Rg::From(a) if *a <= beacon => Some((*a, beacon)),
        Rg::Range(a, b) if *a <= beacon && *b <= beacon && a <= b => Some((*a, *b)),
        Rg::UpTo(b) if *b <= beacon => Some((0, *b)),
        _ => None,
    }
}

// ---------- writing archives ----------
fn tar_bytes(a: &Archive, blobs: &HashMap<u64, Vec<u8>>) -> Vec<u8> {
    let take = a.fail_after.unwrap_or(a.entries.len());
    let mut b = tar::Builder::new(Vec::new());
    for (path, id) in a.entries.iter().take(take) {
        let data = content_bytes(*id, blobs);
        let mut h = tar::Header::new_old();
        {
            let name = &mut h.as_old_mut().name;
            let p = path.as_bytes();
            assert!(p.len() < 100);
            name[..p.len()].copy_from_slice(p); // raw name: `..` components are the archive's business
        }
        h.set_size(data.len() as u64);
        h.set_mode(0o644);
        h.set_mtime(1_700_000_000);
        h.set_entry_type(tar::EntryType::Regular);
        h.set_cksum();
        b.append(&h, &data[..]).unwrap();
    }
    let mut raw = b.into_inner().unwrap();
    if a.fail_after.is_some() {
        // drop the end-of-archive blocks and continue with a block that is not a header
        raw.truncate(raw.len() - 1024);
        raw.extend(std::iter::repeat(0xABu8).take(1536));
    }
    raw
}
fn write_archive(file: &Path, a: &Archive, zstd_: bool, blobs: &HashMap<u64, Vec<u8>>) {
    let raw = tar_bytes(a, blobs);
    std::fs::create_dir_all(file.parent().unwrap()).unwrap();
    let out = std::fs::File::create(file).unwrap();
    if zstd_ {
        let mut e = zstd::Encoder::new(out, 3).unwrap();
        e.write_all(&raw).unwrap();
        e.finish().unwrap();
    } else {
        let mut e = flate2::write::GzEncoder::new(out, flate2::Compression::default());
        e.write_all(&raw).unwrap();
        e.finish().unwrap();
    }
}

fn listing(root: &Path, rel: &str, out: &mut Vec<(String, Vec<u8>)>) {
    let Ok(rd) = std::fs::read_dir(root.join(rel)) else { return };
    for e in rd.flatten() {
        let name = e.file_name().to_string_lossy().to_string();
        let r = if rel.is_empty() { name.clone() } else { format!("{rel}/{name}") };
        let ft = e.file_type().unwrap();
        if ft.is_dir() {
            listing(root, &r, out);
        } else if ft.is_file() {
            out.push((r.clone(), std::fs::read(root.join(&r)).unwrap_or_default()));
        }
    }
}

// ---------- Coq terms ----------
fn cpath(s: &str) -> String {
    coq::bytes(s.as_bytes())
}
fn cfs(f: &[(String, u64)]) -> String {
    coq::list(&f.iter().map(|(p, c)| format!("({}, {})", cpath(p), coq::n(*c))).collect::<Vec<_>>())
}
fn cloc(l: &Location) -> String {
    match l {
        None => "None".into(),
        Some(a) => format!(
            "(Some {{| ar_entries := {}; ar_fail := {} |}})",
            cfs(&a.entries),
            match a.fail_after { Some(k) => format!("(Some {}%nat)", k), None => "None".into() }
        ),
    }
}
fn cdv(d: &Dv) -> String {
    match d {
        Dv::Of(id) => format!("(C12.Model.file_digest {})", coq::n(*id)),
        Dv::Junk(k) => format!("(BLit [{}])", coq::n(*k)),
    }
}
fn cdata(d: &[(String, Dv)]) -> String {
    coq::list(&d.iter().map(|(p, v)| format!("({}, {})", cpath(p), cdv(v))).collect::<Vec<_>>())
}
fn cmanifest(m: &Manifest) -> String {
    let sig = match &m.sig {
        Sig::By(k, signed) => format!("(Some (SigOf {} (manifest_hash {{| m_data := {}; m_sig := None |}})))", coq::n(*k), cdata(signed)),
        Sig::Junk => "(Some (Junk 7))".into(),
        Sig::Missing => "None".into(),
    };
    format!("({}, {{| m_data := {}; m_sig := {} |}})", coq::n(m.id), cdata(&m.data), sig)
}
fn cscenario(s: &Scenario) -> String {
    let rg = match &s.range {
        Rg::Full => "RFull".to_string(),
        Rg::From(a) => format!("RFrom {}", coq::n(*a)),
        Rg::Range(a, b) => format!("RRange {} {}", coq::n(*a), coq::n(*b)),
        Rg::UpTo(b) => format!("RUpTo {}", coq::n(*b)),
    };
    let imm = coq::list(&s.imm.iter().map(|(n, ls)| format!("({}, {})", coq::n(*n), coq::list(&ls.iter().map(cloc).collect::<Vec<_>>()))).collect::<Vec<_>>());
    format!(
        "{{| s_init := {}; s_beacon := {}; s_range := {}; s_allow_override := {}; s_anc := {}; s_vk := {}; s_net_known := {}; s_imm := {}; s_anc_locs := {}; s_tbl := {} |}}",
        cfs(&s.init), coq::n(s.beacon), rg, coq::b(s.allow_override), coq::b(s.anc),
        if s.has_key { "(Some 1%N)" } else { "None" }, coq::b(s.net_known), imm,
        coq::list(&s.anc_locs.iter().map(cloc).collect::<Vec<_>>()),
        coq::list(&s.manifests.iter().map(cmanifest).collect::<Vec<_>>())
    )
}

// ---------- generation ----------
struct Gen<'a> {
    rng: &'a mut Rng,
    next: u64,
}
impl Gen<'_> {
    fn fresh(&mut self) -> u64 {
        self.next += 1;
        if self.rng.chance(1, 40) { 0 } else { self.next }
    }
}

fn gen_imm_archive(g: &mut Gen, n: u64, beacon: u64, kinds: &mut Vec<String>, hostile: bool) -> Archive {
    let mut entries: Vec<(String, u64)> = trio(n).iter().map(|p| (p.clone(), g.fresh())).collect();
    if hostile {
        let k = g.rng.range(1, 3);
        for _ in 0..k {
            let (tag, path) = match g.rng.below(12) {
                0 => ("ledger-entry", format!("ledger/{}/state", g.rng.range(100, 999))),
                1 => ("volatile-entry", "volatile/blocks-0.dat".to_string()),
                2 => ("other-number-trio-file", format!("immutable/{:05}.{}", if n > 0 && g.rng.coin() { n - 1 } else { (n + 1).min(beacon + 1) }, g.rng.pick(&EXTS))),
                3 => ("trio-file-beyond-expected", format!("immutable/{:05}.chunk", beacon + 2 + g.rng.below(3))),
                4 => ("stray-in-immutable", "immutable/stray.txt".to_string()),
                5 => ("nested-in-immutable", "immutable/sub/00001.chunk".to_string()),
                6 => ("shadow-clean-marker", "clean".to_string()),
                7 => ("shadow-magic-marker", "protocolMagicId".to_string()),
                8 => ("dotdot", "../escape.txt".to_string()),
                9 => ("manifest-in-immutable-archive", "ancillary_manifest.json".to_string()),
                10 => ("overwrite-user-file", "myfile.txt".to_string()),
                _ => ("overwrite-user-file-in-immutable", "immutable/notes.txt".to_string()),
            };
            kinds.push(format!("imm:{tag}"));
            let id = g.fresh();
            let at = g.rng.below(entries.len() as u64 + 1) as usize;
            if !entries.iter().any(|(p, _)| *p == path) {
                entries.insert(at, (path, id));
            }
        }
    }
    Archive { entries, fail_after: None }
}

fn gen(rng: &mut Rng, next: &mut u64) -> Scenario {
    let mut g = Gen { rng, next: *next };
    let mut kinds: Vec<String> = vec![];
    let beacon = g.rng.range(1, 5);
    let anc = g.rng.chance(1, 2);
    let range = if anc {
        match g.rng.below(4) { 0 => Rg::Full, 1 => Rg::From(g.rng.range(0, beacon)), 2 => Rg::Range(g.rng.range(0, beacon), beacon), _ => Rg::UpTo(beacon - g.rng.below(2)) }
    } else {
        match g.rng.below(4) { 0 => Rg::Full, 1 => Rg::From(g.rng.range(0, beacon)), 2 => { let a = g.rng.range(0, beacon); Rg::Range(a, g.rng.range(a, beacon)) } _ => Rg::UpTo(g.rng.range(0, beacon)) }
    };
    // initial content of the target directory
    let mut init: Vec<(String, u64)> = vec![];
    match g.rng.below(4) {
        0 => {}
        1 => { init.push(("myfile.txt".into(), g.fresh())); kinds.push("init:user-file".into()); }
        _ => {
            for n in 0..g.rng.range(1, beacon) { for p in trio(n) { init.push((p, g.fresh())); } }
            if g.rng.coin() { init.push(("immutable/notes.txt".into(), g.fresh())); }
            if g.rng.coin() { init.push(("myfile.txt".into(), g.fresh())); }
            if g.rng.chance(1, 3) { init.push(("ledger/old-state".into(), g.fresh())); }
            if g.rng.chance(1, 4) { init.push(("clean".into(), g.fresh())); }
            kinds.push("init:existing-db".into());
        }
    }
    let allow_override = !g.rng.chance(1, 10);
    let has_key = !g.rng.chance(1, 12);
    let net_known = g.rng.chance(3, 4);
    let zstd = [g.rng.coin(), g.rng.coin()];
    let (lo, hi) = range_bounds(&range, beacon).unwrap_or((0, beacon));
    // immutable archives
    let hostile_case = g.rng.chance(1, 2);
    let mut imm = vec![];
    for n in lo..=hi {
        let hostile = hostile_case && g.rng.chance(1, 2);
        let good = gen_imm_archive(&mut g, n, beacon, &mut kinds, hostile);
        let locs: Vec<Location> = match g.rng.below(12) {
            0 => { kinds.push("loc:first-missing".into()); vec![None, Some(good)] }
            1 => {
                // first location corrupt after some entries (maybe leaving a stray), second fine
                let mut bad = gen_imm_archive(&mut g, n, beacon, &mut kinds, true);
                bad.fail_after = Some(g.rng.below(bad.entries.len() as u64 + 1) as usize);
                kinds.push("loc:first-corrupt-second-good".into());
                vec![Some(bad), Some(good)]
            }
            2 => {
                let mut bad = gen_imm_archive(&mut g, n, beacon, &mut kinds, true);
                bad.fail_after = Some(g.rng.below(bad.entries.len() as u64 + 1) as usize);
                kinds.push("loc:all-fail".into());
                if g.rng.coin() { vec![Some(bad), None] } else { vec![None, Some(bad)] }
            }
            _ => if g.rng.coin() { vec![Some(good)] } else { vec![Some(good), None] },
        };
        imm.push((n, locs));
    }
    // ancillary archive
    let mut anc_locs = vec![];
    let mut manifests = vec![];
    if anc {
        let mut files: Vec<(String, u64)> = vec![
            (format!("ledger/{}/state", g.rng.range(1000, 9999)), g.fresh()),
            ("volatile/blocks-0.dat".into(), g.fresh()),
        ];
        for p in trio(beacon + 1) { files.push((p, g.fresh())); }
        let mut data: Vec<(String, Dv)> = files.iter().map(|(p, c)| (p.clone(), Dv::Of(*c))).collect();
        let signed = data.clone();
        let mut sig = Sig::By(1, signed.clone());
        let mut entries = files.clone();
        let mut manifest_entry = true;
        let mut parsable = true;
        let t = match g.rng.below(14) {
            0 => { let i = g.rng.below(entries.len() as u64) as usize; entries[i].1 = g.fresh().max(2) + 5_000_000; "content-changed" }
            1 => { data.push(("ledger/added".into(), Dv::Of(g.fresh()))); sig = Sig::By(1, data.clone()); "listed-file-absent" }
            2 => { data.push(("ledger/added".into(), Dv::Of(g.fresh()))); "entry-added-after-signature" }
            3 => { data.remove(0); "entry-removed-after-signature" }
            4 => { data.remove(0); sig = Sig::By(1, data.clone()); "unlisted-file-in-archive" }
            5 => { sig = Sig::Junk; "signature-altered" }
            6 => { sig = Sig::Missing; "signature-removed" }
            7 => { sig = Sig::By(2, signed.clone()); "signed-with-another-key" }
            8 => { parsable = false; "manifest-unparsable" }
            9 => { manifest_entry = false; "manifest-absent" }
            10 => { entries.push(("ledger/unlisted-extra".into(), g.fresh())); entries.push(("extra-at-root".into(), g.fresh())); entries.push(("../escape2".into(), g.fresh())); "extra-unlisted-entries" }
            11 => { let i = g.rng.below(data.len() as u64) as usize; data[i].1 = Dv::Junk(5); sig = Sig::By(1, data.clone()); "signed-hash-does-not-match-file" }
            _ => "honest",
        };
        kinds.push(format!("anc:{t}"));
        let mid = g.fresh().max(2) + 9_000_000;
        if parsable { manifests.push(Manifest { id: mid, data, sig }); }
        if manifest_entry { entries.insert(g.rng.below(entries.len() as u64 + 1) as usize, ("ancillary_manifest.json".into(), mid)); }
        let a = Archive { entries, fail_after: None };
        anc_locs = match g.rng.below(8) {
            0 => { kinds.push("anc-loc:first-missing".into()); vec![None, Some(a)] }
            1 => { kinds.push("anc-loc:all-missing".into()); vec![None] }
            2 => { let mut bad = a.clone(); bad.fail_after = Some(g.rng.below(bad.entries.len() as u64) as usize); kinds.push("anc-loc:corrupt".into()); vec![Some(bad)] }
            _ => vec![Some(a)],
        };
    }
    if !hostile_case { kinds.push("imm:honest".into()); }
    if !allow_override { kinds.push("no-override".into()); }
    if !has_key && anc { kinds.push("no-ancillary-key".into()); }
    *next = g.next;
    kinds.sort();
    kinds.dedup();
    Scenario { kind: kinds.join("+"), init, beacon, range, allow_override, anc, has_key, net_known, imm, anc_locs, manifests, zstd }
}

/// the manifest JSON as the aggregator would write it, signed with the real keys
fn manifest_json(m: &Manifest, signers: &[ManifestSigner; 2], blobs: &HashMap<u64, Vec<u8>>) -> Vec<u8> {
    let val = |d: &Dv| match d { Dv::Of(id) => sha_hex(&content_bytes(*id, blobs)), Dv::Junk(k) => format!("junk-hash-{k}") };
    let to_map = |d: &[(String, Dv)]| d.iter().map(|(p, v)| (PathBuf::from(p), val(v))).collect::<BTreeMap<_, _>>();
    let mut man = AncillaryFilesManifest::new_without_signature(to_map(&m.data));
    match &m.sig {
        Sig::By(k, signed) => {
            let h = AncillaryFilesManifest::new_without_signature(to_map(signed)).compute_hash();
            man.set_signature(signers[(*k - 1) as usize].sign(&h));
        }
        Sig::Junk => man.set_signature(signers[0].sign(b"something else entirely")),
        Sig::Missing => {}
    }
    serde_json::to_vec(&man).unwrap()
}

struct Outcome {
    ok: bool,
    fin: Vec<(String, u64)>,
    err: String,
}

async fn run_scenario(dir: &Path, s: &Scenario, signers: &[ManifestSigner; 2]) -> Outcome {
    let _ = std::fs::remove_dir_all(dir);
    let target = dir.join("db");
    std::fs::create_dir_all(&target).unwrap();
    // blobs: manifest contents by id
    let mut blobs: HashMap<u64, Vec<u8>> = HashMap::new();
    for m in &s.manifests {
        let j = manifest_json(m, signers, &blobs);
        blobs.insert(m.id, j);
    }
    // every id that is not a parsable manifest but sits at the manifest path: not JSON
    let mut known: HashMap<Vec<u8>, u64> = HashMap::new();
    let mut reg = |id: u64, blobs: &HashMap<u64, Vec<u8>>| { known.entry(content_bytes(id, blobs)).or_insert(id); };
    reg(0, &blobs);
    reg(1, &blobs);
    for (p, c) in &s.init {
        std::fs::create_dir_all(target.join(p).parent().unwrap()).unwrap();
        std::fs::write(target.join(p), content_bytes(*c, &blobs)).unwrap();
        reg(*c, &blobs);
    }
    let srv = dir.join("srv");
    for (n, locs) in &s.imm {
        for (i, l) in locs.iter().enumerate() {
            if let Some(a) = l {
                write_archive(&srv.join(format!("loc{i}")).join(format!("{n:05}.tar")), a, s.zstd[i], &blobs);
                for (_, c) in &a.entries { reg(*c, &blobs); }
            }
        }
    }
    for (i, l) in s.anc_locs.iter().enumerate() {
        if let Some(a) = l {
            write_archive(&srv.join(format!("anc{i}.tar")), a, s.zstd[i], &blobs);
            for (_, c) in &a.entries { reg(*c, &blobs); }
        }
    }
    let comp = |i: usize| Some(if s.zstd[i] { CompressionAlgorithm::Zstandard } else { CompressionAlgorithm::Gzip });
    let mut snapshot = CardanoDatabaseSnapshotMessage::dummy();
    snapshot.beacon = CardanoDbBeacon::new(9, s.beacon);
    snapshot.network = if s.net_known { "mainnet".into() } else { "private".into() };
    let nloc = s.imm.iter().map(|(_, l)| l.len()).max().unwrap_or(1);
    snapshot.immutables = ImmutablesMessagePart {
        average_size_uncompressed: 4096,
        // listed in reverse: the client sorts the locations before trying them
        locations: (0..nloc).rev().map(|i| ImmutablesLocation::CloudStorage {
            uri: MultiFilesUri::Template(TemplateUri(format!("file://{}/loc{i}/{{immutable_file_number}}.tar", srv.display()))),
            compression_algorithm: comp(i),
        }).chain(std::iter::once(ImmutablesLocation::Unknown)).collect(),
    };
    snapshot.ancillary = AncillaryMessagePart {
        size_uncompressed: 4096,
        locations: (0..s.anc_locs.len().max(1)).rev().map(|i| AncillaryLocation::CloudStorage {
            uri: format!("file://{}/anc{i}.tar", srv.display()),
            compression_algorithm: comp(i),
        }).collect(),
    };
    let logger = slog::Logger::root(slog::Discard, slog::o!());
    let downloader = Arc::new(HttpFileDownloader::new(mithril_client::feedback::FeedbackSender::new(&[]), logger.clone()).unwrap());
    #[allow(deprecated)]
    let mut builder = ClientBuilder::aggregator("http://127.0.0.1:9/aggregator", fake_keys::genesis_verification_key()[0])
        .with_http_file_downloader(downloader)
        .with_logger(logger);
    if s.has_key {
        builder = builder.set_ancillary_verification_key(signers[0].verification_key().to_json_hex().unwrap());
    }
    let client = builder.build().unwrap();
    let range = match &s.range {
        Rg::Full => ImmutableFileRange::Full,
        Rg::From(a) => ImmutableFileRange::From(*a),
        Rg::Range(a, b) => ImmutableFileRange::Range(*a, *b),
        Rg::UpTo(b) => ImmutableFileRange::UpTo(*b),
    };
    let opts = DownloadUnpackOptions { allow_override: s.allow_override, include_ancillary: s.anc, max_parallel_downloads: 1 };
    let r = client.cardano_database_v2().download_unpack(&snapshot, &range, &target, opts).await;
    let mut raw = vec![];
    listing(&target, "", &mut raw);
    raw.sort();
    let fin = raw.into_iter().map(|(p, b)| { let id = *known.get(&b).unwrap_or(&UNKNOWN_ID); (p, id) }).collect();
    Outcome { ok: r.is_ok(), err: r.err().map(|e| format!("{e:#}").chars().take(160).collect()).unwrap_or_default(), fin }
}

/// containment, judged from provenance
fn judge(s: &Scenario, o: &Outcome) -> (bool, Option<String>, Option<String>) {
    let bounds = range_bounds(&s.range, s.beacon);
    // is the manifest of the archive that was used authentic and consistent with the archive?
    let used_anc: Option<&Archive> = s.anc_locs.iter().flatten().find(|a| a.fail_after.is_none());
    let mut vouched: Vec<(String, u64)> = vec![];
    if let (true, true, Some(a)) = (s.anc, s.has_key, used_anc) {
        let mid = a.entries.iter().rev().find(|(p, _)| p == "ancillary_manifest.json").map(|(_, c)| *c);
        if let Some(m) = mid.and_then(|id| s.manifests.iter().find(|m| m.id == id)) {
            let authentic = matches!(&m.sig, Sig::By(1, signed) if *signed == m.data);
            let content_of = |p: &str| a.entries.iter().rev().find(|(q, _)| q == p).map(|(_, c)| *c);
            let consistent = m.data.iter().all(|(p, v)| matches!((content_of(p), v), (Some(c), Dv::Of(id)) if c == *id));
            if authentic && consistent {
                vouched = m.data.iter().filter_map(|(p, _)| content_of(p).map(|c| (p.clone(), c))).collect();
            }
        }
    }
    for (p, c) in &o.fin {
        if s.init.iter().any(|(q, d)| q == p && d == c) { continue; }
        if o.ok && ((p == "clean" && *c == 0) || (p == "protocolMagicId" && *c == 1 && s.net_known)) { continue; }
        // a ranged immutable file from an archive for its own number
        let mut own = false;
        if let Some((lo, hi)) = bounds {
            for (n, locs) in &s.imm {
                if *n >= lo && *n <= hi && trio(*n).contains(p) && locs.iter().flatten().any(|a| a.entries.iter().any(|(q, d)| q == p && d == c)) { own = true; }
            }
        }
        if own { continue; }
        if vouched.iter().any(|(q, d)| q == p && d == c) { continue; }
        // not justified: classify
        let from_imm = s.imm.iter().find(|(_, locs)| locs.iter().flatten().any(|a| a.entries.iter().any(|(q, d)| q == p && d == c)));
        let why = format!("`{p}` (content #{c}) is in the target directory after the download (success = {}), but it was not there before, is not a marker, not an immutable file of the range from the archive of its own number, and not vouched by an authentic manifest{}", o.ok,
            match from_imm { Some((n, _)) => format!("; it comes from the archive of immutable {n}"), None => String::new() });
        let known = match from_imm {
            Some(_) if !p.starts_with("immutable/") => Some("C19-foreign-entry".to_string()),
            Some(_) => {
                // inside immutable/: let through by design only when its first component is expected
                let first = p["immutable/".len()..].split('/').next().unwrap_or("").to_string();
                let upper = if s.anc { s.beacon + 1 } else { s.beacon };
                let expected = (0..=upper).any(|n| trio(n).iter().any(|t| t["immutable/".len()..] == first))
                    || s.init.iter().any(|(q, _)| q.starts_with("immutable/") && q["immutable/".len()..].split('/').next() == Some(&first));
                if expected { Some("C19-other-immutable".to_string()) } else { None }
            }
            None => None,
        };
        return (false, Some(why), known);
    }
    (true, None, None)
}

fn main() {
    let args = hc::parse_args();
    let mut rng = Rng::new(args.seed);
    let mut sink = Sink::new(&args);
    let work = PathBuf::from(std::env::var("VERIF_WORK").unwrap_or_else(|_| ".".into())).canonicalize().unwrap().join("c19-dirs");
    std::fs::create_dir_all(&work).unwrap();
    std::env::set_var("TMPDIR", &work);
    let rt = tokio::runtime::Builder::new_multi_thread().worker_threads(4).enable_all().build().unwrap();
    let signers = [ManifestSigner::create_deterministic_signer(), ManifestSigner::create_non_deterministic_signer()];
    let n = if args.thorough { 2500 } else { 160 };
    let mut next = 10u64;
    for _ in 0..n {
        let s = gen(&mut rng, &mut next);
        let Some(id) = sink.wants() else { continue };
        let dir = work.join(format!("case{id}"));
        let o = rt.block_on(run_scenario(&dir, &s, &signers));
        let (holds, why, known) = judge(&s, &o);
        let impl_obs = coq::ol(&[
            coq::ob(o.ok),
            coq::ol(&o.fin.iter().map(|(p, c)| coq::ol(&[coq::oln(&p.bytes().map(|b| b as u64).collect::<Vec<_>>()), coq::on(*c)])).collect::<Vec<_>>()),
        ]);
        sink.push(Case {
            id,
            kind: s.kind.clone(),
            desc: serde_json::json!({
                "beacon": s.beacon, "range": format!("{:?}", s.range), "include_ancillary": s.anc, "allow_override": s.allow_override,
                "ancillary_key_configured": s.has_key, "network_known": s.net_known,
                "initial": s.init, "immutable_archives": format!("{:?}", s.imm), "ancillary_locations": format!("{:?}", s.anc_locs),
                "manifests": format!("{:?}", s.manifests), "zstd_per_location": s.zstd,
                "success": o.ok, "error": o.err, "final": o.fin,
            }),
            model: Some(format!("C19.Model.run {}", cscenario(&s))),
            impl_obs,
            holds: Some(holds),
            why,
            known,
            nontrivial: !s.kind.contains("imm:honest") || s.anc,
            key: format!("{}/{}/{:?}/{}", s.kind, s.beacon, s.range, s.init.len()),
        });
        let _ = std::fs::remove_dir_all(&dir);
    }
    let _ = std::fs::remove_dir_all(&work);
    sink.finish();
}
