//! C19 correspondence harness: only verified immutables and manifest-vouched ancillary files get
//! restored.  Each case writes crafted `tar.gz` / `tar.zst` archives (immutable archives per number
//! and location, an ancillary archive with a signed manifest) served over `file://` to the REAL
//! `HttpFileDownloader`, runs `client.cardano_database_v2().download_unpack(..)` on a target directory
//! with generated initial content, and observes the success flag and the recursive listing of
//! regular files with content ids.  `holds` is the containment property judged from provenance.
use hc::{coq, Case, Rng, Sink};
use mithril_cardano_node_internal_database::entities::AncillaryFilesManifest;
use mithril_client::cardano_database_client::{DownloadUnpackOptions, ImmutableFileRange};
use mithril_client::file_downloader::HttpFileDownloader;
use mithril_client::ClientBuilder;
use mithril_common::crypto_helper::ManifestSigner;
use mithril_common::entities::{
    AncillaryLocation, CardanoDbBeacon, CompressionAlgorithm, ImmutablesLocation, MultiFilesUri, TemplateUri,
};
use mithril_common::messages::{AncillaryMessagePart, CardanoDatabaseSnapshotMessage, ImmutablesMessagePart};
use mithril_common::test::double::{fake_keys, Dummy};
use sha2::{Digest, Sha256};
use std::collections::{BTreeMap, HashMap};
use std::io::Write;
use std::path::{Path, PathBuf};
use std::sync::Arc;

const EXTS: [&str; 3] = ["chunk", "primary", "secondary"];
const MAGIC: &[u8] = b"764824073";
const UNKNOWN_ID: u64 = 999_999_999;

#[derive(Clone, Debug)]
struct Archive {
    entries: Vec<(String, u64)>,
    fail_after: Option<usize>,
}
type Location = Option<Archive>;

#[derive(Clone, Debug, PartialEq)]
enum Dv {
    Of(u64),
    Junk(u64),
}
#[derive(Clone, Debug)]
enum Sig {
    /// signature by key k (1 = the key configured in the client, 2 = another key) over the manifest
    /// hash of `signed` data
    By(u64, Vec<(String, Dv)>),
    Junk,
    Missing,
}
#[derive(Clone, Debug)]
struct Manifest {
    id: u64,
    data: Vec<(String, Dv)>,
    sig: Sig,
}
#[derive(Clone, Debug)]
enum Rg {
    Full,
    From(u64),
    Range(u64, u64),
    UpTo(u64),
}
/// an honest ancillary download made first with the SAME client (its manifest signature has then been
/// seen and verified by that client once)
#[derive(Clone, Debug)]
struct Prior {
    files: Vec<(String, u64)>,
    manifest: Manifest,
}
#[derive(Clone, Debug)]
struct Scenario {
    kind: String,
    init: Vec<(String, u64)>,
    beacon: u64,
    range: Rg,
    allow_override: bool,
    anc: bool,
    has_key: bool,
    net_known: bool,
    /// max_parallel_downloads
    par: usize,
    imm: Vec<(u64, Vec<Location>)>,
    anc_locs: Vec<Location>,
    manifests: Vec<Manifest>,
    /// per location index: 0 gzip, 1 zstd, 2 no compression (the served bytes are written as one file
    /// named after the download id)
    comp: [u8; 2],
    prior: Option<Prior>,
    /// implementation-only case (no model term): outcome depends on thread timing
    impl_only: bool,
    /// digests whose hex text occurs inside a path of this case
    hex_tokens: Vec<(String, u64)>,
}

const BIG_LO: u64 = 7_000_000;
const BIG_HI: u64 = 8_000_000;
const RAW_IMM: u64 = 8_000_000;
const RAW_ANC: u64 = 8_500_000;
const FIRST_READ: usize = 64 * 1024;
const DLID: &str = "DOWNLOAD-ID";

fn content_bytes(id: u64, blobs: &HashMap<u64, Vec<u8>>) -> Vec<u8> {
    if let Some(b) = blobs.get(&id) {
        return b.clone();
    }
    match id {
        0 => vec![],
        1 => MAGIC.to_vec(),
        // a family of large contents: ids with the same id / 10 share their first 64 KiB (the size of
        // the read buffer of AncillaryFilesManifest::compute_file_hash) and differ only after it
        _ if (BIG_LO..BIG_HI).contains(&id) => {
            let base = id / 10;
            let mut v: Vec<u8> = (0..FIRST_READ as u64).map(|j| ((base.wrapping_mul(31) + j * 7 + (j >> 9)) % 251) as u8).collect();
            match id % 10 {
                0 => v.extend_from_slice(b"tail of the original file\n"),
                1 => v.extend_from_slice(b"tail of the ALTERED  file\n"),
                2 => {} // cut exactly at the end of the first read
                3 => v.extend_from_slice(b"tail of the original file\nand something appended\n"),
                k => v.extend(std::iter::repeat(k as u8).take(3 * FIRST_READ)),
            }
            v
        }
        _ => {
            let mut v = format!("file content #{id}\n").into_bytes();
            v.extend(std::iter::repeat((id % 251) as u8).take((id % 4) as usize * 1500));
            v
        }
    }
}
fn sha_hex(b: &[u8]) -> String {
    hex::encode(Sha256::digest(b))
}
fn trio(n: u64) -> [String; 3] {
    [format!("immutable/{n:05}.chunk"), format!("immutable/{n:05}.primary"), format!("immutable/{n:05}.secondary")]
}
fn range_bounds(r: &Rg, beacon: u64) -> Option<(u64, u64)> {
    match r {
        Rg::Full => Some((0, beacon)),
        Rg::From(a) if *a <= beacon => Some((*a, beacon)),
        Rg::Range(a, b) if *a <= beacon && *b <= beacon && a <= b => Some((*a, *b)),
        Rg::UpTo(b) if *b <= beacon => Some((0, *b)),
        _ => None,
    }
}

// ---------- writing archives ----------
fn tar_bytes(a: &Archive, blobs: &HashMap<u64, Vec<u8>>) -> Vec<u8> {
    let take = a.fail_after.unwrap_or(a.entries.len());
    let mut b = tar::Builder::new(Vec::new());
    for (path, id) in a.entries.iter().take(take) {
        let data = content_bytes(*id, blobs);
        if path.len() >= 100 {
            // GNU long-name extension (no such path has a `..` component)
            let mut h = tar::Header::new_gnu();
            h.set_size(data.len() as u64);
            h.set_mode(0o644);
            h.set_mtime(1_700_000_000);
            h.set_entry_type(tar::EntryType::Regular);
            b.append_data(&mut h, path, &data[..]).unwrap();
            continue;
        }
        let mut h = tar::Header::new_old();
        {
            let name = &mut h.as_old_mut().name;
            let p = path.as_bytes();
            name[..p.len()].copy_from_slice(p); // raw name: `..` components are the archive's business
        }
        h.set_size(data.len() as u64);
        h.set_mode(0o644);
        h.set_mtime(1_700_000_000);
        h.set_entry_type(tar::EntryType::Regular);
        h.set_cksum();
        b.append(&h, &data[..]).unwrap();
    }
    let mut raw = b.into_inner().unwrap();
    if a.fail_after.is_some() {
        // drop the end-of-archive blocks and continue with a block that is not a header
        raw.truncate(raw.len() - 1024);
        raw.extend(std::iter::repeat(0xABu8).take(1536));
    }
    raw
}
fn write_archive(file: &Path, a: &Archive, comp: u8, blobs: &HashMap<u64, Vec<u8>>) {
    let raw = tar_bytes(a, blobs);
    std::fs::create_dir_all(file.parent().unwrap()).unwrap();
    let mut out = std::fs::File::create(file).unwrap();
    match comp {
        1 => {
            let mut e = zstd::Encoder::new(out, 3).unwrap();
            e.write_all(&raw).unwrap();
            e.finish().unwrap();
        }
        0 => {
            let mut e = flate2::write::GzEncoder::new(out, flate2::Compression::default());
            e.write_all(&raw).unwrap();
            e.finish().unwrap();
        }
        _ => out.write_all(&raw).unwrap(),
    }
}

fn listing(root: &Path, rel: &str, out: &mut Vec<(String, Vec<u8>)>) {
    let Ok(rd) = std::fs::read_dir(root.join(rel)) else { return };
    for e in rd.flatten() {
        let name = e.file_name().to_string_lossy().to_string();
        let r = if rel.is_empty() { name.clone() } else { format!("{rel}/{name}") };
        let ft = e.file_type().unwrap();
        if ft.is_dir() {
            listing(root, &r, out);
        } else if ft.is_file() {
            out.push((r.clone(), std::fs::read(root.join(&r)).unwrap_or_default()));
        }
    }
}

// ---------- what the model and the oracle see ----------
/// the manifest data as the code holds it: a BTreeMap keyed by PathBuf (component-wise order, the
/// last of two equal keys wins)
fn canon(d: &[(String, Dv)]) -> Vec<(String, Dv)> {
    let m: BTreeMap<PathBuf, (String, Dv)> = d.iter().map(|(p, v)| (PathBuf::from(p), (p.clone(), v.clone()))).collect();
    m.into_values().collect()
}
/// a location served without compression is not unpacked: its bytes become ONE file named after the
/// download id in the unpack directory - i.e. it behaves as an archive with that single entry
fn effective_loc(l: &Location, comp: u8, raw_id: u64) -> Location {
    match l {
        Some(_) if comp == 2 => Some(Archive { entries: vec![(DLID.to_string(), raw_id)], fail_after: None }),
        other => other.clone(),
    }
}
fn effective_imm(s: &Scenario) -> Vec<(u64, Vec<Location>)> {
    s.imm.iter().map(|(n, ls)| (*n, ls.iter().enumerate().map(|(i, l)| effective_loc(l, s.comp[i], RAW_IMM + n * 10 + i as u64)).collect())).collect()
}
fn effective_anc(s: &Scenario) -> Vec<Location> {
    s.anc_locs.iter().enumerate().map(|(i, l)| effective_loc(l, s.comp[i], RAW_ANC + i as u64)).collect()
}

// ---------- Coq terms ----------
thread_local! {
    /// (64 hex characters of the digest of content id, id): such text inside a path is rendered in the
    /// model's paths as the single element HEXTOK id = 256 + id
    static HEX_TOKENS: std::cell::RefCell<Vec<(String, u64)>> = const { std::cell::RefCell::new(vec![]) };
}
fn tokens(p: &str) -> Vec<u64> {
    let toks = HEX_TOKENS.with(|t| t.borrow().clone());
    let b = p.as_bytes();
    let mut out = vec![];
    let mut i = 0;
    'outer: while i < b.len() {
        for (h, id) in &toks {
            if b[i..].starts_with(h.as_bytes()) {
                out.push(256 + id);
                i += h.len();
                continue 'outer;
            }
        }
        out.push(b[i] as u64);
        i += 1;
    }
    out
}
fn cpath(s: &str) -> String {
    coq::list_n(&tokens(s))
}
fn cfs(f: &[(String, u64)]) -> String {
    coq::list(&f.iter().map(|(p, c)| format!("({}, {})", cpath(p), coq::n(*c))).collect::<Vec<_>>())
}
fn cloc(l: &Location) -> String {
    match l {
        None => "None".into(),
        Some(a) => format!(
            "(Some {{| ar_entries := {}; ar_fail := {} |}})",
            cfs(&a.entries),
            match a.fail_after { Some(k) => format!("(Some {}%nat)", k), None => "None".into() }
        ),
    }
}
fn cdv(d: &Dv) -> String {
    match d {
        Dv::Of(id) => format!("(C12.Model.file_digest {})", coq::n(*id)),
        Dv::Junk(k) => format!("(BLit [{}])", coq::n(*k)),
    }
}
fn cdata(d: &[(String, Dv)]) -> String {
    coq::list(&canon(d).iter().map(|(p, v)| format!("({}, {})", cpath(p), cdv(v))).collect::<Vec<_>>())
}
fn cmanifest(m: &Manifest) -> String {
    let sig = match &m.sig {
        Sig::By(k, signed) => format!("(Some (SigOf {} (manifest_hash {{| m_data := {}; m_sig := None |}})))", coq::n(*k), cdata(signed)),
        Sig::Junk => "(Some (Junk 7))".into(),
        Sig::Missing => "None".into(),
    };
    format!("({}, {{| m_data := {}; m_sig := {} |}})", coq::n(m.id), cdata(&m.data), sig)
}
fn cscenario(s: &Scenario) -> String {
    let rg = match &s.range {
        Rg::Full => "RFull".to_string(),
        Rg::From(a) => format!("RFrom {}", coq::n(*a)),
        Rg::Range(a, b) => format!("RRange {} {}", coq::n(*a), coq::n(*b)),
        Rg::UpTo(b) => format!("RUpTo {}", coq::n(*b)),
    };
    let imm = coq::list(&effective_imm(s).iter().map(|(n, ls)| format!("({}, {})", coq::n(*n), coq::list(&ls.iter().map(cloc).collect::<Vec<_>>()))).collect::<Vec<_>>());
    format!(
        "{{| s_init := {}; s_beacon := {}; s_range := {}; s_allow_override := {}; s_anc := {}; s_vk := {}; s_net_known := {}; s_par := {}; s_imm := {}; s_anc_locs := {}; s_tbl := {} |}}",
        cfs(&s.init), coq::n(s.beacon), rg, coq::b(s.allow_override), coq::b(s.anc),
        if s.has_key { "(Some 1%N)" } else { "None" }, coq::b(s.net_known), coq::n(s.par as u64), imm,
        coq::list(&effective_anc(s).iter().map(cloc).collect::<Vec<_>>()),
        coq::list(&s.manifests.iter().map(cmanifest).collect::<Vec<_>>())
    )
}

// ---------- generation ----------
struct Gen<'a> {
    rng: &'a mut Rng,
    next: u64,
    /// counters that make the alteration kinds cycle instead of being sampled
    hostile_no: u64,
    anc_no: u64,
}
impl Gen<'_> {
    fn fresh(&mut self) -> u64 {
        self.next += 1;
        if self.rng.chance(1, 40) { 0 } else { self.next }
    }
    fn fresh_nonempty(&mut self) -> u64 {
        self.next += 1;
        self.next
    }
}

const N_HOSTILE: u64 = 16;
const LOOKALIKES: u64 = 9;

fn gen_imm_archive(g: &mut Gen, n: u64, beacon: u64, lo: u64, kinds: &mut Vec<String>, hostile: bool) -> Archive {
    let mut entries: Vec<(String, u64)> = trio(n).iter().map(|p| (p.clone(), g.fresh())).collect();
    if hostile {
        let k = g.rng.range(1, 3);
        for _ in 0..k {
            let no = g.hostile_no;
            g.hostile_no += 1;
            let round = no / N_HOSTILE;
            let (tag, path) = match no % N_HOSTILE {
                0 => ("ledger-entry", format!("ledger/{}/state", g.rng.range(100, 999))),
                1 => ("volatile-entry", "volatile/blocks-0.dat".to_string()),
                2 => ("other-number-trio-file", format!("immutable/{:05}.{}", if n > 0 && round % 2 == 0 { n - 1 } else { (n + 1).min(beacon + 1) }, g.rng.pick(&EXTS))),
                3 => ("trio-file-beyond-expected", format!("immutable/{:05}.chunk", beacon + 2 + g.rng.below(3))),
                4 => ("stray-in-immutable", "immutable/stray.txt".to_string()),
                5 => ("nested-in-immutable", "immutable/sub/00001.chunk".to_string()),
                6 => ("shadow-clean-marker", "clean".to_string()),
                7 => ("shadow-magic-marker", "protocolMagicId".to_string()),
                8 => ("dotdot", "../escape.txt".to_string()),
                9 => ("manifest-in-immutable-archive", "ancillary_manifest.json".to_string()),
                10 => ("overwrite-user-file", "myfile.txt".to_string()),
                11 => ("overwrite-user-file-in-immutable", "immutable/notes.txt".to_string()),
                // the number of an expected trio under a name that is NOT one of the three expected names
                12 => {
                    let m = if round % 2 == 0 { n } else { g.rng.range(0, beacon) };
                    ("trio-lookalike", match round % LOOKALIKES {
                        0 => format!("immutable/{m:05}.txt"),
                        1 => format!("immutable/{m:05}.chunk.bak"),
                        2 => format!("immutable/{m}.chunk"),
                        3 => format!("immutable/{m:06}.chunk"),
                        4 => format!("immutable/{m:05}.CHUNK"),
                        5 => format!("immutable/{m:05}"),
                        6 => format!("immutable/.{m:05}.chunk"),
                        7 => format!("immutable/{m:05}.chunk "),
                        _ => format!("immutable/{m:05}.primary.secondary"),
                    })
                }
                // a DIRECTORY carrying an expected trio name (of a number this download does not fetch)
                13 => ("dir-named-as-trio", format!("immutable/{:05}.{}/inside.txt", if lo > 0 { g.rng.range(0, lo - 1) } else { beacon + 1 }, g.rng.pick(&EXTS))),
                14 => ("directory-lookalike", (*g.rng.pick(&["immutablex/00001.chunk", "immutable.bak/00001.chunk", "IMMUTABLE/00001.chunk", "db/immutable/00001.chunk"])).to_string()),
                _ => ("file-below-user-directory", "immutable/keep/evil.txt".to_string()),
            };
            kinds.push(format!("imm:{tag}"));
            let id = g.fresh();
            let at = g.rng.below(entries.len() as u64 + 1) as usize;
            if !entries.iter().any(|(p, _)| *p == path) {
                entries.insert(at, (path, id));
            }
        }
    }
    Archive { entries, fail_after: None }
}

const N_ANC: u64 = 22;

/// several downloads at a time, one immutable archive breaks after a while: the batch is aborted while
/// the (large) ancillary archive is still being unpacked.  Timing dependent: implementation only.
fn gen_abort(g: &mut Gen) -> Scenario {
    let beacon = 2;
    let big = |g: &mut Gen| BIG_LO + (g.fresh_nonempty() % 90_000) * 10 + 4 + g.rng.below(6);
    let mut bad = Archive { entries: (0..8).map(|i| (format!("immutable/0000{}.chunk", i % 3), 0)).collect(), fail_after: Some(8) };
    bad.entries = vec![("immutable/00000.chunk".to_string(), big(g)), ("immutable/00000.primary".to_string(), big(g)), ("immutable/00000.secondary".to_string(), big(g))];
    bad.fail_after = Some(3);
    let mut imm = vec![(0u64, vec![Some(bad)])];
    for n in 1..=beacon { imm.push((n, vec![Some(Archive { entries: trio(n).iter().map(|p| (p.clone(), g.fresh())).collect(), fail_after: None })])); }
    let files: Vec<(String, u64)> = (0..60).map(|i| (format!("ledger/{}/state", 1000 + i), big(g))).collect();
    let data: Vec<(String, Dv)> = files.iter().map(|(p, c)| (p.clone(), Dv::Of(*c))).collect();
    let mid = g.fresh_nonempty() + 9_000_000;
    let mut entries = files;
    entries.push(("ancillary_manifest.json".into(), mid));
    Scenario {
        kind: "parallel:batch-aborted-while-ancillary-in-flight".into(), init: vec![("myfile.txt".into(), g.fresh())], beacon, range: Rg::Full,
        allow_override: true, anc: true, has_key: true, net_known: true, par: 20, imm,
        anc_locs: vec![Some(Archive { entries, fail_after: None })],
        manifests: vec![Manifest { id: mid, data: data.clone(), sig: Sig::By(1, data) }], comp: [g.rng.below(2) as u8, 0], prior: None, impl_only: true, hex_tokens: vec![],
    }
}

fn gen(rng: &mut Rng, next: &mut u64, counters: &mut (u64, u64)) -> Scenario {
    let mut g = Gen { rng, next: *next, hostile_no: counters.0, anc_no: counters.1 };
    if g.rng.chance(1, 40) {
        let s = gen_abort(&mut g);
        *next = g.next;
        return s;
    }
    let mut kinds: Vec<String> = vec![];
    // mostly small beacons; now and then two-digit numbers (numeric, not lexicographic, order of tasks and names)
    let beacon = if g.rng.chance(1, 8) { g.rng.range(9, 12) } else { g.rng.range(1, 5) };
    let near = |g: &mut Gen| if beacon > 6 { g.rng.range(beacon - 3, beacon) } else { g.rng.range(0, beacon) };
    let anc = g.rng.chance(1, 2);
    let range = if anc {
        match g.rng.below(4) { 0 if beacon <= 6 => Rg::Full, 0 | 1 => Rg::From(near(&mut g)), 2 => Rg::Range(near(&mut g), beacon), _ if beacon <= 6 => Rg::UpTo(beacon - g.rng.below(2)), _ => Rg::From(beacon) }
    } else {
        match g.rng.below(4) { 0 if beacon <= 6 => Rg::Full, 0 | 1 => Rg::From(near(&mut g)), 2 => { let a = near(&mut g); Rg::Range(a, g.rng.range(a, beacon)) } _ => Rg::UpTo(g.rng.range(0, beacon.min(4))) }
    };
    let anc_ledger = format!("ledger/{}/state", g.rng.range(1000, 9999));
    // initial content of the target directory
    let mut init: Vec<(String, u64)> = vec![];
    match g.rng.below(4) {
        0 => {}
        1 => { init.push(("myfile.txt".into(), g.fresh())); kinds.push("init:user-file".into()); }
        _ => {
            for n in 0..g.rng.range(1, beacon.min(5)) { for p in trio(n) { init.push((p, g.fresh())); } }
            if g.rng.coin() { init.push(("immutable/notes.txt".into(), g.fresh())); }
            if g.rng.coin() { init.push(("immutable/sub/old.txt".into(), g.fresh())); }
            if g.rng.coin() { init.push(("immutable/keep/mine.txt".into(), g.fresh())); }
            if g.rng.coin() { init.push(("myfile.txt".into(), g.fresh())); }
            if g.rng.chance(1, 3) { init.push(("ledger/old-state".into(), g.fresh())); }
            if g.rng.chance(1, 4) { init.push(("clean".into(), g.fresh())); }
            // files at the very paths an ancillary manifest is going to list
            if g.rng.chance(1, 3) { init.push((anc_ledger.clone(), g.fresh())); kinds.push("init:file-at-manifest-path".into()); }
            if g.rng.chance(1, 4) { init.push(("volatile/blocks-0.dat".into(), g.fresh())); kinds.push("init:file-at-manifest-path".into()); }
            if g.rng.chance(1, 4) { init.push((trio(beacon + 1)[0].clone(), g.fresh())); kinds.push("init:file-at-manifest-path".into()); }
            kinds.push("init:existing-db".into());
        }
    }
    let allow_override = !g.rng.chance(1, 10);
    let has_key = !g.rng.chance(1, 12);
    let net_known = g.rng.chance(3, 4);
    let comp_of = |g: &mut Gen| if g.rng.chance(1, 14) { 2u8 } else { g.rng.below(2) as u8 };
    let comp = [comp_of(&mut g), comp_of(&mut g)];
    let (lo, hi) = range_bounds(&range, beacon).unwrap_or((0, beacon));
    // immutable archives
    let hostile_case = g.rng.chance(1, 2);
    let mut imm = vec![];
    let mut any_failure = false;
    for n in lo..=hi {
        let hostile = hostile_case && g.rng.chance(1, 2);
        let good = gen_imm_archive(&mut g, n, beacon, lo, &mut kinds, hostile);
        let locs: Vec<Location> = match g.rng.below(14) {
            0 => { kinds.push("loc:first-missing".into()); any_failure = true; vec![None, Some(good)] }
            1 => {
                // first location corrupt after some entries (maybe leaving a stray), second fine
                let mut bad = gen_imm_archive(&mut g, n, beacon, lo, &mut kinds, true);
                bad.fail_after = Some(g.rng.below(bad.entries.len() as u64 + 1) as usize);
                kinds.push("loc:first-corrupt-second-good".into());
                any_failure = true;
                vec![Some(bad), Some(good)]
            }
            2 => {
                let mut bad = gen_imm_archive(&mut g, n, beacon, lo, &mut kinds, true);
                bad.fail_after = Some(g.rng.below(bad.entries.len() as u64 + 1) as usize);
                kinds.push("loc:all-fail".into());
                any_failure = true;
                if g.rng.coin() { vec![Some(bad), None] } else { vec![None, Some(bad)] }
            }
            3 => {
                // both locations work and differ: only the first may be used
                let other = gen_imm_archive(&mut g, n, beacon, lo, &mut kinds, true);
                kinds.push("loc:second-good-differs".into());
                vec![Some(good), Some(other)]
            }
            _ => if g.rng.coin() { vec![Some(good)] } else { vec![Some(good), None] },
        };
        imm.push((n, locs));
    }
    // ancillary archive
    let mut anc_locs = vec![];
    let mut manifests = vec![];
    let mut prior = None;
    let mut anc_sure = !anc;
    let mut hex_tokens: Vec<(String, u64)> = vec![];
    if anc {
        let no = g.anc_no;
        g.anc_no += 1;
        let (kind, round) = (no % N_ANC, no / N_ANC);
        let big = matches!(kind, 16 | 17);
        let big_base = BIG_LO + (g.fresh_nonempty() % 90_000) * 10;
        let mut files: Vec<(String, u64)> = vec![
            (anc_ledger.clone(), if big { big_base } else { g.fresh() }),
            ("volatile/blocks-0.dat".into(), g.fresh()),
        ];
        for p in trio(beacon + 1) { files.push((p, g.fresh())); }
        let mut data: Vec<(String, Dv)> = files.iter().map(|(p, c)| (p.clone(), Dv::Of(*c))).collect();
        let signed = data.clone();
        let mut sig = Sig::By(1, signed.clone());
        let mut entries = files.clone();
        let mut manifest_entry = true;
        let mut parsable = true;
        let mut want_prior = g.rng.coin();
        let mut decoy: Option<Manifest> = None;
        let pick = (round as usize) % entries.len();
        let t = match kind {
            0 => { entries[pick].1 = g.fresh().max(2) + 5_000_000; "content-changed" }
            1 => { data.push(("ledger/added".into(), Dv::Of(g.fresh()))); sig = Sig::By(1, data.clone()); "listed-file-absent" }
            2 => { data.push(("ledger/added".into(), Dv::Of(g.fresh()))); "entry-added-after-signature" }
            3 => { data.remove(pick); "entry-removed-after-signature" }
            4 => { data.remove(pick); sig = Sig::By(1, data.clone()); "unlisted-file-in-archive" }
            5 => { sig = Sig::Junk; "signature-altered" }
            6 => { sig = Sig::Missing; "signature-removed" }
            7 => { sig = Sig::By(2, signed.clone()); "signed-with-another-key" }
            8 => { parsable = false; "manifest-unparsable" }
            9 => { manifest_entry = false; "manifest-absent" }
            10 => { entries.push(("ledger/unlisted-extra".into(), g.fresh())); entries.push(("extra-at-root".into(), g.fresh())); entries.push(("../escape2".into(), g.fresh())); "extra-unlisted-entries" }
            11 => { data[pick].1 = Dv::Junk(5); sig = Sig::By(1, data.clone()); "signed-hash-does-not-match-file" }
            // the content of a listed file is replaced AND its hash in the manifest is brought in line;
            // only the signature (an authentic one, over the original data) can tell
            12 => { let c = g.fresh().max(2) + 5_000_000; entries[pick].1 = c; data[pick].1 = Dv::Of(c); want_prior = true; "rehash-stale-signature" }
            // a listed file is moved to another path, the manifest follows, the signature is the original one
            13 => { let p = format!("ledger/{}/state", g.rng.range(100, 999)); let i = round as usize % 2; entries[i].0 = p.clone(); data[i].0 = p; want_prior = true; "rename-stale-signature" }
            // two listed files exchange their contents; manifest in line; same keys, same multiset of hashes
            14 => { let j = (pick + 1) % entries.len(); let (a, b) = (entries[pick].1, entries[j].1); entries[pick].1 = b; entries[j].1 = a; data[pick].1 = Dv::Of(b); data[j].1 = Dv::Of(a); want_prior = true; "swap-contents-stale-signature" }
            // an authentic manifest comes first in the archive, a forged unsigned one replaces it
            15 => {
                let c = g.fresh().max(2) + 5_000_000; entries[pick].1 = c; data[pick].1 = Dv::Of(c); sig = Sig::Missing;
                decoy = Some(Manifest { id: g.fresh_nonempty() + 9_500_000, data: signed.clone(), sig: Sig::By(1, signed.clone()) });
                "authentic-manifest-overwritten-by-forged"
            }
            // the file differs from the listed one only after the first 64 KiB: tail changed, cut, or extended
            16 => { entries[0].1 = big_base + 1 + round % 3; "content-changed-after-first-64KiB" }
            17 => "honest-large-file",
            18 => { data.clear(); sig = Sig::By(1, vec![]); "empty-manifest-signed" }
            19 => { data.clear(); "empty-manifest-stale-signature" }
            // AncillaryFilesManifest::compute_hash concatenates keys and values without separators: the
            // last two entries (k4, v4), (k5, v5) of the signed manifest are replaced by ONE entry
            // (k4 ++ v4 ++ k5, v5); the hashed stream, hence the authentic signature, is unchanged
            20 => {
                let (k4, c4) = files[0].clone();
                let (k5, c5) = files[1].clone();
                let hex = sha_hex(&content_bytes(c4, &HashMap::new()));
                let key = format!("{k4}{hex}{k5}");
                hex_tokens.push((hex, c4));
                data.retain(|(p, _)| *p != k4 && *p != k5);
                data.push((key.clone(), Dv::Of(c5)));
                entries.push((key, c5));
                want_prior = g.rng.coin();
                "manifest-resplit-stale-signature"
            }
            _ => "honest",
        };
        anc_sure = matches!(kind, 17 | 21);
        kinds.push(format!("anc:{t}"));
        let mid = g.fresh_nonempty() + 9_000_000;
        if parsable { manifests.push(Manifest { id: mid, data, sig }); }
        if manifest_entry { entries.insert(g.rng.below(entries.len() as u64 + 1) as usize, ("ancillary_manifest.json".into(), mid)); }
        if let Some(d) = decoy {
            entries.insert(0, ("ancillary_manifest.json".into(), d.id));
            manifests.push(d);
        }
        if want_prior && has_key {
            kinds.push("same-client-after-honest-download".into());
            prior = Some(Prior { files, manifest: Manifest { id: g.fresh_nonempty() + 9_700_000, data: signed.clone(), sig: Sig::By(1, signed) } });
        }
        let a = Archive { entries, fail_after: None };
        anc_locs = match g.rng.below(8) {
            0 => { kinds.push("anc-loc:first-missing".into()); any_failure = true; vec![None, Some(a)] }
            1 => { kinds.push("anc-loc:all-missing".into()); any_failure = true; vec![None] }
            2 => { let mut bad = a.clone(); bad.fail_after = Some(g.rng.below(bad.entries.len() as u64) as usize); kinds.push("anc-loc:corrupt".into()); any_failure = true; vec![Some(bad)] }
            _ => vec![Some(a)],
        };
    }
    // a location served without compression that has nothing to serve: the unpack thread creates the
    // (empty) file while the download fails, and it is not awaited - timing dependent, left out
    let mut comp = comp;
    for i in 0..2 {
        let missing = |ls: &Vec<Location>| matches!(ls.get(i), Some(None));
        if comp[i] == 2 && (imm.iter().any(|(_, ls)| missing(ls)) || missing(&anc_locs)) { comp[i] = 0; }
    }
    // no file may sit where another entry needs a directory (the model has no file / directory conflicts)
    let mut file_paths: std::collections::HashSet<String> = init.iter().map(|(p, _)| p.clone()).collect();
    for (_, ls) in &imm { for a in ls.iter().flatten() { for (p, _) in &a.entries { file_paths.insert(p.clone()); } } }
    for m in &manifests { for (p, _) in &m.data { file_paths.insert(p.clone()); } }
    let below_a_file = |p: &str| p.match_indices('/').any(|(i, _)| file_paths.contains(&p[..i]));
    for (_, ls) in imm.iter_mut() { for a in ls.iter_mut().flatten() {
        let before = a.entries.len();
        a.entries.retain(|(p, _)| !below_a_file(p));
        if let Some(k) = a.fail_after { a.fail_after = Some(k.min(a.entries.len())); }
        let _ = before;
    } }
    // downloads at a time: 1 as a rule; 0 (nothing is downloaded at all); several when the outcome does
    // not depend on the interleaving (no attempt fails, the ancillary step succeeds, no path is written
    // by two archives)
    let mut par = 1usize;
    if g.rng.chance(1, 25) { par = 0; kinds.push("parallel:0".into()); }
    else if !any_failure && anc_sure && comp.iter().all(|c| *c != 2) && (has_key || !anc) {
        let mut seen: std::collections::HashSet<String> = Default::default();
        let mut disjoint = true;
        for (_, ls) in &imm { if let Some(Some(a)) = ls.first() { for (p, _) in &a.entries { disjoint &= seen.insert(p.clone()); } } }
        for m in &manifests { for (p, _) in &m.data { disjoint &= seen.insert(p.clone()); } }
        if disjoint { par = *g.rng.pick(&[2usize, 3, 20]); kinds.push("parallel:several".into()); }
    }
    if !hostile_case { kinds.push("imm:honest".into()); }
    if !allow_override { kinds.push("no-override".into()); }
    if !has_key && anc { kinds.push("no-ancillary-key".into()); }
    if comp.contains(&2) { kinds.push("loc:no-compression".into()); }
    if beacon > 6 { kinds.push("two-digit-numbers".into()); }
    *next = g.next;
    *counters = (g.hostile_no, g.anc_no);
    kinds.sort();
    kinds.dedup();
    Scenario { kind: kinds.join("+"), init, beacon, range, allow_override, anc, has_key, net_known, par, imm, anc_locs, manifests, comp, prior, impl_only: false, hex_tokens }
}

/// the manifest JSON as the aggregator would write it, signed with the real keys; the file hashes are
/// those `AncillaryFilesManifest::from_paths` (the aggregator's way) computes, given in `hashes`
fn manifest_json(m: &Manifest, signers: &[ManifestSigner; 2], hashes: &HashMap<u64, String>) -> Vec<u8> {
    let val = |d: &Dv| match d { Dv::Of(id) => hashes[id].clone(), Dv::Junk(k) => format!("junk-hash-{k}") };
    let to_map = |d: &[(String, Dv)]| d.iter().map(|(p, v)| (PathBuf::from(p), val(v))).collect::<BTreeMap<_, _>>();
    let mut man = AncillaryFilesManifest::new_without_signature(to_map(&m.data));
    match &m.sig {
        Sig::By(k, signed) => {
            let h = AncillaryFilesManifest::new_without_signature(to_map(signed)).compute_hash();
            man.set_signature(signers[(*k - 1) as usize].sign(&h));
        }
        Sig::Junk => man.set_signature(signers[0].sign(b"something else entirely")),
        Sig::Missing => {}
    }
    serde_json::to_vec(&man).unwrap()
}

struct Outcome {
    ok: bool,
    /// the honest download made before with the same client succeeded (true when there is none)
    prior_ok: bool,
    fin: Vec<(String, u64)>,
    err: String,
}

fn is_uuid(s: &str) -> bool {
    let b = s.as_bytes();
    b.len() == 36 && b.iter().enumerate().all(|(i, c)| if matches!(i, 8 | 13 | 18 | 23) { *c == b'-' } else { c.is_ascii_hexdigit() })
}
/// the download id is a fresh UUID: rename it in the observed paths
fn canon_path(p: &str) -> String {
    p.split('/').map(|c| {
        if is_uuid(c) { DLID.to_string() }
        else if c.strip_prefix("ancillary-").is_some_and(is_uuid) { format!("ancillary-{DLID}") }
        else { c.to_string() }
    }).collect::<Vec<_>>().join("/")
}

fn comp_alg(c: u8) -> Option<CompressionAlgorithm> {
    match c { 0 => Some(CompressionAlgorithm::Gzip), 1 => Some(CompressionAlgorithm::Zstandard), _ => None }
}

async fn run_scenario(dir: &Path, s: &Scenario, signers: &[ManifestSigner; 2]) -> Outcome {
    let _ = std::fs::remove_dir_all(dir);
    let target = dir.join("db");
    std::fs::create_dir_all(&target).unwrap();
    // blobs: manifest contents by id
    let mut blobs: HashMap<u64, Vec<u8>> = HashMap::new();
    let all_manifests: Vec<&Manifest> = s.manifests.iter().chain(s.prior.iter().map(|p| &p.manifest)).collect();
    // hashes of the listed contents, computed as the aggregator does
    let mut hashes: HashMap<u64, String> = HashMap::new();
    let hdir = dir.join("hash");
    std::fs::create_dir_all(&hdir).unwrap();
    for m in &all_manifests {
        let signed: &[(String, Dv)] = if let Sig::By(_, d) = &m.sig { d } else { &[] };
        for (_, v) in m.data.iter().chain(signed.iter()) {
            if let Dv::Of(id) = v {
                if !hashes.contains_key(id) {
                    std::fs::write(hdir.join("f"), content_bytes(*id, &blobs)).unwrap();
                    let man = AncillaryFilesManifest::from_paths(&hdir, vec![PathBuf::from("f")]).await.unwrap();
                    hashes.insert(*id, man.signable_manifest.data[&PathBuf::from("f")].clone());
                }
            }
        }
    }
    for m in &all_manifests {
        let j = manifest_json(m, signers, &hashes);
        blobs.insert(m.id, j);
    }
    // every id that is not a parsable manifest but sits at the manifest path: not JSON
    let mut known: HashMap<Vec<u8>, u64> = HashMap::new();
    let mut reg = |id: u64, blobs: &HashMap<u64, Vec<u8>>| { known.entry(content_bytes(id, blobs)).or_insert(id); };
    reg(0, &blobs);
    reg(1, &blobs);
    for (p, c) in &s.init {
        std::fs::create_dir_all(target.join(p).parent().unwrap()).unwrap();
        std::fs::write(target.join(p), content_bytes(*c, &blobs)).unwrap();
        reg(*c, &blobs);
    }
    let srv = dir.join("srv");
    let mut raw_files: Vec<(PathBuf, u64)> = vec![];
    for (n, locs) in &s.imm {
        for (i, l) in locs.iter().enumerate() {
            if let Some(a) = l {
                let f = srv.join(format!("loc{i}")).join(format!("{n:05}.tar"));
                write_archive(&f, a, s.comp[i], &blobs);
                for (_, c) in &a.entries { reg(*c, &blobs); }
                if s.comp[i] == 2 { raw_files.push((f, RAW_IMM + n * 10 + i as u64)); }
            }
        }
    }
    for (i, l) in s.anc_locs.iter().enumerate() {
        if let Some(a) = l {
            let f = srv.join(format!("anc{i}.tar"));
            write_archive(&f, a, s.comp[i], &blobs);
            for (_, c) in &a.entries { reg(*c, &blobs); }
            if s.comp[i] == 2 { raw_files.push((f, RAW_ANC + i as u64)); }
        }
    }
    for (f, id) in raw_files { known.entry(std::fs::read(f).unwrap()).or_insert(id); }
    let mut snapshot = CardanoDatabaseSnapshotMessage::dummy();
    snapshot.beacon = CardanoDbBeacon::new(9, s.beacon);
    snapshot.network = if s.net_known { "mainnet".into() } else { "private".into() };
    let nloc = s.imm.iter().map(|(_, l)| l.len()).max().unwrap_or(1);
    snapshot.immutables = ImmutablesMessagePart {
        average_size_uncompressed: 4096,
        // listed in reverse: the client sorts the locations before trying them
        locations: (0..nloc).rev().map(|i| ImmutablesLocation::CloudStorage {
            uri: MultiFilesUri::Template(TemplateUri(format!("file://{}/loc{i}/{{immutable_file_number}}.tar", srv.display()))),
            compression_algorithm: comp_alg(s.comp[i]),
        }).chain(std::iter::once(ImmutablesLocation::Unknown)).collect(),
    };
    snapshot.ancillary = AncillaryMessagePart {
        size_uncompressed: 4096,
        locations: (0..s.anc_locs.len().max(1)).rev().map(|i| AncillaryLocation::CloudStorage {
            uri: format!("file://{}/anc{i}.tar", srv.display()),
            compression_algorithm: comp_alg(s.comp[i]),
        }).collect(),
    };
    let logger = slog::Logger::root(slog::Discard, slog::o!());
    let downloader = Arc::new(HttpFileDownloader::new(mithril_client::feedback::FeedbackSender::new(&[]), logger.clone()).unwrap());
    #[allow(deprecated)]
    let mut builder = ClientBuilder::aggregator("http://127.0.0.1:9/aggregator", fake_keys::genesis_verification_key()[0])
        .with_http_file_downloader(downloader)
        .with_logger(logger);
    if s.has_key {
        builder = builder.set_ancillary_verification_key(signers[0].verification_key().to_json_hex().unwrap());
    }
    let client = builder.build().unwrap();
    let mut prior_ok = true;
    if let Some(p) = &s.prior {
        // an honest download of the last immutable + ancillary files, elsewhere, with the same client
        let srv0 = dir.join("srv0");
        let honest_imm = Archive { entries: trio(s.beacon).iter().map(|q| (q.clone(), 3u64)).collect(), fail_after: None };
        write_archive(&srv0.join(format!("{:05}.tar", s.beacon)), &honest_imm, 0, &blobs);
        let mut entries = p.files.clone();
        entries.push(("ancillary_manifest.json".into(), p.manifest.id));
        write_archive(&srv0.join("anc.tar"), &Archive { entries, fail_after: None }, 1, &blobs);
        let mut snap0 = snapshot.clone();
        snap0.immutables.locations = vec![ImmutablesLocation::CloudStorage {
            uri: MultiFilesUri::Template(TemplateUri(format!("file://{}/{{immutable_file_number}}.tar", srv0.display()))),
            compression_algorithm: comp_alg(0),
        }];
        snap0.ancillary.locations = vec![AncillaryLocation::CloudStorage { uri: format!("file://{}/anc.tar", srv0.display()), compression_algorithm: comp_alg(1) }];
        let t0 = dir.join("db0");
        std::fs::create_dir_all(&t0).unwrap();
        let opts = DownloadUnpackOptions { allow_override: true, include_ancillary: true, max_parallel_downloads: 1 };
        let r0 = client.cardano_database_v2().download_unpack(&snap0, &ImmutableFileRange::From(s.beacon), &t0, opts).await;
        prior_ok = r0.is_ok() && t0.join(&p.files[0].0).is_file();
    }
    let range = match &s.range {
        Rg::Full => ImmutableFileRange::Full,
        Rg::From(a) => ImmutableFileRange::From(*a),
        Rg::Range(a, b) => ImmutableFileRange::Range(*a, *b),
        Rg::UpTo(b) => ImmutableFileRange::UpTo(*b),
    };
    let opts = DownloadUnpackOptions { allow_override: s.allow_override, include_ancillary: s.anc, max_parallel_downloads: s.par };
    let r = client.cardano_database_v2().download_unpack(&snapshot, &range, &target, opts).await;
    if s.impl_only {
        // let threads that outlive an aborted batch finish what they are doing
        tokio::time::sleep(std::time::Duration::from_millis(300)).await;
    }
    let mut raw = vec![];
    listing(&target, "", &mut raw);
    let mut fin: Vec<(String, u64)> = raw.into_iter().map(|(p, b)| { let id = *known.get(&b).unwrap_or(&UNKNOWN_ID); (canon_path(&p), id) }).collect();
    fin.sort();
    Outcome { ok: r.is_ok(), prior_ok, err: r.err().map(|e| format!("{e:#}").chars().take(160).collect()).unwrap_or_default(), fin }
}

/// containment, judged from provenance
fn judge(s: &Scenario, o: &Outcome) -> (bool, Option<String>, Option<String>) {
    let bounds = range_bounds(&s.range, s.beacon);
    let imm = effective_imm(s);
    let anc_locs = effective_anc(s);
    // is the manifest of the archive that was used authentic and consistent with the archive?
    let used_anc: Option<&Archive> = anc_locs.iter().flatten().find(|a| a.fail_after.is_none());
    let mut vouched: Vec<(String, u64)> = vec![];
    let mut same_stream: Vec<(String, u64)> = vec![];
    if let (true, true, Some(a)) = (s.anc, s.has_key, used_anc) {
        let mid = a.entries.iter().rev().find(|(p, _)| p == "ancillary_manifest.json").map(|(_, c)| *c);
        if let Some(m) = mid.and_then(|id| s.manifests.iter().find(|m| m.id == id)) {
            let authentic = matches!(&m.sig, Sig::By(1, signed) if canon(signed) == canon(&m.data));
            let content_of = |p: &str| a.entries.iter().rev().find(|(q, _)| q == p).map(|(_, c)| *c);
            let consistent = m.data.iter().all(|(p, v)| matches!((content_of(p), v), (Some(c), Dv::Of(id)) if c == *id));
            if authentic && consistent {
                vouched = m.data.iter().filter_map(|(p, _)| content_of(p).map(|c| (p.clone(), c))).collect();
            }
            // not the signed manifest, but one that hashes to the same byte stream (keys and values are
            // concatenated without separators)
            let stream = |d: &[(String, Dv)]| canon(d).iter().map(|(p, v)| format!("{p}{}", match v { Dv::Of(id) => sha_hex(&content_bytes(*id, &HashMap::new())), Dv::Junk(k) => format!("junk-hash-{k}") })).collect::<String>();
            if let Sig::By(1, signed) = &m.sig {
                if !authentic && consistent && stream(signed) == stream(&m.data) {
                    same_stream = m.data.iter().filter_map(|(p, _)| content_of(p).map(|c| (p.clone(), c))).collect();
                }
            }
        }
    }
    let mut first_known: Option<(String, Option<String>)> = None;
    for (p, c) in &o.fin {
        if s.init.iter().any(|(q, d)| q == p && d == c) { continue; }
        if o.ok && ((p == "clean" && *c == 0) || (p == "protocolMagicId" && *c == 1 && s.net_known)) { continue; }
        // a ranged immutable file from an archive for its own number
        let mut own = false;
        if let Some((lo, hi)) = bounds {
            for (n, locs) in &imm {
                if *n >= lo && *n <= hi && trio(*n).contains(p) && locs.iter().flatten().any(|a| a.entries.iter().any(|(q, d)| q == p && d == c)) { own = true; }
            }
        }
        if own { continue; }
        if vouched.iter().any(|(q, d)| q == p && d == c) { continue; }
        // not justified: classify
        let from_imm = imm.iter().find(|(_, locs)| locs.iter().flatten().any(|a| a.entries.iter().any(|(q, d)| q == p && d == c)));
        let why = format!("`{p}` (content #{c}) is in the target directory after the download (success = {}), but it was not there before, is not a marker, not an immutable file of the range from the archive of its own number, and not vouched by an authentic manifest{}", o.ok,
            match from_imm { Some((n, _)) => format!("; it comes from the archive of immutable {n}"), None => String::new() });
        let known = match from_imm {
            _ if same_stream.iter().any(|(q, d)| q == p && d == c) => Some("C19-manifest-hash-ambiguity".to_string()),
            _ if s.par > 1 && !o.ok && p.starts_with(&format!("ancillary-{DLID}/")) => Some("C19-aborted-ancillary-temp".to_string()),
            Some(_) if !p.starts_with("immutable/") => Some("C19-foreign-entry".to_string()),
            Some(_) => {
                // inside immutable/: let through by design only when its first component is expected
                let first = p["immutable/".len()..].split('/').next().unwrap_or("").to_string();
                let upper = if s.anc { s.beacon + 1 } else { s.beacon };
                let expected = (0..=upper).any(|n| trio(n).iter().any(|t| t["immutable/".len()..] == first))
                    || s.init.iter().any(|(q, _)| q.starts_with("immutable/") && q["immutable/".len()..].split('/').next() == Some(&first));
                if expected { Some("C19-other-immutable".to_string()) } else { None }
            }
            None => None,
        };
        // a file outside every known class decides; one inside a known class is reported only when
        // nothing else is wrong
        if known.is_none() { return (false, Some(why), None); }
        if first_known.is_none() { first_known = Some((why, known)); }
    }
    match first_known {
        Some((why, known)) => (false, Some(why), known),
        None => (true, None, None),
    }
}

fn main() {
    let args = hc::parse_args();
    let mut rng = Rng::new(args.seed);
    let mut sink = Sink::new(&args);
    let work = PathBuf::from(std::env::var("VERIF_WORK").unwrap_or_else(|_| ".".into())).canonicalize().unwrap().join("c19-dirs");
    std::fs::create_dir_all(&work).unwrap();
    std::env::set_var("TMPDIR", &work);
    let rt = tokio::runtime::Builder::new_multi_thread().worker_threads(4).enable_all().build().unwrap();
    let signers = [ManifestSigner::create_deterministic_signer(), ManifestSigner::create_non_deterministic_signer()];
    let n = if args.thorough { 1600 } else { 240 };
    let mut next = 10u64;
    let mut counters = (0u64, 0u64);
    for _ in 0..n {
        let s = gen(&mut rng, &mut next, &mut counters);
        let Some(id) = sink.wants() else { continue };
        let dir = work.join(format!("case{id}"));
        let o = rt.block_on(run_scenario(&dir, &s, &signers));
        let (holds, why, known) = judge(&s, &o);
        HEX_TOKENS.with(|t| *t.borrow_mut() = s.hex_tokens.clone());
        let impl_obs = coq::ol(&[
            coq::ol(&[
                coq::ob(o.ok),
                coq::ol(&o.fin.iter().map(|(p, c)| coq::ol(&[coq::oln(&tokens(p)), coq::on(*c)])).collect::<Vec<_>>()),
            ]),
            coq::ob(o.prior_ok),
        ]);
        sink.push(Case {
            id,
            kind: s.kind.clone(),
            desc: serde_json::json!({
                "beacon": s.beacon, "range": format!("{:?}", s.range), "include_ancillary": s.anc, "allow_override": s.allow_override,
                "ancillary_key_configured": s.has_key, "network_known": s.net_known, "max_parallel_downloads": s.par,
                "initial": s.init, "immutable_archives": format!("{:?}", s.imm), "ancillary_locations": format!("{:?}", s.anc_locs),
                "manifests": format!("{:?}", s.manifests), "compression_per_location (0 gzip, 1 zstd, 2 none)": s.comp,
                "honest_download_before_with_same_client": s.prior.is_some(),
                "honest_download_before_succeeded": o.prior_ok, "success": o.ok, "error": o.err, "final": o.fin,
            }),
            model: if s.impl_only { None } else { Some(format!("OL [C19.Model.run {}; OB true]", cscenario(&s))) },
            impl_obs,
            holds: Some(holds),
            why,
            known,
            nontrivial: !s.kind.contains("imm:honest") || s.anc,
            key: format!("{}/{}/{:?}/{}", s.kind, s.beacon, s.range, s.init.len()),
        });
        let _ = std::fs::remove_dir_all(&dir);
    }
    let _ = std::fs::remove_dir_all(&work);
    sink.finish();
}
