//! C10 correspondence harness: a restored Cardano database is accepted only if every file is the
//! certified one.  Each case builds a real database directory, a served digest list (JSON file
//! reached through the real `HttpFileDownloader` with a `file://` location) or a hand-built
//! `VerifiedDigests`, a certificate whose signed message commits to a Merkle root, and runs
//! `download_and_verify_digests` -> `verify_cardano_database` -> `compute_cardano_database_message`
//! + `match_message` of the real client.  `holds` is judged from provenance: the generator knows
//! which content it wrote under which name and which digest the aggregator's list certifies for
//! that name.
use hc::{coq, Case, Rng, Sink};
use mithril_client::cardano_database_client::{
    CardanoDatabaseVerificationError, ImmutableFileRange, VerifiedDigests,
};
use mithril_client::file_downloader::HttpFileDownloader;
use mithril_client::{ClientBuilder, MessageBuilder};
use mithril_common::crypto_helper::{MKTree, MKTreeNode, MKTreeStoreInMemory};
use mithril_common::entities::{CardanoDbBeacon, DigestLocation, ProtocolMessage, ProtocolMessagePartKey};
use mithril_common::messages::{CardanoDatabaseSnapshotMessage, CertificateMessage, DigestsMessagePart};
use mithril_common::test::double::{fake_keys, Dummy};
use sha2::{Digest, Sha256};
use std::collections::BTreeMap;
use std::path::{Path, PathBuf};
use std::sync::Arc;

const EXTS: [&str; 3] = ["chunk", "primary", "secondary"];

/// a digest value of a served list: the SHA-256 of a content id, or an arbitrary string
#[derive(Clone, Debug, PartialEq)]
enum Dv {
    Of(u64),
    Junk(u64),
}
#[derive(Clone, Debug)]
enum Kind {
    File(u64),
    Dir,
}
#[derive(Clone, Debug)]
struct Entry {
    name: String,
    kind: Kind,
}
#[derive(Clone, Debug)]
enum Source {
    Served(Option<Vec<(String, Dv)>>, bool), // (list; None = not JSON), cloud-storage location?
    Hand(Vec<(String, Dv)>, Vec<Dv>),
}
#[derive(Clone, Debug)]
enum Rg {
    Full,
    From(u64),
    Range(u64, u64),
    UpTo(u64),
}
#[derive(Clone, Debug)]
struct Scenario {
    kind: String,
    other: u64,
    signed_other: u64,
    signed: Vec<Dv>,
    beacon: u64,
    source: Source,
    range: Rg,
    allow: bool,
    entries: Vec<Entry>,
    /// the aggregator's list: name -> content id (what each name is certified to hold)
    certified: BTreeMap<String, u64>,
    /// the served list is an order-preserving renaming of the aggregator's (known-finding class)
    shifted_names: bool,
}

fn content_bytes(id: u64) -> Vec<u8> {
    if id == 0 {
        return vec![];
    }
    let mut v = format!("immutable file content #{id}\n").into_bytes();
    let extra = (id % 5) as usize * 2500;
    v.extend(std::iter::repeat((id % 251) as u8).take(extra));
    v
}
fn sha_hex(id: u64) -> String {
    hex::encode(Sha256::digest(content_bytes(id)))
}
fn dv_string(d: &Dv) -> String {
    match d {
        Dv::Of(id) => sha_hex(*id),
        Dv::Junk(k) => format!("junk-digest-{k}"),
    }
}
fn dv_coq(d: &Dv) -> String {
    match d {
        Dv::Of(id) => format!("(C12.Model.file_digest {})", coq::n(*id)),
        Dv::Junk(k) => format!("(BLit [{}])", coq::n(*k)),
    }
}
fn trio(n: u64) -> [String; 3] {
    [format!("{n:05}.chunk"), format!("{n:05}.primary"), format!("{n:05}.secondary")]
}

fn build_dir(root: &Path, entries: &[Entry]) {
    let _ = std::fs::remove_dir_all(root);
    let imm = root.join("immutable");
    std::fs::create_dir_all(&imm).unwrap();
    std::fs::create_dir_all(root.join("ledger")).unwrap();
    std::fs::write(root.join("ledger").join("00000.chunk"), b"not an immutable").unwrap();
    for e in entries {
        match &e.kind {
            Kind::File(id) => std::fs::write(imm.join(&e.name), content_bytes(*id)).unwrap(),
            Kind::Dir => std::fs::create_dir_all(imm.join(&e.name)).unwrap(),
        }
    }
}

fn coq_name(s: &str) -> String {
    coq::bytes(s.as_bytes())
}
fn coq_dlist(d: &[(String, Dv)]) -> String {
    coq::list(&d.iter().map(|(n, v)| format!("({}, {})", coq_name(n), dv_coq(v))).collect::<Vec<_>>())
}
fn coq_scenario(s: &Scenario) -> String {
    let src = match &s.source {
        Source::Served(None, _) => "Served None".to_string(),
        Source::Served(Some(d), _) => format!("Served (Some {})", coq_dlist(d)),
        Source::Hand(d, l) => format!("Hand {} {}", coq_dlist(d), coq::list(&l.iter().map(dv_coq).collect::<Vec<_>>())),
    };
    let rg = match &s.range {
        Rg::Full => "RFull".to_string(),
        Rg::From(a) => format!("RFrom {}", coq::n(*a)),
        Rg::Range(a, b) => format!("RRange {} {}", coq::n(*a), coq::n(*b)),
        Rg::UpTo(b) => format!("RUpTo {}", coq::n(*b)),
    };
    let entries = s
        .entries
        .iter()
        .map(|e| {
            let k = match &e.kind {
                Kind::File(id) => format!("KFile {}", coq::n(*id)),
                Kind::Dir => "KDir".to_string(),
            };
            format!("({}, {})", coq_name(&e.name), k)
        })
        .collect::<Vec<_>>();
    format!(
        "{{| sc_other := {}; sc_signed_other := {}; sc_signed := {}; sc_beacon := {}; sc_source := {}; sc_range := {}; sc_allow := {}; sc_listing := {} |}}",
        coq::n(s.other),
        coq::n(s.signed_other),
        coq::list(&s.signed.iter().map(dv_coq).collect::<Vec<_>>()),
        coq::n(s.beacon),
        src,
        rg,
        coq::b(s.allow),
        coq::list(&entries)
    )
}

fn pattern(values: &[Vec<u8>]) -> Vec<u64> {
    let mut seen: Vec<&Vec<u8>> = vec![];
    values
        .iter()
        .map(|v| match seen.iter().position(|s| *s == v) {
            Some(i) => i as u64,
            None => {
                seen.push(v);
                (seen.len() - 1) as u64
            }
        })
        .collect()
}
fn onames(l: &[String]) -> String {
    coq::ol(&l.iter().map(|n| coq::oln(&n.bytes().map(|b| b as u64).collect::<Vec<_>>())).collect::<Vec<_>>())
}

struct Outcome {
    impl_obs: String,
    /// digests accepted: the returned map (names, values)
    accepted: Option<Vec<(String, String)>>,
    /// whole flow succeeded (verification Ok and recomputed message matches the certificate)
    success: bool,
    verdict: String,
}

fn protocol_message(other: u64, root_hex: &str) -> ProtocolMessage {
    let mut pm = ProtocolMessage::new();
    pm.set_message_part(ProtocolMessagePartKey::CurrentEpoch, format!("{other}"));
    pm.set_message_part(ProtocolMessagePartKey::NextAggregateVerificationKey, "avk-of-the-next-epoch".to_string());
    pm.set_message_part(ProtocolMessagePartKey::CardanoDatabaseMerkleRoot, root_hex.to_string());
    pm
}

async fn run_scenario(client: &mithril_client::Client, dir: &Path, s: &Scenario) -> Outcome {
    let db = dir.join("db");
    build_dir(&db, &s.entries);
    // the certificate: its signed message commits to (signed_other, root of `signed`)
    let signed_leaves: Vec<String> = s.signed.iter().map(dv_string).collect();
    let signed_root = MKTree::<MKTreeStoreInMemory>::new(&signed_leaves)
        .and_then(|t| t.compute_root())
        .map(|r| r.to_hex())
        .unwrap_or_else(|_| "no-root".to_string());
    let certificate = CertificateMessage {
        // the message carried by the certificate holds a stale root: the client must overwrite it
        protocol_message: protocol_message(s.other, "00"),
        signed_message: protocol_message(s.signed_other, &signed_root).compute_hash(),
        ..CertificateMessage::dummy()
    };
    let mut snapshot = CardanoDatabaseSnapshotMessage::dummy();
    snapshot.beacon = CardanoDbBeacon::new(7, s.beacon);
    let dbc = client.cardano_database_v2();
    let mut obs: Vec<String> = vec![];
    let mut accepted = None;
    let mut digest_error = String::new();
    let vd: Option<VerifiedDigests> = match &s.source {
        Source::Served(list, cloud) => {
            let file = dir.join("digests.json");
            match list {
                Some(l) => {
                    let items: Vec<serde_json::Value> = l
                        .iter()
                        .map(|(n, v)| serde_json::json!({"immutable_file_name": n, "digest": dv_string(v)}))
                        .collect();
                    std::fs::write(&file, serde_json::to_vec(&items).unwrap()).unwrap();
                }
                None => std::fs::write(&file, b"{ this is not a digest list").unwrap(),
            }
            let uri = format!("file://{}", file.display());
            let good = if *cloud {
                DigestLocation::CloudStorage { uri, compression_algorithm: None }
            } else {
                DigestLocation::Aggregator { uri }
            };
            snapshot.digests = DigestsMessagePart {
                size_uncompressed: 1024,
                // an unknown location must be skipped.  (A dead location before the good one is NOT
                // generated: the failed attempt may leave an empty file in the shared target directory
                // and the next attempt then fails with "Multiple digest files" - a race in the client
                // that concerns availability, not this property.)
                locations: vec![DigestLocation::Unknown, good],
            };
            match dbc.download_and_verify_digests(&certificate, &snapshot).await {
                Ok(v) => {
                    let names: Vec<String> = v.digests.keys().cloned().collect();
                    // (the tree's own leaf list is not observed: MKTree::leaves() keeps one entry per
                    // distinct value; the tree is observed through the root in the message match)
                    let vals: Vec<Vec<u8>> = v.digests.values().map(|x| x.as_bytes().to_vec()).collect();
                    obs.push(coq::ol(&[coq::oz(0), onames(&names), coq::oln(&pattern(&vals))]));
                    accepted = Some(v.digests.iter().map(|(a, b)| (a.clone(), b.clone())).collect());
                    Some(v)
                }
                Err(e) => {
                    obs.push(coq::ol(&[coq::oz(1)]));
                    digest_error = format!(": {e:#}").chars().take(200).collect();
                    None
                }
            }
        }
        Source::Hand(d, leaves) => {
            obs.push(coq::ol(&[]));
            let digests: BTreeMap<String, String> = d.iter().map(|(n, v)| (n.clone(), dv_string(v))).collect();
            let leaves: Vec<MKTreeNode> = leaves.iter().map(|v| MKTreeNode::from(dv_string(v))).collect();
            Some(VerifiedDigests { digests, merkle_tree: MKTree::new(&leaves).unwrap() })
        }
    };
    let mut success = false;
    let mut verdict = format!("digests-rejected{digest_error}");
    if let Some(vd) = vd {
        let range = match &s.range {
            Rg::Full => ImmutableFileRange::Full,
            Rg::From(a) => ImmutableFileRange::From(*a),
            Rg::Range(a, b) => ImmutableFileRange::Range(*a, *b),
            Rg::UpTo(b) => ImmutableFileRange::UpTo(*b),
        };
        match dbc.verify_cardano_database(&certificate, &snapshot, &range, s.allow, &db, &vd).await {
            Ok(proof) => {
                let msg = MessageBuilder::new().compute_cardano_database_message(&certificate, &proof).await;
                let m = match msg {
                    Ok(m) => certificate.match_message(&m),
                    Err(_) => false,
                };
                success = m;
                verdict = format!("verified, message match = {m}");
                obs.push(coq::ol(&[coq::oz(0), coq::ob(m)]));
            }
            Err(CardanoDatabaseVerificationError::ImmutableFilesVerification(l)) => {
                verdict = format!("missing {:?} tampered {:?} non-verifiable {:?}", l.missing, l.tampered, l.non_verifiable);
                obs.push(coq::ol(&[coq::oz(1), onames(&l.missing), onames(&l.tampered), onames(&l.non_verifiable)]));
            }
            Err(e) => {
                verdict = format!("error: {}", format!("{e}").chars().take(120).collect::<String>());
                obs.push(coq::ol(&[coq::oz(2)]));
            }
        }
    }
    Outcome { impl_obs: coq::ol(&obs), accepted, success, verdict }
}

/// the property, from provenance only
fn judge(s: &Scenario, o: &Outcome) -> (Option<bool>, Option<String>) {
    // (1) an accepted digest list carries the signed value sequence, provided the signed message is
    //     the one of this certificate
    if let Some(acc) = &o.accepted {
        let vals: Vec<String> = acc.iter().map(|(_, v)| v.clone()).collect();
        let signed: Vec<String> = s.signed.iter().map(dv_string).collect();
        if vals != signed || s.other != s.signed_other {
            return (Some(false), Some(format!("digest list accepted but its value sequence {:?} is not the signed one", acc)));
        }
    }
    if !o.success {
        return (Some(true), None);
    }
    // hand-built VerifiedDigests: judged only when they are what the API contract says (the aggregator's list)
    if let Source::Hand(d, _) = &s.source {
        let honest = d.iter().all(|(n, v)| matches!(v, Dv::Of(id) if s.certified.get(n).map(|c| sha_hex(*c)) == Some(sha_hex(*id))));
        if !honest {
            return (None, None);
        }
    }
    if s.other != s.signed_other {
        return (Some(false), Some("accepted against a certificate that signed another message".into()));
    }
    let (lo, hi) = match &s.range {
        Rg::Full => (0, s.beacon),
        Rg::From(a) => (*a, s.beacon),
        Rg::Range(a, b) => (*a, *b),
        Rg::UpTo(b) => (0, *b),
    };
    // (2) every ranged file is present as a regular file (unless gaps are allowed)
    if !s.allow {
        for n in lo..=hi {
            for name in trio(n) {
                if !s.entries.iter().any(|e| e.name == name && matches!(e.kind, Kind::File(_))) {
                    return (Some(false), Some(format!("accepted although {name} is not present as a file")));
                }
            }
        }
    }
    // (3) every immutable file of the range holds the content certified for its own name
    for e in &s.entries {
        let Kind::File(id) = &e.kind else { continue };
        let Some((stem, ext)) = e.name.rsplit_once('.') else { continue };
        if !EXTS.contains(&ext) {
            continue;
        }
        let Ok(n) = stem.parse::<u64>() else { continue };
        if n < lo || n > hi {
            continue;
        }
        match s.certified.get(&e.name) {
            Some(c) if sha_hex(*c) == sha_hex(*id) => {}
            Some(c) => return (Some(false), Some(format!("accepted although {} holds content #{id}, certified content is #{c}", e.name))),
            None => return (Some(false), Some(format!("accepted although no digest is certified for the name {}", e.name))),
        }
    }
    (Some(true), None)
}

fn gen(rng: &mut Rng, next: &mut u64) -> Scenario {
    let mut fresh = |rng: &mut Rng| {
        *next += 1;
        if rng.chance(1, 30) { 0 } else { *next }
    };
    let ntrios = rng.range(1, 12);
    let last = ntrios - 1;
    let beacon = if rng.chance(2, 3) { last } else { rng.range(0, last) };
    // base directory and the aggregator's list
    let mut entries: Vec<Entry> = vec![];
    let mut certified: BTreeMap<String, u64> = BTreeMap::new();
    let mut honest: Vec<(String, Dv)> = vec![];
    let dup = rng.chance(1, 8); // two files with the same certified content
    let mut first_id = None;
    for n in 0..=last {
        for name in trio(n) {
            let mut id = fresh(rng);
            if dup && n > 0 && name.ends_with("primary") && rng.coin() {
                id = first_id.unwrap();
            }
            if first_id.is_none() {
                first_id = Some(id);
            }
            entries.push(Entry { name: name.clone(), kind: Kind::File(id) });
            certified.insert(name.clone(), id);
            honest.push((name, Dv::Of(id)));
        }
    }
    let signed: Vec<Dv> = honest.iter().take(3 * (beacon as usize + 1)).map(|(_, v)| v.clone()).collect();
    let over = rng.below(2);
    let under = rng.below(2);
    let range = match rng.below(4) {
        0 => Rg::Full,
        1 => Rg::From(rng.range(0, beacon + over)),
        2 => {
            let a = rng.range(0, beacon);
            Rg::Range(a, rng.range(a.saturating_sub(under), beacon + over))
        }
        _ => Rg::UpTo(rng.range(0, beacon + over)),
    };
    let (lo, hi) = match &range {
        Rg::Full => (0, beacon),
        Rg::From(a) => (*a, beacon),
        Rg::Range(a, b) => (*a, *b),
        Rg::UpTo(b) => (0, *b),
    };
    let hi = hi.min(last);
    let lo = lo.min(hi);
    let allow = rng.chance(1, 4);
    let other = rng.range(1, 9);
    let mut s = Scenario {
        kind: String::new(),
        other,
        signed_other: other,
        signed,
        beacon,
        source: Source::Served(Some(honest.clone()), rng.coin()),
        range,
        allow,
        entries,
        certified,
        shifted_names: false,
    };
    let ranged: Vec<usize> = (0..s.entries.len()).filter(|i| { let n = (*i as u64) / 3; n >= lo && n <= hi }).collect();
    let pick_ranged = |rng: &mut Rng| *rng.pick(&ranged);
    let mut kinds: Vec<String> = vec![];
    // ---- how the verified digests are obtained ----
    match rng.below(10) {
        0 | 1 => {
            // hand-built VerifiedDigests from the aggregator's list
            let upto: Vec<(String, Dv)> = honest.iter().take(3 * (beacon as usize + 1)).cloned().collect();
            let leaves: Vec<Dv> = upto.iter().map(|(_, v)| v.clone()).collect();
            s.source = Source::Hand(upto, leaves);
            kinds.push("hand".into());
        }
        2 | 3 | 4 => {
            // a tampered served list
            let mut l = honest.clone();
            let i = rng.below(l.len() as u64) as usize;
            let j = rng.below(l.len() as u64) as usize;
            let t = match rng.below(13) {
                0 => { l[i].0 = format!("{}x", l[i].0); "renamed-entry" }
                1 => { rng.shuffle(&mut l); "reordered" }
                2 => { l.remove(i); "dropped-entry" }
                3 => { let n = rng.range(0, last + 1); l.insert(i, (format!("{n:05}.{}", rng.pick(&["chunk", "tertiary", "primary2"])), Dv::Of(fresh(rng)))); "added-entry" }
                4 => { l[i].1 = if rng.coin() { Dv::Junk(rng.range(1, 5)) } else { Dv::Of(fresh(rng).max(1) + 1_000_000) }; "value-changed" }
                5 => { let v = l[i].1.clone(); l[i].1 = l[j].1.clone(); l[j].1 = v; "values-swapped" }
                6 => { let e = l[i].clone(); l.push((e.0, l[j].1.clone())); "duplicate-name-later-wins" }
                9 => {
                    // every name given a directory prefix that preserves the order
                    let pre = *rng.pick(&["x/", "immutable/", "./", "/", "a//b/./"]);
                    for e in l.iter_mut() { e.0 = format!("{pre}{}", e.0); }
                    "names-prefixed"
                }
                10 | 11 => {
                    // every name prefixed by its position (the value order is the signed one) and the LAST
                    // components of two entries exchanged (or one of them dressed as "name/." , "name/")
                    let names: Vec<String> = l.iter().map(|e| e.0.clone()).collect();
                    let mut lastc = names.clone();
                    if i != j { lastc.swap(i, j); }
                    for (k, e) in l.iter_mut().enumerate() {
                        let tail = match rng.below(6) { 0 => "/", 1 => "/.", _ => "" };
                        e.0 = format!("{k:05}/{}{tail}", lastc[k]);
                    }
                    "names-position-prefixed-last-components-exchanged"
                }
                12 => {
                    // path-like names without a file name
                    l[i].0 = format!("{}/..", l[i].0);
                    l.push((".".into(), Dv::Junk(6)));
                    l.push(("/".into(), Dv::Junk(5)));
                    "names-without-file-name"
                }
                7 => { l.push(("not-a-number.chunk".into(), Dv::Junk(9))); l.push((format!("{}.chunk", last + 5), Dv::Junk(8))); l.insert(0, ("".into(), Dv::Junk(7))); "ignorable-entries" }
                _ => { s.source = Source::Served(None, rng.coin()); "not-json" }
            };
            if t == "names-position-prefixed-last-components-exchanged" && rng.coin() && i < s.entries.len() && j < s.entries.len() {
                // ... and the restored directory follows: the contents of the two files are exchanged
                let k = s.entries[i].kind.clone();
                s.entries[i].kind = s.entries[j].kind.clone();
                s.entries[j].kind = k;
                kinds.push("dir:contents-exchanged-accordingly".into());
            }
            if t != "not-json" {
                s.source = Source::Served(Some(l), rng.coin());
            }
            kinds.push(format!("list:{t}"));
        }
        5 => {
            // certificate signed for something else
            match rng.below(3) {
                0 => { s.signed_other = s.other + 10; kinds.push("cert:other-parts-differ".into()); }
                1 => { let k = rng.below(s.signed.len() as u64) as usize; s.signed[k] = Dv::Of(fresh(rng).max(1) + 3_000_000); kinds.push("cert:signed-another-root".into()); }
                _ => { if s.signed.len() > 1 { s.signed.pop(); } else { s.signed.push(Dv::Junk(3)); } kinds.push("cert:signed-shorter-list".into()); }
            }
        }
        _ => kinds.push("list:honest".into()),
    }
    // ---- tampering of the restored directory ----
    let ntamper = match rng.below(10) { 0 | 1 | 2 => 0, 9 => 2, _ => 1 };
    for _ in 0..ntamper {
        if s.entries.is_empty() {
            break;
        }
        let i = pick_ranged(rng).min(s.entries.len() - 1);
        let j = pick_ranged(rng).min(s.entries.len() - 1);
        let t = match rng.below(12) {
            0 => { s.entries[i].kind = Kind::File(fresh(rng).max(1) + 1_000_000); "byte-flip" }
            1 => { s.entries[i].kind = Kind::File(fresh(rng).max(1) + 2_000_000); "truncation" }
            2 => { s.entries.remove(i); "deletion" }
            3 => { let k = s.entries[i].kind.clone(); s.entries[i].kind = s.entries[j].kind.clone(); s.entries[j].kind = k; "swap" }
            4 => { s.entries[i].kind = s.entries[j].kind.clone(); "copy-over" }
            5 => {
                // a further immutable file of the range under a non-canonical name, certified content
                let n = (i as u64) / 3;
                let k = s.entries[j].kind.clone();
                s.entries.push(Entry { name: format!("{n}.{}", rng.pick(&EXTS)), kind: if n >= 10000 { Kind::Dir } else { k } });
                "extra-unpadded-name"
            }
            6 => { s.entries.push(Entry { name: rng.pick(&["README", "00001.chunk.bak", "lock", ".chunk"]).to_string(), kind: Kind::File(fresh(rng)) }); "extra-non-immutable" }
            7 => { for name in trio(last + 1 + rng.below(2)) { s.entries.push(Entry { name, kind: Kind::File(fresh(rng)) }); } "extra-trio-beyond" }
            8 => { let name = s.entries[i].name.clone(); s.entries[i].kind = Kind::Dir; let _ = name; "directory-in-place-of-file" }
            9 => { s.entries.push(Entry { name: "abc.chunk".into(), kind: Kind::File(fresh(rng)) }); "non-numeric-stem" }
            10 => { let k = rng.range(0, last); s.entries.retain(|e| !e.name.starts_with(&format!("{k:05}."))); "trio-deleted" }
            _ => {
                // contents of the whole range moved one name down
                let snapshot: Vec<Kind> = s.entries.iter().map(|e| e.kind.clone()).collect();
                for &k in &ranged { if k > 0 && k < s.entries.len() { s.entries[k].kind = snapshot[k - 1].clone(); } }
                "shift-contents"
            }
        };
        kinds.push(format!("dir:{t}"));
    }
    if ntamper == 0 {
        kinds.push("dir:untouched".into());
    }
    s.kind = kinds.join("+");
    s
}

/// the known-finding class: the served list renames entries while keeping the order of the values
/// (file names are not covered by the signed Merkle root), directory contents moved accordingly
fn gen_shift(rng: &mut Rng, next: &mut u64) -> Scenario {
    let mut s = gen(rng, next);
    let last = (s.certified.len() as u64) / 3 - 1;
    let beacon = last.max(1);
    // rebuild an honest world with at least two trios, beacon = last
    let mut entries = vec![];
    let mut certified = BTreeMap::new();
    let mut honest = vec![];
    for n in 0..=beacon {
        for name in trio(n) {
            *next += 1;
            entries.push(Entry { name: name.clone(), kind: Kind::File(*next) });
            certified.insert(name.clone(), *next);
            honest.push((name, Dv::Of(*next)));
        }
    }
    let signed: Vec<Dv> = honest.iter().map(|(_, v)| v.clone()).collect();
    // served names: drop "00000.chunk", add "<beacon>.t" at the end; values in the signed order
    let mut names: Vec<String> = honest.iter().map(|(n, _)| n.clone()).collect();
    names.remove(0);
    names.push(format!("{beacon:05}.t"));
    let served: Vec<(String, Dv)> = names.into_iter().zip(signed.iter().cloned()).collect();
    // directory: every file from trio 1 on holds the content certified for the previous name
    let kinds: Vec<Kind> = entries.iter().map(|e| e.kind.clone()).collect();
    for k in 3..entries.len() {
        entries[k].kind = kinds[k - 1].clone();
    }
    let a = rng.range(1, beacon);
    s.range = if rng.coin() { Rg::From(a) } else { Rg::Range(a, rng.range(a, beacon)) };
    s.allow = rng.chance(1, 4);
    s.beacon = beacon;
    s.signed = signed;
    s.signed_other = s.other;
    s.source = Source::Served(Some(served), rng.coin());
    s.entries = entries;
    s.certified = certified;
    s.shifted_names = true;
    s.kind = "list:order-preserving-renaming+dir:contents-moved-accordingly".into();
    s
}

fn main() {
    let args = hc::parse_args();
    let mut rng = Rng::new(args.seed);
    let mut sink = Sink::new(&args);
    let work = PathBuf::from(std::env::var("VERIF_WORK").unwrap_or_else(|_| ".".into())).canonicalize().unwrap().join("c10-dirs");
    std::fs::create_dir_all(&work).unwrap();
    // the client's own temporary directory (digest download) goes under the work directory
    std::env::set_var("TMPDIR", &work);
    let rt = tokio::runtime::Builder::new_multi_thread().worker_threads(4).enable_all().build().unwrap();
    let logger = slog::Logger::root(slog::Discard, slog::o!());
    let downloader = Arc::new(HttpFileDownloader::new(mithril_client::feedback::FeedbackSender::new(&[]), logger.clone()).unwrap());
    let client = ClientBuilder::aggregator("http://127.0.0.1:9/aggregator", fake_keys::genesis_verification_key()[0])
        .with_http_file_downloader(downloader)
        .with_logger(logger)
        .build()
        .unwrap();
    let n = if args.thorough { 4000 } else { 260 };
    let mut next = 10u64;
    for k in 0..n {
        let s = if k % 20 == 7 { gen_shift(&mut rng, &mut next) } else { gen(&mut rng, &mut next) };
        let Some(id) = sink.wants() else { continue };
        let dir = work.join(format!("case{id}"));
        std::fs::create_dir_all(&dir).unwrap();
        let o = rt.block_on(run_scenario(&client, &dir, &s));
        let (holds, why) = judge(&s, &o);
        let known = if holds == Some(false) && s.shifted_names { Some("C10-unsigned-names".to_string()) } else { None };
        let tampered = !s.kind.contains("dir:untouched") || !s.kind.contains("list:honest");
        sink.push(Case {
            id,
            kind: s.kind.clone(),
            desc: serde_json::json!({
                "beacon": s.beacon, "range": format!("{:?}", s.range), "allow_missing": s.allow,
                "source": format!("{:?}", s.source), "signed": format!("{:?}", s.signed),
                "cert_other": s.other, "signed_other": s.signed_other,
                "directory": s.entries.iter().map(|e| match &e.kind { Kind::File(c) => format!("{}=#{}", e.name, c), Kind::Dir => format!("{}/", e.name) }).collect::<Vec<_>>(),
                "certified": s.certified,
                "verdict": o.verdict,
            }),
            model: Some(format!("C10.Model.run {}", coq_scenario(&s))),
            impl_obs: o.impl_obs.clone(),
            holds,
            why,
            known,
            nontrivial: s.entries.len() >= 6 && tampered,
            key: format!("{}/{}/{:?}/{}", s.kind, s.entries.len(), s.range, s.allow),
        });
        let _ = std::fs::remove_dir_all(&dir);
    }
    let _ = std::fs::remove_dir_all(&work);
    sink.finish();
}
