//! harness crate h_client (binaries in src/bin)
