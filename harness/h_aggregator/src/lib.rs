//! harness crate h_aggregator (binaries in src/bin): C14 / C15 drive the real leader
//! aggregator (the repository's own integration-test driver `RuntimeTester`, path-included so it
//! follows the working tree) with PRNG event histories and compare every step with the Coq model.
#![allow(unexpected_cfgs)]

#[path = "/repo/mithril-aggregator/tests/test_extensions/mod.rs"]
#[macro_use]
pub mod test_extensions;

pub mod drv;
