//! harness crate h_aggregator (binaries in src/bin)
