//! Event driver shared by the `c14` and `c15` binaries.
//!
//! One case = one history: protocol quorum k, n parties, an event list.  The list is generated
//! adaptively (the generator looks at the aggregator's current state to pick plausible events)
//! from the single `hc::Rng`; the same list is handed to the Coq model (`C14.Model.run`, for C15
//! with `Crash` events).  After every event the implementation is observed: state label,
//! certificate table projection (epoch, entity, parent index, signers, aggregate-key set,
//! next-key set), open-message flags + signers, signed-entity rows, buffered signatures.
//!
//! `holds` is judged from the database and the harness's own provenance, never from the model:
//! every stored certificate verifies with its chain under the public `MithrilCertificateVerifier`
//! (retriever = the certificate repository), no (type, beacon) certified twice, parent-link rule,
//! no epoch gap between consecutive certificates, aggregate key = key of the parties registered
//! for that epoch, signers had sent signatures reaching the quorum; C15 adds signed-entity /
//! certificate consistency after crash + restart and progress of a later round.
use std::collections::{BTreeMap, BTreeSet, HashMap};
use std::path::PathBuf;
use std::sync::Arc;
use std::time::Duration;

use chrono::Utc;
use hc::{coq, Case, Rng, Sink};
use mithril_aggregator::verif;
use mithril_aggregator::ServeCommandConfiguration;
use mithril_common::certificate_chain::{CertificateVerifier, MithrilCertificateVerifier};
use mithril_common::entities::{
    BlockNumber, CardanoDbBeacon, Certificate, ChainPoint, Epoch, ProtocolMessagePartKey,
    ProtocolParameters, SignedEntityType, SignedEntityTypeDiscriminants as D, SingleSignature,
    SlotNumber, StakeDistribution, TimePoint,
};
use mithril_common::messages::{RegisterSignatureMessageHttp, SignedEntityTypeMessage};
use mithril_common::protocol::ToMessage;
use mithril_aggregator::services::{FakeSignatureConsumer, SequentialSignatureProcessor, SignatureProcessor};
use mithril_common::test::builder::{
    MithrilFixture, MithrilFixtureBuilder, StakeDistributionGenerationMethod,
};

use crate::test_extensions::RuntimeTester;

#[derive(Clone, Copy, PartialEq, Eq, Debug)]
pub enum Mode {
    C14,
    C15,
}

const MAX_PARTIES: usize = 5;
const M: u64 = 20;
const PHI_F: f64 = 0.65;

// ------------------------------------------------------------------ case DSL

#[derive(Clone, Copy, PartialEq, Eq, PartialOrd, Ord, Hash, Debug)]
enum Ty {
    Msd,
    Cdb,
}
impl Ty {
    fn code(self) -> u64 {
        match self {
            Ty::Msd => 0,
            Ty::Cdb => 2,
        }
    }
    fn coq(self) -> &'static str {
        match self {
            Ty::Msd => "MSD",
            Ty::Cdb => "CDB",
        }
    }
    fn disc(self) -> D {
        match self {
            Ty::Msd => D::MithrilStakeDistribution,
            Ty::Cdb => D::CardanoDatabase,
        }
    }
}

#[derive(Clone, Copy, PartialEq, Eq, PartialOrd, Ord, Hash, Debug)]
struct Ent {
    ty: Ty,
    epoch: u64,
    imm: u64,
}
impl Ent {
    fn of(ty: Ty, epoch: u64, imm: u64) -> Ent {
        match ty {
            Ty::Msd => Ent { ty, epoch, imm: 0 },
            Ty::Cdb => Ent { ty, epoch, imm },
        }
    }
    fn real(&self) -> SignedEntityType {
        match self.ty {
            Ty::Msd => SignedEntityType::MithrilStakeDistribution(Epoch(self.epoch)),
            Ty::Cdb => SignedEntityType::CardanoDatabase(CardanoDbBeacon::new(self.epoch, self.imm)),
        }
    }
    fn from_real(t: &SignedEntityType) -> Option<Ent> {
        match t {
            SignedEntityType::MithrilStakeDistribution(e) => Some(Ent { ty: Ty::Msd, epoch: **e, imm: 0 }),
            SignedEntityType::CardanoDatabase(b) => {
                Some(Ent { ty: Ty::Cdb, epoch: *b.epoch, imm: b.immutable_file_number })
            }
            _ => None,
        }
    }
    fn coq(&self) -> String {
        format!(
            "{{| en_ty := {}; en_epoch := {}; en_imm := {} |}}",
            self.ty.coq(),
            coq::n(self.epoch),
            coq::n(self.imm)
        )
    }
    fn obs(&self) -> String {
        coq::ol(&[coq::on(self.ty.code()), coq::on(self.epoch), coq::on(self.imm)])
    }
    fn key(&self) -> u64 {
        self.ty.code() * 1_000_000 + self.epoch * 1000 + self.imm
    }
    fn json(&self) -> serde_json::Value {
        serde_json::json!({"type": self.ty.coq(), "epoch": self.epoch, "immutable": self.imm})
    }
}

#[derive(Clone, Copy, PartialEq, Eq, Debug)]
enum Cut {
    OmCreated,
    BufRegistered(u64),
    BufRemoved,
    CertInserted,
    OmCertified,
    ArtifactComputed,
    EntityStored,
}
impl Cut {
    fn coq(&self) -> String {
        match self {
            Cut::OmCreated => "CutOmCreated".into(),
            Cut::BufRegistered(n) => format!("(CutBufRegistered {})", n),
            Cut::BufRemoved => "CutBufRemoved".into(),
            Cut::CertInserted => "CutCertInserted".into(),
            Cut::OmCertified => "CutOmCertified".into(),
            Cut::ArtifactComputed => "CutArtifactComputed".into(),
            Cut::EntityStored => "CutEntityStored".into(),
        }
    }
    fn point(&self) -> (&'static str, u64) {
        match self {
            Cut::OmCreated => ("open_message_created", 0),
            Cut::BufRegistered(n) => ("buffered_signature_registered", *n),
            Cut::BufRemoved => ("buffered_signatures_removed", 0),
            Cut::CertInserted => ("certificate_inserted", 0),
            Cut::OmCertified => ("open_message_certified", 0),
            Cut::ArtifactComputed => ("artifact_computed", 0),
            Cut::EntityStored => ("signed_entity_stored", 0),
        }
    }
}

#[derive(Clone, Debug)]
enum Ev {
    Tick,
    NewEpoch,
    SkipEpoch,
    NewImm,
    Reg(u64),
    Sig { party: u64, set: Vec<u64>, signed: Ent, idxs: Vec<u64>, for_: Ent, dmq: bool },
    Expire(Ent),
    Restart,
    Crash(Cut),
}
impl Ev {
    fn coq(&self) -> String {
        match self {
            Ev::Tick => "Tick".into(),
            Ev::NewEpoch => "NewEpoch".into(),
            Ev::SkipEpoch => "SkipEpoch".into(),
            Ev::NewImm => "NewImm".into(),
            Ev::Reg(p) => format!("Reg {}", coq::n(*p)),
            Ev::Sig { party, set, signed, idxs, for_, dmq } => format!(
                "Sig {{| sg_party := {}; sg_set := {}; sg_signed := {}; sg_idxs := {}; sg_dmq := {} |}} {}",
                coq::n(*party),
                coq::list_n(set),
                signed.coq(),
                coq::list_n(idxs),
                if *dmq { "true" } else { "false" },
                for_.coq()
            ),
            Ev::Expire(x) => format!("Expire {}", x.coq()),
            Ev::Restart => "Restart".into(),
            Ev::Crash(c) => format!("Crash {}", c.coq()),
        }
    }
    fn json(&self) -> serde_json::Value {
        match self {
            Ev::Tick => serde_json::json!("tick"),
            Ev::NewEpoch => serde_json::json!("new-epoch"),
            Ev::SkipEpoch => serde_json::json!("skip-epoch(+2)"),
            Ev::NewImm => serde_json::json!("new-immutable"),
            Ev::Reg(p) => serde_json::json!({"register": p}),
            Ev::Sig { party, set, signed, idxs, for_, dmq } => serde_json::json!({"signature": {
                "party": party, "registration_set": set, "signed": signed.json(), "won_indexes": idxs, "announced_for": for_.json(),
                "ingress": if *dmq { "dmq" } else { "http" }}}),
            Ev::Expire(x) => serde_json::json!({"expire": x.json()}),
            Ev::Restart => serde_json::json!("restart"),
            Ev::Crash(c) => serde_json::json!({"crash_at": c.coq()}),
        }
    }
}

// ------------------------------------------------------------------ fixtures (real keys)

struct Fixtures {
    params: ProtocolParameters,
    stakes: Vec<(String, u64)>, // party index -> (party id, stake)
    subs: HashMap<Vec<u64>, MithrilFixture>,
    avk_to_set: HashMap<String, Vec<u64>>,
    party_index: HashMap<String, u64>,
}

impl Fixtures {
    fn new(k: u64) -> Fixtures {
        let params = ProtocolParameters { k, m: M, phi_f: PHI_F };
        let full = MithrilFixtureBuilder::default()
            .with_signers(MAX_PARTIES)
            .with_protocol_parameters(params.clone())
            .build();
        let stakes: Vec<(String, u64)> =
            full.signers_with_stake().iter().map(|s| (s.party_id.clone(), s.stake)).collect();
        let party_index = stakes.iter().enumerate().map(|(i, (p, _))| (p.clone(), i as u64)).collect();
        let mut f = Fixtures { params, stakes, subs: HashMap::new(), avk_to_set: HashMap::new(), party_index };
        for mask in 1u32..(1 << MAX_PARTIES) {
            let set: Vec<u64> = (0..MAX_PARTIES as u64).filter(|i| mask & (1 << i) != 0).collect();
            let sd: StakeDistribution =
                set.iter().map(|i| f.stakes[*i as usize].clone()).collect::<BTreeMap<_, _>>().into_iter().collect();
            let fx = MithrilFixtureBuilder::default()
                .with_protocol_parameters(f.params.clone())
                .with_stake_distribution(StakeDistributionGenerationMethod::Custom(sd))
                .build();
            f.avk_to_set.insert(fx.compute_and_encode_concatenation_aggregate_verification_key(), set.clone());
            f.subs.insert(set, fx);
        }
        f
    }
    fn sub(&self, set: &[u64]) -> &MithrilFixture {
        &self.subs[set]
    }
    fn set_of_avk(&self, avk: &str) -> Vec<u64> {
        self.avk_to_set.get(avk).cloned().unwrap_or_else(|| vec![99])
    }
    fn index_of(&self, party_id: &str) -> u64 {
        self.party_index.get(party_id).copied().unwrap_or(99)
    }
    fn sign(&self, party: u64, set: &[u64], msg: &mithril_common::entities::ProtocolMessage) -> Option<SingleSignature> {
        let fx = self.sub(set);
        let pid = &self.stakes[party as usize].0;
        fx.signers_fixture().iter().find(|s| &s.signer_with_stake.party_id == pid).and_then(|s| s.sign(msg))
    }
}

// ------------------------------------------------------------------ observation

#[derive(Clone, Debug, Default)]
struct CertRow {
    hash: String,
    epoch: u64,
    ent: Option<Ent>,
    parent: Option<usize>,
    signers: Vec<u64>,
    set: Vec<u64>,
    next: Vec<u64>,
}
#[derive(Clone, Debug)]
struct OmRow {
    ent: Ent,
    certified: bool,
    expired: bool,
    signers: Vec<u64>,
}
#[derive(Clone, Debug, Default)]
struct Snap {
    label: String,
    certs: Vec<CertRow>,
    oms: Vec<OmRow>,
    ents: Vec<(Ent, Option<usize>)>,
    bufs: Vec<(u64, u64)>,
}

fn label_code(l: &str) -> u64 {
    match l {
        "idle" => 0,
        "ready" => 1,
        "signing" => 2,
        "blocked-epoch-gap" => 3,
        "blocked-genesis-epoch" => 4,
        _ => 9,
    }
}

impl Snap {
    fn obs(&self) -> String {
        let certs: Vec<String> = self
            .certs
            .iter()
            .map(|c| {
                coq::ol(&[
                    coq::on(c.epoch),
                    coq::oopt(c.ent.map(|e| e.obs())),
                    coq::oopt(c.parent.map(|j| coq::on(j as u64))),
                    coq::oln(&c.signers),
                    coq::oln(&c.set),
                    coq::oln(&c.next),
                ])
            })
            .collect();
        let oms: Vec<String> = self
            .oms
            .iter()
            .map(|o| coq::ol(&[o.ent.obs(), coq::ob(o.certified), coq::ob(o.expired), coq::oln(&o.signers)]))
            .collect();
        let ents: Vec<String> = self
            .ents
            .iter()
            .map(|(e, j)| coq::ol(&[e.obs(), coq::on(j.map(|j| j as u64).unwrap_or(9999))]))
            .collect();
        let bufs: Vec<String> = self.bufs.iter().map(|(t, p)| coq::ol(&[coq::on(*t), coq::on(*p)])).collect();
        coq::ol(&[coq::on(label_code(&self.label)), coq::ol(&certs), coq::ol(&oms), coq::ol(&ents), coq::ol(&bufs)])
    }
}

fn type_of_id(id: i64) -> Option<Ty> {
    match id {
        0 => Some(Ty::Msd),
        4 => Some(Ty::Cdb),
        _ => None,
    }
}
fn ent_of_row(type_id: i64, beacon: &str) -> Option<Ent> {
    let ty = type_of_id(type_id)?;
    let v: serde_json::Value = serde_json::from_str(beacon).ok()?;
    match ty {
        Ty::Msd => Some(Ent { ty, epoch: v.as_u64()?, imm: 0 }),
        Ty::Cdb => Some(Ent { ty, epoch: v.get("epoch")?.as_u64()?, imm: v.get("immutable_file_number")?.as_u64()? }),
    }
}

/// a panic inside the polled future becomes `Err(())` (an observation, not a harness crash)
struct CatchUnwind<F>(std::pin::Pin<Box<F>>);
impl<F: std::future::Future> std::future::Future for CatchUnwind<F> {
    type Output = Result<F::Output, ()>;
    fn poll(mut self: std::pin::Pin<&mut Self>, cx: &mut std::task::Context<'_>) -> std::task::Poll<Self::Output> {
        let inner = &mut self.0;
        match std::panic::catch_unwind(std::panic::AssertUnwindSafe(|| inner.as_mut().poll(cx))) {
            Ok(std::task::Poll::Ready(v)) => std::task::Poll::Ready(Ok(v)),
            Ok(std::task::Poll::Pending) => std::task::Poll::Pending,
            Err(_) => std::task::Poll::Ready(Err(())),
        }
    }
}
fn guarded<F: std::future::Future>(f: F) -> CatchUnwind<F> {
    CatchUnwind(Box::pin(f))
}

// ------------------------------------------------------------------ the world (one history)

struct World<'a> {
    tester: RuntimeTester,
    cfg: ServeCommandConfiguration,
    db: PathBuf,
    fx: &'a Fixtures,
    n: u64,
    /// provenance: won indexes of genuinely valid-looking signatures sent per (entity, registration set)
    sent: HashMap<(Ent, Vec<u64>), BTreeMap<u64, BTreeSet<u64>>>,
    crashes_reached: Vec<Cut>,
    /// provenance: entities whose open message passed its expiry while it was not certified
    expired: BTreeSet<Ent>,
    /// provenance: parties whose registration the registerer accepted, by recording epoch
    /// (the verification-key store itself may be pruned when a retention limit is configured)
    own_regs: BTreeMap<u64, BTreeSet<u64>>,
    /// the aggregator's own code panicked during this event (an observation: the property fails)
    panicked: Option<String>,
}

fn base_config(dir: &PathBuf, params: &ProtocolParameters, retention: Option<usize>) -> ServeCommandConfiguration {
    ServeCommandConfiguration {
        protocol_parameters: Some(params.clone()),
        store_retention_limit: retention,
        signed_entity_types: Some(D::CardanoDatabase.to_string()),
        data_stores_directory: dir.join("stores"),
        ..ServeCommandConfiguration::new_sample(dir.join("snap"))
    }
}

impl<'a> World<'a> {
    async fn new(fx: &'a Fixtures, n: u64, dir: PathBuf, retention: Option<usize>) -> World<'a> {
        let _ = std::fs::remove_dir_all(&dir);
        std::fs::create_dir_all(&dir).unwrap();
        let cfg = base_config(&dir, &fx.params, retention);
        let db = dir.join("stores").join("aggregator.sqlite3");
        let mut tester = RuntimeTester::build(
            TimePoint {
                epoch: Epoch(1),
                immutable_file_number: 1,
                chain_point: ChainPoint {
                    slot_number: SlotNumber(10),
                    block_number: BlockNumber(100),
                    block_hash: "block_hash-100".to_string(),
                },
            },
            cfg.clone(),
        )
        .await;
        let all: Vec<u64> = (0..n).collect();
        let genesis_fixture = fx.sub(&all);
        tester.init_state_from_fixture(genesis_fixture).await.unwrap();
        tester.register_genesis_certificate(genesis_fixture).await.unwrap();
        // the digester double starts with a placeholder Merkle tree: bring it to the state the tester keeps
        // for the current time point, so that a database open message created before any signature was
        // generated commits to the same message the signers compute (found by the thorough tier)
        tester.update_digester_digest().await;
        tester.update_digester_merkle_tree().await;
        let mut own_regs: BTreeMap<u64, BTreeSet<u64>> = BTreeMap::new();
        own_regs.insert(0, all.iter().copied().collect());
        own_regs.insert(1, all.iter().copied().collect());
        World { tester, cfg, db, fx, n, sent: HashMap::new(), crashes_reached: vec![], expired: BTreeSet::new(), own_regs, panicked: None }
    }

    async fn wait_artifacts(&self) {
        for _ in 0..20000 {
            if !self.tester.dependencies.signed_entity_type_lock.has_locked_entities().await {
                // let the spawned task finish its epilogue
                tokio::task::yield_now().await;
                return;
            }
            tokio::time::sleep(Duration::from_millis(1)).await;
        }
        panic!("artifact task never released its lock");
    }

    async fn env(&self) -> (u64, u64) {
        let tp = self.tester.observer.current_time_point().await;
        (*tp.epoch, tp.immutable_file_number)
    }

    async fn restart(&mut self) {
        self.tester.rebuild(self.cfg.clone()).await;
    }

    /// protocol message the aggregator's own signable builder computes for `x` under its current
    /// epoch data (None: epoch data not computed); also returns the epoch of that data
    async fn message_for(&mut self, x: Ent) -> Option<(mithril_common::entities::ProtocolMessage, u64)> {
        if x.ty == Ty::Cdb {
            self.tester.digester.update_digest(format!("n{}-e{}-i{}", self.tester.network, x.epoch, x.imm)).await;
            self.tester.digester.update_merkle_tree(vec![x.imm.to_string()]).await;
        }
        let r = self.tester.dependencies.signable_builder_service.compute_protocol_message(x.real()).await;
        self.tester.update_digester_digest().await;
        self.tester.update_digester_merkle_tree().await;
        let msg = r.ok()?;
        let ep = msg.get_message_part(&ProtocolMessagePartKey::CurrentEpoch)?.parse::<u64>().ok()?;
        Some((msg, ep))
    }

    fn own_set(&self, epoch: u64) -> Vec<u64> {
        self.own_regs.get(&epoch).map(|s| s.iter().copied().collect()).unwrap_or_default()
    }

    async fn registered(&self, epoch: u64) -> Vec<u64> {
        let mut v: Vec<u64> = self
            .tester
            .dependencies
            .verification_key_store
            .get_signers(Epoch(epoch))
            .await
            .ok()
            .flatten()
            .unwrap_or_default()
            .iter()
            .map(|s| self.fx.index_of(&s.party_id))
            .collect();
        v.sort();
        v
    }

    async fn exec(&mut self, ev: &Ev) {
        match ev {
            Ev::Tick => {
                if guarded(self.tester.cycle()).await.is_err() {
                    self.panicked = Some("the aggregator panicked during a cycle".into());
                }
                self.wait_artifacts().await;
            }
            Ev::Crash(c) => {
                let (name, occ) = c.point();
                verif::arm(name, occ);
                if guarded(self.tester.cycle()).await.is_err() {
                    self.panicked = Some("the aggregator panicked during a cycle".into());
                }
                self.wait_artifacts().await;
                if verif::reset().is_some() {
                    self.crashes_reached.push(*c);
                    self.restart().await;
                }
            }
            Ev::NewEpoch => {
                self.tester.increase_epoch().await.unwrap();
            }
            Ev::SkipEpoch => {
                self.tester.increase_epoch().await.unwrap();
                self.tester.increase_epoch().await.unwrap();
            }
            Ev::NewImm => {
                self.tester.increase_immutable_number().await.unwrap();
            }
            Ev::Reg(p) => {
                let all: Vec<u64> = (0..MAX_PARTIES as u64).collect();
                let pid = &self.fx.stakes[*p as usize].0;
                let sf: Vec<_> = self
                    .fx
                    .sub(&all)
                    .signers_fixture()
                    .into_iter()
                    .filter(|s| &s.signer_with_stake.party_id == pid)
                    .collect();
                let recording = self.env().await.0 + 1;
                if self.tester.register_signers(&sf).await.is_ok() {
                    self.own_regs.entry(recording).or_default().insert(*p);
                }
            }
            Ev::Sig { .. } => unreachable!("signatures are executed when generated"),
            Ev::Expire(x) => {
                let repo = self.tester.open_message_repository.clone();
                if let Ok(Some(mut om)) = repo.get_open_message(&x.real()).await {
                    om.expires_at = Some(Utc::now() - chrono::Duration::seconds(30));
                    let already_sealed = self
                        .tester
                        .dependencies
                        .certificate_repository
                        .get_latest_certificates::<Certificate>(100_000)
                        .await
                        .unwrap()
                        .iter()
                        .any(|c| !c.is_genesis() && c.signed_entity_type() == x.real());
                    if !om.is_certified && !already_sealed {
                        self.expired.insert(*x);
                    }
                    repo.update_open_message(&om).await.unwrap();
                }
            }
            Ev::Restart => self.restart().await,
        }
    }

    /// HTTP ingress: the real `POST /register-signatures` handler (authenticates against the announced
    /// signed message, then registers for `for_`).  DMQ ingress: the real `SequentialSignatureProcessor`
    /// fed by a one-batch consumer (marks the signature authenticated without verification).
    async fn send_signature(&mut self, sig: SingleSignature, signed_message: &str, for_: Ent, dmq: bool) {
        if dmq {
            let consumer = Arc::new(FakeSignatureConsumer::new(vec![Ok(vec![(sig, for_.real())])]));
            let (_stop_tx, stop_rx) = tokio::sync::watch::channel(());
            let processor = SequentialSignatureProcessor::new(
                consumer,
                self.tester.dependencies.certifier_service.clone(),
                stop_rx,
                self.tester.metrics_service.clone(),
                Duration::from_millis(1),
                slog::Logger::root(slog::Discard, slog::o!()),
            );
            if guarded(processor.process_signatures()).await.is_err() {
                self.panicked = Some("the aggregator panicked while processing a DMQ signature".into());
            }
        } else {
            let message = RegisterSignatureMessageHttp {
                signed_entity_type: SignedEntityTypeMessage::Known(for_.real()),
                party_id: sig.party_id.clone(),
                signature: sig.signature.to_json_hex().unwrap(),
                won_indexes: sig.won_indexes.clone(),
                signed_message: signed_message.to_string(),
            };
            if guarded(verif::http_register_signature(&self.tester.dependencies, message)).await.is_err() {
                self.panicked = Some("the aggregator panicked in the register-signatures handler".into());
            }
        }
    }

    async fn snapshot(&self) -> Snap {
        let label = self.tester.runtime.state_label().to_string();
        let mut certs: Vec<Certificate> = self
            .tester
            .dependencies
            .certificate_repository
            .get_latest_certificates::<Certificate>(100_000)
            .await
            .unwrap();
        certs.reverse();
        let pos: HashMap<String, usize> = certs.iter().enumerate().map(|(i, c)| (c.hash.clone(), i)).collect();
        let rows: Vec<CertRow> = certs
            .iter()
            .map(|c| {
                let ent = if c.is_genesis() { None } else { Ent::from_real(&c.signed_entity_type()) };
                let mut signers: Vec<u64> = c.metadata.signers.iter().map(|s| self.fx.index_of(&s.party_id)).collect();
                signers.sort();
                let avk = c.aggregate_verification_key.to_json_hex().unwrap_or_default();
                let next = c
                    .protocol_message
                    .get_message_part(&ProtocolMessagePartKey::NextAggregateVerificationKey)
                    .cloned()
                    .unwrap_or_default();
                CertRow {
                    hash: c.hash.clone(),
                    epoch: *c.epoch,
                    ent,
                    parent: if c.is_genesis() { None } else { Some(pos.get(&c.previous_hash).copied().unwrap_or(9999)) },
                    signers: if c.is_genesis() { vec![] } else { signers },
                    set: self.fx.set_of_avk(&avk),
                    next: self.fx.set_of_avk(&next),
                }
            })
            .collect();
        // raw read-only look at the other tables
        let conn = sqlite::Connection::open_with_flags(&self.db, sqlite::OpenFlags::new().with_read_only()).unwrap();
        let mut oms: Vec<(String, OmRow)> = vec![];
        {
            let mut st = conn
                .prepare("select open_message_id, signed_entity_type_id, beacon, is_certified, is_expired from open_message")
                .unwrap();
            while let Ok(sqlite::State::Row) = st.next() {
                let id: String = st.read(0).unwrap();
                let t: i64 = st.read(1).unwrap();
                let b: String = st.read(2).unwrap();
                let c: i64 = st.read(3).unwrap();
                let e: i64 = st.read(4).unwrap();
                let ent = ent_of_row(t, &b).unwrap_or(Ent { ty: Ty::Msd, epoch: 999, imm: 999 });
                oms.push((id, OmRow { ent, certified: c != 0, expired: e != 0, signers: vec![] }));
            }
        }
        {
            let mut st = conn.prepare("select open_message_id, signer_id from single_signature").unwrap();
            while let Ok(sqlite::State::Row) = st.next() {
                let id: String = st.read(0).unwrap();
                let p: String = st.read(1).unwrap();
                if let Some((_, o)) = oms.iter_mut().find(|(i, _)| *i == id) {
                    o.signers.push(self.fx.index_of(&p));
                }
            }
        }
        let mut oms: Vec<OmRow> = oms.into_iter().map(|(_, mut o)| { o.signers.sort(); o }).collect();
        oms.sort_by_key(|o| o.ent.key());
        let mut ents: Vec<(Ent, Option<usize>)> = vec![];
        {
            let mut st = conn.prepare("select signed_entity_type_id, beacon, certificate_id from signed_entity").unwrap();
            while let Ok(sqlite::State::Row) = st.next() {
                let t: i64 = st.read(0).unwrap();
                let b: String = st.read(1).unwrap();
                let c: String = st.read(2).unwrap();
                let ent = ent_of_row(t, &b).unwrap_or(Ent { ty: Ty::Msd, epoch: 999, imm: 999 });
                ents.push((ent, pos.get(&c).copied()));
            }
        }
        ents.sort_by_key(|(e, _)| e.key());
        let mut bufs: Vec<(u64, u64)> = vec![];
        {
            let mut st = conn.prepare("select signed_entity_type_id, party_id from buffered_single_signature").unwrap();
            while let Ok(sqlite::State::Row) = st.next() {
                let t: i64 = st.read(0).unwrap();
                let p: String = st.read(1).unwrap();
                bufs.push((type_of_id(t).map(|t| t.code()).unwrap_or(9), self.fx.index_of(&p)));
            }
        }
        bufs.sort();
        Snap { label, certs: rows, oms, ents, bufs }
    }
}

// ------------------------------------------------------------------ oracle (independent of the model)

struct Verdict {
    ok: bool,
    why: Option<String>,
    known: Option<String>,
}

async fn judge_store(w: &World<'_>, snap: &Snap, k: u64, mode: Mode) -> Result<(), String> {
    // (1) every stored certificate verifies with its chain under the public verifier
    let verifier = MithrilCertificateVerifier::new(
        slog::Logger::root(slog::Discard, slog::o!()),
        w.tester.dependencies.certificate_repository.clone(),
        Arc::new(w.tester.genesis_signer.create_verifier()),
    );
    let certs: Vec<Certificate> =
        w.tester.dependencies.certificate_repository.get_latest_certificates::<Certificate>(100_000).await.unwrap();
    for c in &certs {
        if let Err(e) = verifier.verify_certificate_chain(c.clone()).await {
            return Err(format!("stored certificate {} (epoch {}) does not verify with its chain: {:#}", &c.hash[..12], c.epoch, e));
        }
    }
    // (1b) fields of every multi-signature certificate: epoch = epoch of its entity and of the message it
    // signs, protocol parameters = the parameters in force (constant over a history), the signed message
    // is the hash of its protocol message, sealed after it was initiated
    for c in &certs {
        if c.is_genesis() {
            continue;
        }
        let x = Ent::from_real(&c.signed_entity_type());
        if let Some(x) = x {
            if x.epoch != *c.epoch {
                return Err(format!("certificate {} for {:?} carries epoch {}", &c.hash[..12], x, c.epoch));
            }
        }
        let cur_ep = c.protocol_message.get_message_part(&ProtocolMessagePartKey::CurrentEpoch).cloned();
        if cur_ep != Some(c.epoch.to_string()) {
            return Err(format!("certificate {} of epoch {} signs a message of epoch {:?}", &c.hash[..12], c.epoch, cur_ep));
        }
        if c.metadata.protocol_parameters != w.fx.params {
            return Err(format!("certificate {} carries protocol parameters {:?}, in force: {:?}", &c.hash[..12], c.metadata.protocol_parameters, w.fx.params));
        }
        let npp = c.protocol_message.get_message_part(&ProtocolMessagePartKey::NextProtocolParameters).cloned();
        if npp != Some(w.fx.params.compute_hash()) {
            return Err(format!("certificate {} signs next protocol parameters {:?}, in force: {}", &c.hash[..12], npp, w.fx.params.compute_hash()));
        }
        if c.signed_message != c.protocol_message.compute_hash() {
            return Err(format!("certificate {}: signed message is not the hash of its protocol message", &c.hash[..12]));
        }
        if c.metadata.sealed_at < c.metadata.initiated_at {
            return Err(format!("certificate {} sealed before it was initiated", &c.hash[..12]));
        }
    }
    // (2) no (type, beacon) certified twice
    let mut seen: HashMap<Ent, usize> = HashMap::new();
    for (i, c) in snap.certs.iter().enumerate() {
        if let Some(x) = c.ent {
            if let Some(j) = seen.insert(x, i) {
                return Err(format!("signed entity {:?} certified twice (certificate rows {} and {})", x, j, i));
            }
        }
    }
    // (3) parent-link rule, (4) no gap between consecutive certificates, one genesis
    for (i, c) in snap.certs.iter().enumerate() {
        if i > 0 {
            let prev = &snap.certs[i - 1];
            if c.epoch < prev.epoch || c.epoch - prev.epoch > 1 {
                return Err(format!("certificate row {} (epoch {}) follows a certificate of epoch {}: gap in the chain", i, c.epoch, prev.epoch));
            }
        }
        match c.ent {
            None => {
                if c.parent.is_some() {
                    return Err(format!("genesis row {} has a parent", i));
                }
            }
            Some(_) => {
                let first_same = snap.certs[..i].iter().position(|d| d.epoch == c.epoch);
                let expected = match first_same {
                    Some(j) => Some(j),
                    None => snap.certs[..i].iter().position(|d| d.epoch + 1 == c.epoch),
                };
                if c.parent != expected || expected.is_none() {
                    return Err(format!("certificate row {} (epoch {}) links to row {:?}, the parent-link rule requires {:?}", i, c.epoch, c.parent, expected));
                }
            }
        }
    }
    // (5) keys of the epoch and quorum, from the stores and the harness's own record of what was sent
    for (i, c) in snap.certs.iter().enumerate() {
        let Some(x) = c.ent else { continue };
        let cur = w.own_set(c.epoch - 1);
        let nxt = w.own_set(c.epoch);
        for (ep, own) in [(c.epoch - 1, &cur), (c.epoch, &nxt)] {
            let stored = w.registered(ep).await;
            // the store may have been pruned (retention limit) but never for the epochs still in use
            if !stored.is_empty() && &stored != own {
                return Err(format!("verification-key store holds parties {:?} for epoch {}, accepted registrations: {:?}", stored, ep, own));
            }
        }
        if c.set != cur {
            return Err(format!("certificate row {} carries the aggregate key of parties {:?}, registered for its epoch: {:?}", i, c.set, cur));
        }
        if c.next != nxt {
            return Err(format!("certificate row {} signs next aggregate key of parties {:?}, registered for the next epoch: {:?}", i, c.next, nxt));
        }
        let sent = w.sent.get(&(x, cur.clone())).cloned().unwrap_or_default();
        let mut union: BTreeSet<u64> = BTreeSet::new();
        for p in &c.signers {
            match sent.get(p) {
                Some(ix) if cur.contains(p) => union.extend(ix.iter().copied()),
                _ => return Err(format!("certificate row {} lists signer {} which is not a registered party that signed {:?}", i, p, x)),
            }
        }
        if (union.len() as u64) < k {
            return Err(format!("certificate row {} for {:?} sealed with {} distinct won indexes from its signers, quorum is {}", i, x, union.len(), k));
        }
        // the signers listed by the certificate are exactly the parties whose single signatures the open
        // message holds (nothing is added to a certified message; the row lives until the next epoch's clean-up)
        if let Some(o) = snap.oms.iter().find(|o| o.ent == x) {
            if o.certified && o.signers != c.signers && snap.certs.iter().filter(|d| d.ent == Some(x)).count() == 1 {
                return Err(format!("certificate row {} for {:?} lists signers {:?}, its open message holds the signatures of {:?}", i, x, c.signers, o.signers));
            }
        }
    }
    // (6) artifacts reference a stored certificate certifying exactly that entity; one artifact per entity
    let mut seen_e: BTreeSet<Ent> = BTreeSet::new();
    for (e, j) in &snap.ents {
        if !seen_e.insert(*e) {
            return Err(format!("signed entity {:?} has two artifacts", e));
        }
        match j {
            Some(j) if snap.certs[*j].ent == Some(*e) => {}
            other => return Err(format!("artifact of {:?} references certificate row {:?} which does not certify it", e, other)),
        }
    }
    // (7) nothing is sealed for a message that passed its expiry uncertified; a certified flag has its certificate
    for (i, c) in snap.certs.iter().enumerate() {
        if let Some(x) = c.ent {
            if w.expired.contains(&x) {
                return Err(format!("certificate row {} was sealed for {:?} whose open message had expired", i, x));
            }
        }
    }
    for o in &snap.oms {
        if o.certified && !snap.certs.iter().any(|c| c.ent == Some(o.ent)) {
            return Err(format!("open message {:?} is marked certified but no certificate for it is stored", o.ent));
        }
    }
    let _ = mode;
    Ok(())
}

// ------------------------------------------------------------------ generation + execution of one history

struct History {
    events: Vec<Ev>,
    obs: Vec<String>,
    verdict: Verdict,
    nontrivial: bool,
    kinds: BTreeSet<&'static str>,
    n_certs: usize,
}

/// Directed scenario run between the prefix and the random tail of a history (the sequences the
/// property's quantifier names; each has random parameters and is followed by random events).
#[derive(Clone, Copy, PartialEq, Eq, Debug)]
enum Scn {
    Random,
    /// certify, restart in the middle of the epoch, re-send every signature (route and DMQ)
    RestartResend,
    /// half the signers signed, the epoch changes, the others sign, signers ahead of the aggregator sign
    /// the next epoch's entities (buffered), the aggregator follows
    EpochChangeSigning,
    /// expiry before / between / after the signatures of a round that reaches the quorum
    ExpiryRace,
    /// signatures of the database arrive while the stake distribution is being signed (two types
    /// interleaved, buffered, handed over, sealed from the buffer alone)
    BufferedInterleave,
    /// different registration sets in three consecutive epochs, signatures under the previous set
    SignerSetChange,
    /// three certificates in an epoch, then the first of the next epoch
    ThreeCertsThenEpoch,
    /// epoch skipped while certificates exist, restart while blocked
    SkipEpochRestart,
    /// restart with a half-finished round
    RestartInSigning,
    /// DMQ ingress: unauthenticated garbage (foreign set, other entity, early)
    DmqGarbage,
    /// C15: a crash that certainly reaches the cut, restart, re-sent signatures, later rounds
    CutAt(Cut),
}
impl Scn {
    fn name(&self) -> &'static str {
        match self {
            Scn::Random => "random",
            Scn::RestartResend => "restart-resend",
            Scn::EpochChangeSigning => "epoch-change-while-signing",
            Scn::ExpiryRace => "expiry-race",
            Scn::BufferedInterleave => "buffered-interleave",
            Scn::SignerSetChange => "signer-set-change",
            Scn::ThreeCertsThenEpoch => "three-certificates-then-epoch",
            Scn::SkipEpochRestart => "skip-epoch-restart",
            Scn::RestartInSigning => "restart-in-signing",
            Scn::DmqGarbage => "dmq-garbage",
            Scn::CutAt(Cut::OmCreated) => "crash-open-message-created",
            Scn::CutAt(Cut::BufRegistered(_)) => "crash-buffered-signature-registered",
            Scn::CutAt(Cut::BufRemoved) => "crash-buffered-signatures-removed",
            Scn::CutAt(Cut::CertInserted) => "crash-certificate-inserted",
            Scn::CutAt(Cut::OmCertified) => "crash-open-message-certified",
            Scn::CutAt(Cut::ArtifactComputed) => "crash-artifact-computed",
            Scn::CutAt(Cut::EntityStored) => "crash-signed-entity-stored",
        }
    }
}

#[allow(clippy::too_many_arguments, unused_must_use)]
async fn run_history(fx: &Fixtures, k: u64, n: u64, mode: Mode, scn: Scn, retention: Option<usize>, len: usize, rng: &mut Rng, dir: PathBuf) -> History {
    let mut w = World::new(fx, n, dir, retention).await;
    let mut events: Vec<Ev> = vec![];
    let mut obs: Vec<String> = vec![];
    let mut kinds: BTreeSet<&'static str> = BTreeSet::new();
    let mut failure: Option<String> = None;
    let mut epoch_moves = 0u32;
    let mut snap = w.snapshot().await;

    // push + execute + observe one non-signature event
    macro_rules! step {
        ($ev:expr) => {{
            let ev: Ev = $ev;
            let before = snap.certs.len();
            w.exec(&ev).await;
            if let Some(p) = w.panicked.take() {
                failure.get_or_insert(format!("{} (event {} of the history: {:?})", p, events.len(), ev));
            }
            snap = w.snapshot().await;
            obs.push(snap.obs());
            if snap.certs.len() > before + 1 {
                failure.get_or_insert(format!("{} certificates appeared in one step", snap.certs.len() - before));
            }
            if snap.certs.len() < before {
                failure.get_or_insert(format!("{} stored certificates disappeared in one step", before - snap.certs.len()));
            }
            if snap.certs.len() > before {
                // sealed in the epoch the chain is in: a certificate is never made for a past epoch
                let chain_epoch = w.env().await.0;
                for c in &snap.certs[before..] {
                    if c.epoch != chain_epoch {
                        failure.get_or_insert(format!("a certificate of epoch {} was sealed while the chain is in epoch {}", c.epoch, chain_epoch));
                    }
                }
                if !matches!(ev, Ev::Tick | Ev::Crash(_)) {
                    failure.get_or_insert(format!("a certificate was stored by event {:?}, not by a cycle", ev));
                }
            }
            events.push(ev);
        }};
    }
    // generate + send one signature; returns the won indexes when one was produced.  A signer may be
    // one epoch ahead of the aggregator (the chain moved, the aggregator has not cycled yet): it then
    // signs the message of the new epoch (epoch + next aggregate key of the new epoch's registrations)
    macro_rules! sign {
        ($party:expr, $set:expr, $signed:expr, $for_:expr, $dmq:expr) => {{
            let (party, set, signed, for_, dmq): (u64, Vec<u64>, Ent, Ent, bool) = ($party, $set, $signed, $for_, $dmq);
            let mut produced: Option<Vec<u64>> = None;
            if !set.is_empty() && set.contains(&party) {
                if let Some((mut msg, ep)) = w.message_for(signed).await {
                    let mut ok = ep == signed.epoch;
                    if !ok && ep + 1 == signed.epoch && w.env().await.0 == signed.epoch {
                        let nxt = w.registered(signed.epoch).await;
                        if !nxt.is_empty() {
                            msg.set_message_part(ProtocolMessagePartKey::CurrentEpoch, signed.epoch.to_string());
                            msg.set_message_part(
                                ProtocolMessagePartKey::NextAggregateVerificationKey,
                                fx.sub(&nxt).compute_and_encode_concatenation_aggregate_verification_key(),
                            );
                            ok = true;
                        }
                    }
                    if ok {
                        if let Some(sig) = fx.sign(party, &set, &msg) {
                            let idxs: Vec<u64> = sig.won_indexes.clone();
                            w.sent.entry((signed, set.clone())).or_default().entry(party).or_default().extend(idxs.iter().copied());
                            w.send_signature(sig, &msg.to_message(), for_, dmq).await;
                            if let Some(p) = w.panicked.take() {
                                failure.get_or_insert(format!("{} (event {} of the history)", p, events.len()));
                            }
                            let before = snap.certs.len();
                            snap = w.snapshot().await;
                            if snap.certs.len() != before {
                                failure.get_or_insert("the certificate table changed when a single signature was received".to_string());
                            }
                            obs.push(snap.obs());
                            events.push(Ev::Sig { party, set, signed, idxs: idxs.clone(), for_, dmq });
                            if dmq {
                                kinds.insert("signature-dmq");
                            }
                            if signed.epoch == ep + 1 {
                                kinds.insert("signature-next-epoch-early");
                            }
                            produced = Some(idxs);
                        }
                    }
                }
            }
            produced
        }};
    }
    // first non-certified non-expired open message among the chain's current entities
    macro_rules! cur_target {
        () => {{
            let (e, i) = w.env().await;
            [Ent::of(Ty::Msd, e, 0), Ent::of(Ty::Cdb, e, i)]
                .into_iter()
                .find(|x| snap.oms.iter().any(|o| o.ent == *x && !o.certified && !o.expired))
        }};
    }
    // the parties registered for x's epoch sign x (part 0: all, 1: first half, 2: second half)
    macro_rules! round {
        ($x:expr, $part:expr, $dmq:expr) => {{
            let x: Ent = $x;
            let part: u32 = $part;
            let dmq: bool = $dmq;
            let set = w.registered(x.epoch.saturating_sub(1)).await;
            let half = (set.len() + 1) / 2;
            for (j, p) in set.clone().into_iter().enumerate() {
                let take = match part {
                    0 => true,
                    1 => j < half,
                    _ => j >= half,
                };
                if take {
                    let _ = sign!(p, set.clone(), x, x, dmq);
                }
            }
        }};
    }
    macro_rules! ticks_until {
        ($label:expr, $max:expr) => {{
            let mut left: u32 = $max;
            while snap.label != $label && left > 0 {
                step!(Ev::Tick);
                left -= 1;
            }
            snap.label == $label
        }};
    }
    // one honest round: to Signing, everyone signs the target, a cycle
    macro_rules! certify {
        () => {{
            let before = snap.certs.len();
            if ticks_until!("signing", 4) {
                if let Some(x) = cur_target!() {
                    round!(x, 0, false);
                }
                step!(Ev::Tick);
            }
            snap.certs.len() > before
        }};
    }
    macro_rules! reg_most {
        () => {{
            for p in 0..n {
                if rng.chance(5, 6) {
                    step!(Ev::Reg(p));
                }
            }
        }};
    }

    // prefix: leave the genesis epoch with some registrations (mostly), or fully random
    let scripted = scn != Scn::Random || rng.chance(9, 10);
    if scripted {
        step!(Ev::Tick);
        let everyone = (scn != Scn::Random && scn != Scn::SignerSetChange) || rng.chance(2, 3);
        let spared = if scn == Scn::SignerSetChange { rng.below(n) } else { 99 };
        for p in 0..n {
            if p != spared && (everyone || scn == Scn::SignerSetChange || rng.chance(2, 3)) {
                step!(Ev::Reg(p));
            }
        }
        step!(Ev::NewEpoch);
        epoch_moves += 1;
        step!(Ev::Tick);
        step!(Ev::Tick);
    }

    // directed part
    kinds.insert(scn.name());
    match scn {
        Scn::Random => {}
        Scn::RestartResend => {
            certify!();
            if rng.chance(2, 3) {
                certify!();
            }
            let done: Vec<Ent> = snap.certs.iter().filter_map(|c| c.ent).collect();
            kinds.insert("restart");
            step!(Ev::Restart);
            for _ in 0..rng.below(3) {
                step!(Ev::Tick);
            }
            for x in done.clone() {
                round!(x, 0, rng.chance(1, 3));
            }
            step!(Ev::Tick);
            step!(Ev::Tick);
            for x in done.clone() {
                round!(x, 0, false);
            }
            step!(Ev::Tick);
            step!(Ev::Tick);
        }
        Scn::EpochChangeSigning => {
            if rng.coin() {
                certify!();
            }
            ticks_until!("signing", 3);
            let x = cur_target!();
            if let Some(x) = x {
                round!(x, 1, false);
            }
            // everyone but one party registers for the next epoch in time ...
            let late = rng.below(n);
            for p in 0..n {
                if p != late {
                    step!(Ev::Reg(p));
                }
            }
            kinds.insert("new-epoch");
            step!(Ev::NewEpoch);
            epoch_moves += 1;
            // ... the last one after the chain moved but before the aggregator followed (too late)
            kinds.insert("register-late");
            step!(Ev::Reg(late));
            if let Some(x) = x {
                round!(x, 2, false);
            }
            let (e2, i2) = w.env().await;
            round!(Ent::of(Ty::Msd, e2, 0), 0, rng.chance(1, 3));
            if rng.coin() {
                round!(Ent::of(Ty::Cdb, e2, i2), 0, false);
            }
            if rng.chance(1, 3) {
                kinds.insert("restart");
                step!(Ev::Restart);
            }
            step!(Ev::Tick);
            step!(Ev::Tick);
            reg_most!();
            step!(Ev::Tick);
            step!(Ev::Tick);
            step!(Ev::Tick);
            certify!();
        }
        Scn::ExpiryRace => {
            certify!();
            if ticks_until!("signing", 3) {
                if let Some(x) = cur_target!() {
                    kinds.insert("expire");
                    match rng.below(3) {
                        0 => {
                            round!(x, 0, false);
                            step!(Ev::Expire(x));
                            step!(Ev::Tick);
                        }
                        1 => {
                            round!(x, 1, false);
                            step!(Ev::Expire(x));
                            round!(x, 2, false);
                            step!(Ev::Tick);
                        }
                        _ => {
                            step!(Ev::Expire(x));
                            step!(Ev::Tick);
                            round!(x, 0, false);
                            step!(Ev::Tick);
                        }
                    }
                    round!(x, 0, rng.coin());
                    step!(Ev::Tick);
                }
            }
            kinds.insert("new-immutable");
            step!(Ev::NewImm);
            certify!();
        }
        Scn::BufferedInterleave => {
            ticks_until!("signing", 3);
            let (e, i) = w.env().await;
            round!(Ent::of(Ty::Cdb, e, i), 0, rng.chance(1, 3));
            if rng.coin() {
                kinds.insert("signature-early");
                round!(Ent::of(Ty::Cdb, e, i + 1), 1, false);
            }
            if let Some(x) = cur_target!() {
                round!(x, 0, false);
            }
            step!(Ev::Tick);
            step!(Ev::Tick);
            step!(Ev::Tick);
            kinds.insert("new-immutable");
            step!(Ev::NewImm);
            step!(Ev::Tick);
            step!(Ev::Tick);
            certify!();
        }
        Scn::SignerSetChange => {
            // epoch 2: current = everyone, next = everyone but one
            certify!();
            let old = w.registered(w.env().await.0 - 1).await;
            let spared = rng.below(n);
            for p in 0..n {
                if p != spared {
                    step!(Ev::Reg(p));
                }
            }
            kinds.insert("new-epoch");
            step!(Ev::NewEpoch);
            epoch_moves += 1;
            step!(Ev::Tick);
            step!(Ev::Tick);
            reg_most!();
            if ticks_until!("signing", 3) {
                if let Some(x) = cur_target!() {
                    // signatures made under the previous epoch's set
                    kinds.insert("signature-foreign-set");
                    for p in old.clone() {
                        let _ = sign!(p, old.clone(), x, x, rng.chance(1, 4));
                    }
                }
            }
            certify!();
            certify!();
            kinds.insert("new-epoch");
            step!(Ev::NewEpoch);
            epoch_moves += 1;
            step!(Ev::Tick);
            step!(Ev::Tick);
            reg_most!();
            certify!();
        }
        Scn::ThreeCertsThenEpoch => {
            certify!();
            certify!();
            kinds.insert("new-immutable");
            step!(Ev::NewImm);
            certify!();
            reg_most!();
            kinds.insert("new-epoch");
            step!(Ev::NewEpoch);
            epoch_moves += 1;
            step!(Ev::Tick);
            step!(Ev::Tick);
            reg_most!();
            certify!();
            certify!();
        }
        Scn::SkipEpochRestart => {
            certify!();
            reg_most!();
            kinds.insert("skip-epoch");
            step!(Ev::SkipEpoch);
            epoch_moves += 2;
            step!(Ev::Tick);
            step!(Ev::Tick);
            kinds.insert("restart");
            step!(Ev::Restart);
            step!(Ev::Tick);
            step!(Ev::Tick);
            reg_most!();
            kinds.insert("new-epoch");
            step!(Ev::NewEpoch);
            epoch_moves += 1;
            step!(Ev::Tick);
            step!(Ev::Tick);
            step!(Ev::Tick);
        }
        Scn::RestartInSigning => {
            if rng.coin() {
                certify!();
            }
            ticks_until!("signing", 3);
            let x = cur_target!();
            if let Some(x) = x {
                round!(x, 1, false);
            }
            kinds.insert("restart");
            step!(Ev::Restart);
            for _ in 0..rng.below(4) {
                step!(Ev::Tick);
            }
            if let Some(x) = x {
                round!(x, 2, rng.chance(1, 3));
            }
            step!(Ev::Tick);
            step!(Ev::Tick);
            step!(Ev::Tick);
            certify!();
        }
        Scn::DmqGarbage => {
            ticks_until!("signing", 3);
            let (e, i) = w.env().await;
            let cur = w.registered(e - 1).await;
            if !cur.is_empty() {
                let p = cur[rng.below(cur.len() as u64) as usize];
                let alone = vec![p];
                let tgt = cur_target!().unwrap_or(Ent::of(Ty::Msd, e, 0));
                kinds.insert("signature-foreign-set");
                let _ = sign!(p, alone.clone(), tgt, tgt, true); // stored open message, set not in force
                kinds.insert("signature-mismatch");
                let _ = sign!(p, cur.clone(), Ent::of(Ty::Msd, e, 0), Ent::of(Ty::Cdb, e, i), true); // other entity: buffered unchecked
                let q = cur[rng.below(cur.len() as u64) as usize];
                let _ = sign!(q, vec![q], Ent::of(Ty::Cdb, e, i), Ent::of(Ty::Cdb, e, i), true); // buffered garbage
                let _ = sign!(q, vec![q], Ent::of(Ty::Cdb, e, i), Ent::of(Ty::Cdb, e, i), false); // same through the route: dropped
                kinds.insert("signature-early");
                let r = cur[rng.below(cur.len() as u64) as usize];
                let _ = sign!(r, cur.clone(), Ent::of(Ty::Cdb, e, i + 1), Ent::of(Ty::Cdb, e, i + 1), true);
            }
            certify!();
            certify!();
            kinds.insert("new-immutable");
            step!(Ev::NewImm);
            certify!();
        }
        Scn::CutAt(cut) => {
            kinds.insert("crash");
            match cut {
                Cut::OmCreated => {
                    if rng.coin() {
                        certify!();
                    }
                    ticks_until!("ready", 3);
                    step!(Ev::Crash(cut));
                }
                Cut::BufRegistered(_) | Cut::BufRemoved => {
                    ticks_until!("signing", 3);
                    let (e, i) = w.env().await;
                    round!(Ent::of(Ty::Cdb, e, i), 0, rng.chance(1, 3));
                    if let Some(x) = cur_target!() {
                        round!(x, 0, false);
                    }
                    step!(Ev::Tick);
                    step!(Ev::Crash(cut));
                }
                _ => {
                    if rng.coin() {
                        certify!();
                    }
                    ticks_until!("signing", 3);
                    if let Some(x) = cur_target!() {
                        round!(x, 0, false);
                    }
                    step!(Ev::Crash(cut));
                }
            }
            // recovery: cycles, every signature of the epoch re-sent, further rounds
            for _ in 0..rng.range(1, 3) {
                step!(Ev::Tick);
            }
            let (e, i) = w.env().await;
            for x in [Ent::of(Ty::Msd, e, 0), Ent::of(Ty::Cdb, e, i)] {
                round!(x, 0, rng.chance(1, 4));
            }
            step!(Ev::Tick);
            step!(Ev::Tick);
            certify!();
        }
    }

    while events.len() < len {
        let (env_e, env_i) = w.env().await;
        let roll = rng.below(100);
        // current signing target, if any: first non-certified non-expired open message of the current entities
        let target: Option<Ent> = [Ent::of(Ty::Msd, env_e, 0), Ent::of(Ty::Cdb, env_e, env_i)]
            .into_iter()
            .find(|x| snap.oms.iter().any(|o| o.ent == *x && !o.certified && !o.expired));
        let has_cert_this_epoch = snap.certs.iter().any(|c| c.epoch == env_e);
        if snap.label == "signing" && target.is_some() && rng.chance(2, 5) {
            // productive round: the registered signers sign the current target, then a cycle
            if let Some((_, ep)) = w.message_for(Ent::of(Ty::Msd, env_e, 0)).await {
                let cur = w.registered(ep - 1).await;
                let x = Ent { epoch: ep, ..target.unwrap() };
                kinds.insert("signatures-round");
                let dmq = rng.chance(1, 6);
                for p in cur.clone() {
                    let _ = sign!(p, cur.clone(), x, x, dmq);
                }
            }
            step!(Ev::Tick);
        } else if roll < 30 {
            kinds.insert("tick");
            step!(Ev::Tick);
        } else if roll < 38 {
            kinds.insert("new-immutable");
            step!(Ev::NewImm);
        } else if roll < 44 {
            if epoch_moves < 3 && (has_cert_this_epoch || rng.chance(1, 4)) {
                epoch_moves += 1;
                kinds.insert("new-epoch");
                step!(Ev::NewEpoch);
                if rng.chance(1, 3) {
                    // signers ahead of the aggregator: the new epoch's entities signed under the new epoch's set
                    let (e2, i2) = w.env().await;
                    let x = if rng.chance(2, 3) { Ent::of(Ty::Msd, e2, 0) } else { Ent::of(Ty::Cdb, e2, i2) };
                    round!(x, if rng.coin() { 0 } else { 1 }, rng.chance(1, 4));
                }
                if rng.chance(1, 8) {
                    kinds.insert("restart");
                    step!(Ev::Restart);
                }
                if rng.chance(3, 4) {
                    step!(Ev::Tick);
                    step!(Ev::Tick);
                    for p in 0..n {
                        if rng.chance(4, 5) {
                            step!(Ev::Reg(p));
                        }
                    }
                }
            } else {
                step!(Ev::Tick);
            }
        } else if roll < 45 {
            if epoch_moves < 2 {
                epoch_moves += 2;
                kinds.insert("skip-epoch");
                step!(Ev::SkipEpoch);
            } else {
                step!(Ev::Tick);
            }
        } else if roll < 57 {
            kinds.insert("register");
            if rng.chance(1, 3) {
                for p in 0..n {
                    if events.len() < len + 8 {
                        step!(Ev::Reg(p));
                    }
                }
            } else {
                let p = rng.below(n);
                step!(Ev::Reg(p));
            }
        } else if roll < 88 {
            // signatures
            let probe = w.message_for(Ent::of(Ty::Msd, env_e, 0)).await.map(|(_, ep)| ep);
            let Some(ep) = probe else {
                step!(Ev::Tick);
                continue;
            };
            let cur = w.registered(ep - 1).await;
            let nxt = w.registered(ep).await;
            let style = rng.below(100);
            let dmq = rng.chance(1, 5);
            if style < 45 {
                // every (or most) current signer signs the current target
                let x = target.unwrap_or(Ent::of(Ty::Cdb, ep, env_i));
                let x = Ent { epoch: ep, ..x };
                kinds.insert("signatures-round");
                let skip = if rng.chance(1, 3) { rng.below(n) } else { 99 };
                for p in cur.clone() {
                    if p != skip {
                        let _ = sign!(p, cur.clone(), x, x, dmq);
                    }
                }
            } else {
                let signed = match rng.below(7) {
                    0 => Ent::of(Ty::Msd, ep, 0),
                    1 => Ent::of(Ty::Cdb, ep, env_i + 1), // early: buffered
                    2 => Ent::of(Ty::Cdb, ep, env_i.saturating_sub(1).max(1)), // late
                    3 => Ent::of(Ty::Cdb, ep, env_i), // the other type while the first is being signed
                    _ => target.map(|x| Ent { epoch: ep, ..x }).unwrap_or(Ent::of(Ty::Cdb, ep, env_i)),
                };
                let set: Vec<u64> = match rng.below(8) {
                    0 => nxt.clone(),
                    1 => (0..n).collect(),
                    2 => (0..n).filter(|_| rng.coin()).collect(),
                    _ => cur.clone(),
                };
                let for_ = if rng.chance(1, 8) { Ent::of(Ty::Cdb, ep, env_i) } else { signed };
                if !set.is_empty() {
                    let party = set[rng.below(set.len() as u64) as usize];
                    kinds.insert(if set != cur { "signature-foreign-set" } else if for_ != signed { "signature-mismatch" } else if signed.imm > env_i { "signature-early" } else { "signature" });
                    let repeat = if rng.chance(1, 6) { 2 } else { 1 };
                    for _ in 0..repeat {
                        let _ = sign!(party, set.clone(), signed, for_, dmq);
                    }
                }
            }
        } else if roll < 93 {
            kinds.insert("expire");
            let x = if !snap.oms.is_empty() && rng.chance(3, 4) {
                snap.oms[rng.below(snap.oms.len() as u64) as usize].ent
            } else {
                Ent::of(Ty::Cdb, env_e, env_i)
            };
            step!(Ev::Expire(x));
        } else if roll < 96 || mode == Mode::C14 {
            if roll < 96 {
                kinds.insert("restart");
                step!(Ev::Restart);
                if rng.chance(1, 3) {
                    // everything the signers sent in this epoch is sent again after the restart
                    step!(Ev::Tick);
                    step!(Ev::Tick);
                    let done: Vec<Ent> = snap.certs.iter().filter_map(|c| c.ent).filter(|x| x.epoch == env_e).collect();
                    for x in done {
                        round!(x, 0, rng.chance(1, 4));
                    }
                }
            } else {
                step!(Ev::Tick);
            }
        } else {
            step!(Ev::Tick);
        }
        // C15: crash the next cycle at a cut that the state makes reachable (sometimes any cut)
        if mode == Mode::C15 && rng.chance(1, 5) {
            let cut = if snap.label == "signing" && rng.chance(4, 5) {
                *rng.pick(&[Cut::CertInserted, Cut::CertInserted, Cut::OmCertified, Cut::ArtifactComputed, Cut::EntityStored])
            } else if snap.label == "ready" && rng.chance(4, 5) {
                *rng.pick(&[Cut::OmCreated, Cut::BufRegistered(0), Cut::BufRegistered(1), Cut::BufRemoved])
            } else {
                *rng.pick(&[Cut::OmCreated, Cut::BufRegistered(0), Cut::BufRemoved, Cut::CertInserted, Cut::OmCertified, Cut::ArtifactComputed, Cut::EntityStored])
            };
            kinds.insert("crash");
            step!(Ev::Crash(cut));
        }
    }

    // epilogue: a later round must still get certified (progress), driven honestly
    let mut progress_note: Option<String> = None;
    {
        step!(Ev::NewImm);
        let (env_e, env_i) = w.env().await;
        let goal = Ent::of(Ty::Cdb, env_e, env_i);
        let mut excused: Option<&'static str> = None;
        for _round in 0..8 {
            step!(Ev::Tick);
            if snap.certs.iter().any(|c| c.ent == Some(goal)) {
                break;
            }
            if snap.label.starts_with("blocked") {
                excused = Some("blocked");
                break;
            }
            if snap.label == "signing" {
                let probe = w.message_for(Ent::of(Ty::Msd, env_e, 0)).await.map(|(_, ep)| ep);
                if let Some(ep) = probe {
                    let cur = w.registered(ep - 1).await;
                    let target: Option<Ent> = [Ent::of(Ty::Msd, env_e, 0), goal]
                        .into_iter()
                        .find(|x| snap.oms.iter().any(|o| o.ent == *x && !o.certified && !o.expired));
                    if let Some(x) = target {
                        let mut union: BTreeSet<u64> = BTreeSet::new();
                        for p in cur.clone() {
                            if let Some(ix) = sign!(p, cur.clone(), x, x, false) {
                                union.extend(ix);
                            }
                        }
                        if (union.len() as u64) < k {
                            excused = Some("the registered signers cannot reach the quorum");
                            break;
                        }
                    }
                }
            }
        }
        let certified = snap.certs.iter().any(|c| c.ent == Some(goal));
        if !certified && excused.is_none() {
            // judged from the registrations the harness saw accepted, not from the store (which a
            // pruning task may have emptied)
            let cur = w.own_set(env_e - 1);
            let nxt = w.own_set(env_e);
            if snap.label == "idle" && (cur.is_empty() || nxt.is_empty()) {
                // no party registered for this or the next epoch: the epoch service cannot start
            } else {
                progress_note = Some(format!("no progress: {:?} not certified after the epilogue (state {})", goal, snap.label));
            }
        }
    }

    // verdict
    let mut verdict = Verdict { ok: true, why: None, known: None };
    let store = judge_store(&w, &snap, k, mode).await;
    let why = failure.or(store.err()).or(if mode == Mode::C15 { progress_note } else { None });
    if let Some(why) = why {
        verdict.ok = false;
        // known-finding class: a crash was actually taken between the certificate insert and the
        // open-message update, and the failure is a double certification
        if mode == Mode::C15 && w.crashes_reached.contains(&Cut::CertInserted) && why.contains("certified twice") {
            verdict.known = Some("C15-double-seal".into());
        }
        verdict.why = Some(why);
    }
    let n_certs = snap.certs.len();
    if mode == Mode::C15 && !w.crashes_reached.is_empty() {
        kinds.insert("crash-taken");
    }
    let nontrivial = n_certs > 1 && (mode == Mode::C14 || !w.crashes_reached.is_empty());
    drop(w);
    History { events, obs, verdict, nontrivial, kinds, n_certs }
}

fn silence_stdout() {
    // RuntimeTester logs every debug line of the aggregator to stdout: discard it
    unsafe {
        let devnull = libc::open(b"/dev/null\0".as_ptr() as *const libc::c_char, libc::O_WRONLY);
        if devnull >= 0 {
            libc::dup2(devnull, 1);
        }
    }
}

pub fn main_with(mode: Mode) {
    let args = hc::parse_args();
    silence_stdout();
    let work = PathBuf::from(std::env::var("VERIF_WORK").unwrap_or_else(|_| ".".into()));
    let mut rng = Rng::new(args.seed ^ if mode == Mode::C15 { 0xC15 } else { 0xC14 });
    let mut sink = Sink::new(&args);
    // directed scenarios first (each several times in the thorough tier), then purely random histories
    let c14_directed = [
        Scn::RestartResend,
        Scn::EpochChangeSigning,
        Scn::ExpiryRace,
        Scn::BufferedInterleave,
        Scn::SignerSetChange,
        Scn::ThreeCertsThenEpoch,
        Scn::SkipEpochRestart,
        Scn::RestartInSigning,
        Scn::DmqGarbage,
    ];
    let c15_directed = [
        Scn::CutAt(Cut::CertInserted),
        Scn::CutAt(Cut::OmCertified),
        Scn::CutAt(Cut::ArtifactComputed),
        Scn::CutAt(Cut::EntityStored),
        Scn::CutAt(Cut::OmCreated),
        Scn::CutAt(Cut::BufRegistered(0)),
        Scn::CutAt(Cut::BufRegistered(1)),
        Scn::CutAt(Cut::BufRemoved),
        Scn::RestartResend,
        Scn::EpochChangeSigning,
        Scn::BufferedInterleave,
        Scn::RestartInSigning,
    ];
    let (directed, reps, random): (&[Scn], usize, usize) = match (mode, args.thorough) {
        (Mode::C14, false) => (&c14_directed, 1, 25),
        (Mode::C14, true) => (&c14_directed, 10, 310),
        (Mode::C15, false) => (&c15_directed, 1, 16),
        (Mode::C15, true) => (&c15_directed, 8, 224),
    };
    let mut plan: Vec<(usize, Scn)> = vec![];
    for rep in 0..reps {
        plan.extend(directed.iter().map(|s| (rep, *s)));
    }
    plan.extend(std::iter::repeat((0, Scn::Random)).take(random));
    let rt = tokio::runtime::Builder::new_multi_thread().worker_threads(4).enable_all().build().unwrap();
    let ks = [4u64, 7, 10];
    let mut fixtures: HashMap<u64, Fixtures> = HashMap::new();
    for (h, (rep, scn)) in plan.into_iter().enumerate() {
        let mut hr = rng.fork();
        let Some(id) = sink.wants() else { continue };
        let k = if scn == Scn::Random { *hr.pick(&ks) } else { *hr.pick(&[4u64, 4, 7]) };
        let n = if scn == Scn::Random { hr.range(3, MAX_PARTIES as u64) } else { hr.range(4, MAX_PARTIES as u64) };
        let len = hr.range(18, 40) as usize;
        // store retention limit of the configuration (pruning tasks of the epoch initialisation)
        // (directed scenarios: the smallest limit in the first repetition, then a fixed rotation)
        let drawn: Option<usize> = match hr.below(6) {
            0 => Some(1),
            1 => Some(2),
            2 => Some(3),
            3 => Some(5),
            _ => None,
        };
        let retention = if scn == Scn::Random { drawn } else { [Some(1), None, Some(2), Some(3), Some(1), Some(5), None, Some(4)][rep % 8] };
        let fx = fixtures.entry(k).or_insert_with(|| Fixtures::new(k));
        let dir = work.join(format!("h{}", h % 4));
        let hist = rt.block_on(run_history(fx, k, n, mode, scn, retention, len, &mut hr, dir));
        let all: Vec<u64> = (0..n).collect();
        let evs: Vec<String> = hist.events.iter().map(|e| e.coq()).collect();
        let model = format!("C14.Model.run {} {} [{}]", coq::n(k), coq::list_n(&all), evs.join("; "));
        let kind: String = if scn != Scn::Random {
            format!("directed-{}", scn.name())
        } else if hist.kinds.contains("crash-taken") {
            "history-with-crash".into()
        } else if hist.kinds.contains("skip-epoch") {
            "history-with-epoch-skip".into()
        } else if hist.kinds.contains("restart") {
            "history-with-restart".into()
        } else {
            "history".into()
        };
        sink.push(Case {
            id,
            kind,
            desc: serde_json::json!({"k": k, "m": M, "phi_f": PHI_F, "parties": n, "scenario": scn.name(),
                "store_retention_limit": retention,
                "events": hist.events.iter().map(|e| e.json()).collect::<Vec<_>>(),
                "event_kinds": hist.kinds.iter().collect::<Vec<_>>(), "certificates_at_end": hist.n_certs}),
            model: Some(model),
            impl_obs: coq::ol(&hist.obs),
            holds: Some(hist.verdict.ok),
            why: hist.verdict.why,
            known: hist.verdict.known,
            nontrivial: hist.nontrivial,
            key: format!("{:x}", fnv(&evs.join(";"))),
        });
    }
    sink.finish();
    // leave the tokio runtime without waiting for detached tasks
    rt.shutdown_background();
}

fn fnv(s: &str) -> u64 {
    let mut h: u64 = 0xcbf29ce484222325;
    for b in s.bytes() {
        h ^= b as u64;
        h = h.wrapping_mul(0x100000001b3);
    }
    h
}
