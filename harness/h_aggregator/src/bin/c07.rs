//! C07 correspondence harness: signer registration requires a genuine, pool-bound, stake-bound key.
//!
//! Registrations are described structurally (which pool's cold key / KES key / certificate fields,
//! which BLS key and proof of possession, who KES-signed what at which evolution, what evolution is
//! announced) and materialised with real keys.  They are offered to
//!   kw : one `KeyRegWrapper` (`ProtocolKeyRegistration::init` + `register`, shared by the registrations
//!        of a case), and
//!   agg: `MithrilSignerRegistrationVerifier::verify` with a chain observer reporting the current KES period.
//! Observed: accept / reject, returned party id (as an index among the case's pools), recorded stake.
//! `holds` is judged from provenance only: an accepted registration must be genuine in every bound
//! component, its pool must be in the distribution, its key fresh, its stake the distribution's.
use async_trait::async_trait;
use hc::{coq, Case, Rng, Sink};
use mithril_aggregator::services::{MithrilSignerRegistrationVerifier, SignerRegistrationVerifier};
use mithril_cardano_node_chain::chain_observer::{ChainObserver, ChainObserverError};
use mithril_cardano_node_chain::entities::{ChainAddress, TxDatum};
use mithril_common::{
    crypto_helper::{
        ColdKeyGenerator, KesEvolutions, KesPeriod, KesSigner, KesSignerStandard, OpCert,
        OpCertWithoutColdVerificationKey, ProtocolInitializer, ProtocolKeyRegistration, ProtocolOpCert,
        SignerRegistrationParameters,
    },
    entities::{ChainPoint, Epoch, ProtocolParameters, Signer, StakeDistribution},
    test::{builder::MithrilFixtureBuilder, crypto_helper::SerDeShelleyFileFormatTestExtension},
};
use std::collections::{BTreeMap, HashMap};
use std::path::PathBuf;
use std::sync::{Arc, Mutex};

const N_POOLS: usize = 3;
const N_KEYS: usize = 4;

// ---------- structural description ----------
#[derive(Clone, Copy, Debug, PartialEq, Eq, Hash)]
struct OcSig {
    cold: usize,
    kes: usize,
    issue: u64,
    start: u64,
}
#[derive(Clone, Copy, Debug, PartialEq, Eq, Hash)]
struct OcSpec {
    kes: usize,
    issue: u64,
    start: u64,
    sig: OcSig,
    cold: usize,
}
#[derive(Clone, Copy, Debug, PartialEq, Eq, Hash)]
struct KesSigSpec {
    kes: usize,
    period: u64,
    vk: usize,
    pop: usize,
}
#[derive(Clone, Copy, Debug, PartialEq, Eq)]
enum Party {
    Pool(usize),
    Foreign(u64),
}
#[derive(Clone, Debug)]
struct RegSpec {
    party: Option<Party>,
    opcert: Option<OcSpec>,
    vk: usize,
    pop: usize, // the key whose proof of possession is attached
    kes_sig: Option<KesSigSpec>,
    evol: Option<u64>, // kw: announced evolutions; agg: current KES period of the chain is start + evol
}
#[derive(Clone, Debug)]
struct Spec {
    kind: String,
    agg: bool,
    sd: Vec<(Party, u64)>,
    regs: Vec<RegSpec>,
    /// agg mode: current KES period reported by the chain (None = observer has none)
    cur: Option<u64>,
    label: String,
}

// ---------- world ----------
struct Pool {
    party_id: String,
    kes_sk: PathBuf,
    opcert0_path: PathBuf, // certificate with start period 0 (used by the KES signer)
    base: ProtocolOpCert,
    cold_seed: [u8; 32],
}
struct World {
    pools: Vec<Pool>,
    keys: Vec<ProtocolInitializer>,
    skip_build: bool,
    ocsig_cache: Mutex<HashMap<OcSig, Vec<u8>>>,
    kes_cache: Mutex<HashMap<KesSigSpec, mithril_common::crypto_helper::ProtocolSignerVerificationKeySignatureForConcatenation>>,
}

impl World {
    fn party_string(&self, p: Party) -> String {
        match p {
            Party::Pool(i) => self.pools[i].party_id.clone(),
            Party::Foreign(n) => format!("pool1foreign{n}"),
        }
    }
    fn ocsig_bytes(&self, s: OcSig) -> Vec<u8> {
        let mut c = self.ocsig_cache.lock().unwrap();
        c.entry(s)
            .or_insert_with(|| {
                let kp = ColdKeyGenerator::create_deterministic_keypair(self.pools[s.cold].cold_seed);
                let kes_vk = self.pools[s.kes].base.get_kes_verification_key();
                OpCert::new(kes_vk, s.issue, KesPeriod(s.start), kp)
                    .get_certificate_signature()
                    .to_bytes()
                    .to_vec()
            })
            .clone()
    }
    fn opcert(&self, o: OcSpec) -> ProtocolOpCert {
        let kes_vk = self.pools[o.kes].base.get_kes_verification_key();
        let without = OpCertWithoutColdVerificationKey::try_new(
            kes_vk.as_bytes(),
            o.issue,
            KesPeriod(o.start),
            &self.ocsig_bytes(o.sig),
        )
        .expect("opcert parts");
        let oc: OpCert = (without, self.pools[o.cold].base.get_cold_verification_key()).into();
        oc.into()
    }
    fn vkpop(&self, vk: usize, pop: usize) -> mithril_common::crypto_helper::ProtocolSignerVerificationKeyForConcatenation {
        let mut x = self.keys[vk].verification_key_for_concatenation();
        if let Some((a, b)) = splice_of(pop) {
            // first half (k1) of one key's proof, second half (k2) of another's: each half is a valid group
            // element, at most one of them matches the key
            let (pa, pb) = (self.keys[a].verification_key_for_concatenation().to_bytes(), self.keys[b].verification_key_for_concatenation().to_bytes());
            let mut bytes = x.to_bytes();
            bytes[96..144].copy_from_slice(&pa[96..144]);
            bytes[144..192].copy_from_slice(&pb[144..192]);
            x = mithril_stm::VerificationKeyProofOfPossessionForConcatenation::from_bytes(&bytes).expect("spliced proof of possession decodes");
        } else {
            x.pop = self.keys[pop].verification_key_for_concatenation().pop;
        }
        x.into()
    }
    fn kes_sig(&self, k: KesSigSpec) -> mithril_common::crypto_helper::ProtocolSignerVerificationKeySignatureForConcatenation {
        if let Some(s) = self.kes_cache.lock().unwrap().get(&k) {
            return *s;
        }
        let signer = KesSignerStandard::new(self.pools[k.kes].kes_sk.clone(), self.pools[k.kes].opcert0_path.clone());
        let msg = self.vkpop(k.vk, k.pop).to_bytes();
        let (sig, _) = signer.sign(&msg, KesPeriod(k.period)).expect("kes sign");
        let s: mithril_common::crypto_helper::ProtocolSignerVerificationKeySignatureForConcatenation = sig.into();
        self.kes_cache.lock().unwrap().insert(k, s);
        s
    }
}

struct Observer(Option<u64>);
#[async_trait]
impl ChainObserver for Observer {
    async fn get_current_datums(&self, _a: &ChainAddress) -> Result<Vec<TxDatum>, ChainObserverError> {
        Ok(vec![])
    }
    async fn get_current_era(&self) -> Result<Option<String>, ChainObserverError> {
        Ok(None)
    }
    async fn get_current_epoch(&self) -> Result<Option<Epoch>, ChainObserverError> {
        Ok(Some(Epoch(5)))
    }
    async fn get_current_chain_point(&self) -> Result<Option<ChainPoint>, ChainObserverError> {
        Ok(None)
    }
    async fn get_current_stake_distribution(&self) -> Result<Option<StakeDistribution>, ChainObserverError> {
        Ok(None)
    }
    async fn get_current_kes_period(&self) -> Result<Option<KesPeriod>, ChainObserverError> {
        Ok(self.0.map(KesPeriod))
    }
}

/// outcome of one registration: None = panic, Some(None) = rejected, Some(Some((party id, stake))) accepted
type Out = Option<Option<(String, u64)>>;

fn run_impl(w: &World, rt: &tokio::runtime::Runtime, spec: &Spec) -> Vec<Out> {
    let sd_vec: Vec<(String, u64)> = spec.sd.iter().map(|(p, s)| (w.party_string(*p), *s)).collect();
    if spec.agg {
        let sd: StakeDistribution = sd_vec.iter().cloned().collect();
        let verifier = MithrilSignerRegistrationVerifier::new(Arc::new(Observer(spec.cur)));
        spec.regs
            .iter()
            .map(|r| {
                std::panic::catch_unwind(std::panic::AssertUnwindSafe(|| {
                    let signer = Signer {
                        party_id: r.party.map(|p| w.party_string(p)).unwrap_or_default(),
                        verification_key_for_concatenation: w.vkpop(r.vk, r.pop),
                        verification_key_signature_for_concatenation: r.kes_sig.map(|k| w.kes_sig(k)),
                        operational_certificate: r.opcert.map(|o| w.opcert(o)),
                        kes_evolutions: r.evol.map(KesEvolutions),
                    };
                    rt.block_on(verifier.verify(&signer, &sd)).ok().map(|s| {
                        // the returned signer must carry what was sent
                        assert_eq!(s.verification_key_for_concatenation.to_bytes(), signer.verification_key_for_concatenation.to_bytes());
                        (s.party_id, s.stake)
                    })
                }))
                .ok()
            })
            .collect()
    } else {
        let mut kr = ProtocolKeyRegistration::init(&sd_vec);
        let sd_map: HashMap<String, u64> = sd_vec.iter().cloned().collect();
        spec.regs
            .iter()
            .map(|r| {
                std::panic::catch_unwind(std::panic::AssertUnwindSafe(|| {
                    kr.register(SignerRegistrationParameters {
                        party_id: r.party.map(|p| w.party_string(p)),
                        operational_certificate: r.opcert.map(|o| w.opcert(o)),
                        verification_key_for_concatenation: w.vkpop(r.vk, r.pop),
                        verification_key_signature_for_concatenation: r.kes_sig.map(|k| w.kes_sig(k)),
                        kes_evolutions: r.evol.map(KesEvolutions),
                    })
                    .ok()
                }))
                .ok()
                .map(|o| o.map(|pid| (pid.clone(), sd_map.get(&pid).copied().unwrap_or(u64::MAX))))
            })
            .collect()
    }
}

/// after the registrations of a kw case: close the registry and read the recorded (key, stake) pairs
fn recorded_stakes(w: &World, spec: &Spec) -> Option<Vec<(Vec<u8>, u64)>> {
    if spec.agg {
        return None;
    }
    std::panic::catch_unwind(std::panic::AssertUnwindSafe(|| {
        let sd_vec: Vec<(String, u64)> = spec.sd.iter().map(|(p, s)| (w.party_string(*p), *s)).collect();
        let mut kr = ProtocolKeyRegistration::init(&sd_vec);
        for r in &spec.regs {
            let _ = kr.register(SignerRegistrationParameters {
                party_id: r.party.map(|p| w.party_string(p)),
                operational_certificate: r.opcert.map(|o| w.opcert(o)),
                verification_key_for_concatenation: w.vkpop(r.vk, r.pop),
                verification_key_signature_for_concatenation: r.kes_sig.map(|k| w.kes_sig(k)),
                kes_evolutions: r.evol.map(KesEvolutions),
            });
        }
        let closed = kr.close(&ProtocolParameters::new(1, 2, 1.0).into()).ok()?;
        Some(
            closed
                .closed_registration_entries
                .iter()
                .map(|e| (e.get_verification_key_for_concatenation().to_bytes().to_vec(), e.get_stake()))
                .collect(),
        )
    }))
    .ok()
    .flatten()
}

// ---------- model terms ----------
fn cold_id(i: usize) -> u64 {
    100 + i as u64
}
fn kes_id(i: usize) -> u64 {
    200 + i as u64
}
fn key_id(i: usize) -> u64 {
    300 + i as u64
}
/// a proof of possession made of the k1 half of key a's proof and the k2 half of key b's (a != b):
/// in the model it is a proof identity that is no key's (C07.Model.pop_valid compares identities)
const SPLICE: usize = 1_000_000;
fn splice(a: usize, b: usize) -> usize {
    assert!(a != b && a < 1000 && b < 1000);
    SPLICE + a * 1000 + b
}
fn splice_of(pop: usize) -> Option<(usize, usize)> {
    if pop >= SPLICE { Some(((pop - SPLICE) / 1000, (pop - SPLICE) % 1000)) } else { None }
}
fn party_term(p: Party) -> String {
    match p {
        Party::Pool(i) => format!("(pool_id {})", cold_id(i)),
        Party::Foreign(n) => format!("(BLit [{}])", 9000 + n),
    }
}
fn oc_term(o: OcSpec) -> String {
    format!(
        "(mkOC {} {} {} (SigOf {} (opcert_msg {} {} {})) {})",
        kes_id(o.kes), o.issue, o.start, cold_id(o.sig.cold), kes_id(o.sig.kes), o.sig.issue, o.sig.start, cold_id(o.cold)
    )
}
fn kes_term(k: KesSigSpec) -> String {
    format!("(SigAt {} {} (vkpop_msg {} {}))", kes_id(k.kes), k.period, key_id(k.vk), key_id(k.pop))
}
fn opt<T>(x: &Option<T>, f: impl Fn(&T) -> String) -> String {
    match x {
        Some(v) => format!("(Some {})", f(v)),
        None => "None".to_string(),
    }
}

/// what the chain's current period makes of the announced evolution in agg mode
fn effective_evol(spec: &Spec, r: &RegSpec) -> Option<u64> {
    if spec.agg {
        r.opcert.map(|o| spec.cur.unwrap_or(0).saturating_sub(o.start))
    } else {
        r.evol
    }
}

fn exec(w: &World, rt: &tokio::runtime::Runtime, id: u64, spec: &Spec) -> Case {
    let mut outs = run_impl(w, rt, spec);
    // kw: the stake observed is the one the closed registration records for the accepted key
    let recorded = recorded_stakes(w, spec);
    if let Some(rec) = &recorded {
        for (r, o) in spec.regs.iter().zip(outs.iter_mut()) {
            if let Some(Some((_, st))) = o {
                let vkb = w.keys[r.vk].verification_key_for_concatenation().vk.to_bytes().to_vec();
                if let Some((_, s)) = rec.iter().find(|(k, _)| *k == vkb) {
                    *st = *s;
                }
            }
        }
    }
    let universe: Vec<String> = w.pools.iter().map(|p| p.party_id.clone()).collect();
    let impl_obs = coq::ol(
        &outs
            .iter()
            .map(|o| match o {
                Some(Some((pid, st))) => coq::ol(&[
                    coq::oz(0),
                    coq::oz(universe.iter().position(|u| u == pid).map(|i| i as i128).unwrap_or(-1)),
                    coq::on(*st),
                ]),
                Some(None) => coq::ores_err(),
                None => coq::ores_panic(),
            })
            .collect::<Vec<_>>(),
    );
    // ---- provenance oracle
    let mut sd_eff: HashMap<String, u64> = HashMap::new();
    for (p, s) in &spec.sd {
        sd_eff.insert(w.party_string(*p), *s);
    }
    let mut why: Option<String> = None;
    let mut known: Option<String> = None;
    let mut registered_keys: Vec<usize> = vec![]; // kw: keys in the shared registry; agg: keys accepted in this round
    let mut judged = true;
    for (i, (r, o)) in spec.regs.iter().zip(outs.iter()).enumerate() {
        let mut fail = |s: String, k: Option<&str>| {
            if why.is_none() {
                why = Some(format!("registration {i}: {s}"));
                known = k.map(|x| x.to_string());
            }
        };
        match o {
            None => fail("panic".into(), None),
            Some(None) => {}
            Some(Some((pid, st))) => {
                let mut tampered: Vec<String> = vec![];
                match r.opcert {
                    None => {
                        if w.skip_build {
                            judged = false; // test-only build: uncertified registrations are taken at their word
                        } else {
                            tampered.push("no operational certificate".into());
                        }
                    }
                    Some(oc) => {
                        if oc.sig != (OcSig { cold: oc.cold, kes: oc.kes, issue: oc.issue, start: oc.start }) {
                            tampered.push("operational certificate not signed by its cold key over its own fields".into());
                        }
                        match (r.kes_sig, effective_evol(spec, r)) {
                            (Some(k), Some(e)) => {
                                if k.kes != oc.kes {
                                    tampered.push("KES signature by another certificate's KES key".into());
                                }
                                if k.vk != r.vk || k.pop != r.pop {
                                    tampered.push("KES signature over another key / proof".into());
                                }
                                if (k.period as i128 - e as i128).abs() > 1 {
                                    tampered.push(format!("KES signature made at evolution {} but {} announced", k.period, e));
                                }
                            }
                            _ => tampered.push("KES signature or evolution missing".into()),
                        }
                        let expect_pid = &w.pools[oc.cold].party_id;
                        if pid != expect_pid {
                            tampered.push("returned party id is not the hash of the certificate's cold key".into());
                        }
                    }
                }
                if r.pop != r.vk {
                    tampered.push("proof of possession of another key".into());
                }
                match sd_eff.get(pid) {
                    None => tampered.push("returned party id not in the stake distribution".into()),
                    Some(s) => {
                        if s != st {
                            tampered.push(format!("recorded stake {st} but the distribution holds {s}"));
                        }
                    }
                }
                if !tampered.is_empty() {
                    fail(format!("accepted although: {}", tampered.join("; ")), None);
                } else if registered_keys.contains(&r.vk) {
                    if spec.agg {
                        fail(
                            "accepted although the same verification key was already accepted in this round (under another certificate)".into(),
                            Some("C07-agg-duplicate-key"),
                        );
                    } else {
                        fail("accepted although the key is already in the registry".into(), None);
                    }
                }
                registered_keys.push(r.vk);
            }
        }
    }
    // kw: the closed registration holds exactly the accepted keys with the distribution's stake
    if let Some(rec) = recorded {
        for (vkb, st) in rec {
            let Some(j) = spec.regs.iter().zip(outs.iter()).position(|(r, o)| {
                matches!(o, Some(Some(_))) && w.keys[r.vk].verification_key_for_concatenation().vk.to_bytes().to_vec() == vkb
            }) else {
                if why.is_none() {
                    why = Some("the closed registration holds a key no accepted registration carried".into());
                }
                continue;
            };
            if let Some(Some((pid, _))) = &outs[j] {
                if sd_eff.get(pid) != Some(&st) && why.is_none() {
                    why = Some(format!("registration {j}: closed registration records stake {st}, the distribution holds {:?}", sd_eff.get(pid)));
                }
            }
        }
    }
    // ---- model term
    let pools_term = coq::list(&(0..N_POOLS).map(|i| cold_id(i).to_string()).collect::<Vec<_>>());
    let sd_term = coq::list(&spec.sd.iter().map(|(p, s)| format!("({}, {})", party_term(*p), s)).collect::<Vec<_>>());
    let skip = coq::b(w.skip_build);
    let model = if spec.agg {
        let ms = coq::list(
            &spec
                .regs
                .iter()
                .map(|r| {
                    format!(
                        "mkSM {} {} {} {} {}",
                        // an empty party id string is None for the verifier
                        opt(&r.party, |p| party_term(*p)),
                        opt(&r.opcert, |o| oc_term(*o)),
                        key_id(r.vk),
                        key_id(r.pop),
                        opt(&r.kes_sig, |k| kes_term(*k))
                    )
                })
                .collect::<Vec<_>>(),
        );
        format!("C07.Model.run_agg {} {} {} {} {}", skip, pools_term, sd_term, opt(&spec.cur, |c| c.to_string()), ms)
    } else {
        let rs = coq::list(
            &spec
                .regs
                .iter()
                .map(|r| {
                    format!(
                        "mkReg {} {} {} {} {} {}",
                        opt(&r.party, |p| party_term(*p)),
                        opt(&r.opcert, |o| oc_term(*o)),
                        key_id(r.vk),
                        key_id(r.pop),
                        opt(&r.kes_sig, |k| kes_term(*k)),
                        opt(&r.evol, |e| e.to_string())
                    )
                })
                .collect::<Vec<_>>(),
        );
        format!("C07.Model.run_kw {} {} {} {}", skip, pools_term, sd_term, rs)
    };
    let any_accept = outs.iter().any(|o| matches!(o, Some(Some(_))));
    Case {
        id,
        kind: format!("{}-{}", if spec.agg { "agg" } else { "kw" }, spec.kind),
        desc: serde_json::json!({
            "what": spec.label, "path": if spec.agg { "MithrilSignerRegistrationVerifier::verify" } else { "KeyRegWrapper::register" },
            "stake_distribution": spec.sd.iter().map(|(p, s)| serde_json::json!([format!("{p:?}"), s])).collect::<Vec<_>>(),
            "chain_kes_period": spec.cur,
            "registrations": spec.regs.iter().map(|r| format!("{r:?}")).collect::<Vec<_>>(),
            "outcomes": outs.iter().map(|o| match o { Some(Some((p, s))) => serde_json::json!({"accepted": p, "stake": s}), Some(None) => serde_json::json!("rejected"), None => serde_json::json!("panic") }).collect::<Vec<_>>(),
        }),
        model: Some(model),
        impl_obs,
        holds: if judged { Some(why.is_none()) } else { None },
        why: if judged { why } else { None },
        known: if judged { known } else { None },
        // non-trivial: something was tampered with, spliced, swept or repeated (everything but the plain honest case), or accepted
        nontrivial: spec.kind != "honest" || any_accept,
        key: format!("{}|{:?}|{:?}|{:?}|{:?}", spec.agg, spec.sd, spec.cur, spec.regs, spec.kind),
    }
}

// ---------- generators ----------
fn honest_oc(p: usize, issue: u64, start: u64) -> OcSpec {
    OcSpec { kes: p, issue, start, sig: OcSig { cold: p, kes: p, issue, start }, cold: p }
}
/// pool p certifies key k, signs at evolution s (KES period = s since the signer's certificate starts at 0)
fn honest_reg(p: usize, k: usize, issue: u64, start: u64, s: u64, announced: u64) -> RegSpec {
    RegSpec {
        party: Some(Party::Pool(p)),
        opcert: Some(honest_oc(p, issue, start)),
        vk: k,
        pop: k,
        kes_sig: Some(KesSigSpec { kes: p, period: s, vk: k, pop: k }),
        evol: Some(announced),
    }
}

fn gen_specs(rng: &mut Rng, thorough: bool) -> Vec<Spec> {
    let mut v: Vec<Spec> = vec![];
    let sd_all = |rng: &mut Rng| -> Vec<(Party, u64)> {
        (0..N_POOLS).map(|i| (Party::Pool(i), rng.range(1, 1_000_000))).collect()
    };
    let cur_for = |r: &RegSpec| -> Option<u64> { r.opcert.map(|o| o.start.saturating_add(r.evol.unwrap_or(0))) };
    for agg in [false, true] {
        // ---- honest
        for p in 0..N_POOLS {
            let r = honest_reg(p, p, 0, 0, 0, 0);
            v.push(Spec { kind: "honest".into(), agg, sd: sd_all(rng), cur: cur_for(&r), regs: vec![r], label: "honest registration".into() });
        }
        // ---- every component altered (pool a's registration, material from pool b / key kb)
        let rounds = if thorough { 6 } else { 1 };
        for _ in 0..rounds {
            let a = rng.below(N_POOLS as u64) as usize;
            let b = (a + 1 + rng.below(N_POOLS as u64 - 1) as usize) % N_POOLS;
            let (ka, kb) = (a, 3usize);
            let start = *rng.pick(&[0u64, 0, 4]);
            let issue = rng.below(3);
            let s = *rng.pick(&[0u64, 1, 2]);
            let base = honest_reg(a, ka, issue, start, s, s);
            let oc = base.opcert.unwrap();
            let ks = base.kes_sig.unwrap();
            let muts: Vec<(&str, RegSpec)> = vec![
                ("none", base.clone()),
                ("opcert.kes_vk of another pool", RegSpec { opcert: Some(OcSpec { kes: b, ..oc }), ..base.clone() }),
                ("opcert.issue_number + 1", RegSpec { opcert: Some(OcSpec { issue: issue + 1, ..oc }), ..base.clone() }),
                ("opcert.start_kes_period + 1", RegSpec { opcert: Some(OcSpec { start: start + 1, ..oc }), ..base.clone() }),
                ("opcert.cert_sig of another pool's certificate", RegSpec { opcert: Some(OcSpec { sig: OcSig { cold: b, kes: b, issue, start }, ..oc }), ..base.clone() }),
                ("opcert.cert_sig by the right cold key over another KES key", RegSpec { opcert: Some(OcSpec { sig: OcSig { kes: b, ..oc.sig }, ..oc }), ..base.clone() }),
                ("opcert.cold_vk of another pool", RegSpec { opcert: Some(OcSpec { cold: b, ..oc }), ..base.clone() }),
                ("whole opcert of another pool", RegSpec { opcert: Some(honest_oc(b, issue, start)), ..base.clone() }),
                ("opcert re-issued by the same pool with another issue number (valid)", RegSpec { opcert: Some(honest_oc(a, issue + 7, start)), ..base.clone() }),
                ("opcert re-issued by the cold key for another pool's KES key (valid certificate, wrong KES signer)", RegSpec { opcert: Some(OcSpec { kes: b, sig: OcSig { kes: b, ..oc.sig }, ..oc }), ..base.clone() }),
                ("KES signature by another pool's KES key", RegSpec { kes_sig: Some(KesSigSpec { kes: b, ..ks }), ..base.clone() }),
                ("KES signature over another key", RegSpec { kes_sig: Some(KesSigSpec { vk: kb, pop: kb, ..ks }), ..base.clone() }),
                ("KES signature over the key with another proof", RegSpec { kes_sig: Some(KesSigSpec { pop: kb, ..ks }), ..base.clone() }),
                ("KES signature at evolution + 2", RegSpec { kes_sig: Some(KesSigSpec { period: s + 2, ..ks }), ..base.clone() }),
                ("verification key replaced", RegSpec { vk: kb, pop: kb, ..base.clone() }),
                ("verification key replaced, proof kept", RegSpec { vk: kb, ..base.clone() }),
                ("proof of possession of another key", RegSpec { pop: kb, ..base.clone() }),
                ("proof of possession: own first half, another key's second half", RegSpec { pop: splice(ka, kb), ..base.clone() }),
                ("proof of possession: another key's first half, own second half", RegSpec { pop: splice(kb, ka), ..base.clone() }),
                ("proof of possession: own first half, another key's second half, KES-signed as such", RegSpec { pop: splice(ka, kb), kes_sig: Some(KesSigSpec { pop: splice(ka, kb), ..ks }), ..base.clone() }),
                ("proof of possession: another key's first half, own second half, KES-signed as such", RegSpec { pop: splice(kb, ka), kes_sig: Some(KesSigSpec { pop: splice(kb, ka), ..ks }), ..base.clone() }),
                ("proof of possession of another key, KES-signed as such", RegSpec { pop: kb, kes_sig: Some(KesSigSpec { pop: kb, ..ks }), ..base.clone() }),
                ("another key certified by this pool (valid)", RegSpec { vk: kb, pop: kb, kes_sig: Some(KesSigSpec { vk: kb, pop: kb, ..ks }), ..base.clone() }),
                ("claimed party id of another pool", RegSpec { party: Some(Party::Pool(b)), ..base.clone() }),
                ("claimed party id unknown", RegSpec { party: Some(Party::Foreign(1)), ..base.clone() }),
                ("no claimed party id", RegSpec { party: None, ..base.clone() }),
                ("no operational certificate", RegSpec { opcert: None, ..base.clone() }),
                ("no operational certificate, claimed party id unknown", RegSpec { opcert: None, party: Some(Party::Foreign(2)), ..base.clone() }),
                ("no operational certificate, no party id", RegSpec { opcert: None, party: None, ..base.clone() }),
                ("no KES signature", RegSpec { kes_sig: None, ..base.clone() }),
                ("no evolution announced", RegSpec { evol: None, ..base.clone() }),
            ];
            for (label, r) in muts {
                // the chain's period is derived from the *sent* certificate's start
                let cur = r.opcert.map(|o| o.start + s).or(Some(s));
                v.push(Spec { kind: "component".into(), agg, sd: sd_all(rng), cur, regs: vec![r], label: label.into() });
            }
        }
        // ---- stake distributions
        for _ in 0..(if thorough { 4 } else { 1 }) {
            let a = rng.below(N_POOLS as u64) as usize;
            let b = (a + 1) % N_POOLS;
            let r = honest_reg(a, a, 0, 0, 1, 1);
            let st = rng.range(1, 1_000_000_000);
            let sds: Vec<(&str, Vec<(Party, u64)>)> = vec![
                ("pool absent", vec![(Party::Pool(b), st)]),
                ("empty distribution", vec![]),
                ("only unknown ids", vec![(Party::Foreign(1), st), (Party::Foreign(2), 5)]),
                ("pool with stake 0", vec![(Party::Pool(a), 0), (Party::Pool(b), st)]),
                ("pool with stake 2^64-1", vec![(Party::Pool(a), u64::MAX)]),
                ("pool listed twice (last pair wins)", vec![(Party::Pool(a), st), (Party::Pool(b), 3), (Party::Pool(a), st + 1)]),
                ("claimed id listed, pool absent", vec![(Party::Foreign(1), st)]),
            ];
            for (label, sd) in sds {
                if agg && label.starts_with("pool listed twice") {
                    continue; // the aggregator's distribution is a map
                }
                let mut r2 = r.clone();
                if label.starts_with("claimed id") {
                    r2.party = Some(Party::Foreign(1));
                }
                v.push(Spec { kind: "stake-distribution".into(), agg, sd, cur: Some(1), regs: vec![r2], label: label.into() });
            }
        }
        // ---- evolution sweep: signed at s, every announced value
        let ss: Vec<u64> = if thorough { vec![0, 1, 2, 31, 62, 63] } else { vec![0, 62, 63] };
        for (si, s) in ss.iter().enumerate() {
            let mut es: Vec<u64> = (0..=67).collect();
            es.extend([u32::MAX as u64, u32::MAX as u64 + 1, u64::MAX - 1, u64::MAX]);
            for e in es {
                if !thorough && (e > s + 3 && e < 60) && e % 8 != 0 {
                    continue;
                }
                let start = if agg && e < 1000 && (si as u64 + e) % 3 == 0 { 5 } else { 0 };
                let p = ((si as u64).wrapping_add(e) % N_POOLS as u64) as usize;
                let r = honest_reg(p, p, 0, start, *s, e);
                v.push(Spec {
                    kind: "evolution".into(),
                    agg,
                    sd: sd_all(rng),
                    cur: Some(start + e.min(u64::MAX - start)),
                    regs: vec![r],
                    label: format!("signed at evolution {s}, {e} announced (certificate start {start})"),
                });
            }
        }
        if agg {
            // chain observer without a KES period: treated as period 0
            let r = honest_reg(0, 0, 0, 0, 0, 0);
            v.push(Spec { kind: "evolution".into(), agg, sd: sd_all(rng), cur: None, regs: vec![r], label: "chain reports no KES period".into() });
            let r = honest_reg(0, 0, 0, 0, 2, 2);
            v.push(Spec { kind: "evolution".into(), agg, sd: sd_all(rng), cur: None, regs: vec![r], label: "chain reports no KES period, signed at 2".into() });
            // current period before the certificate's start: saturates to 0
            let r = honest_reg(1, 1, 0, 4, 0, 0);
            v.push(Spec { kind: "evolution".into(), agg, sd: sd_all(rng), cur: Some(2), regs: vec![r], label: "chain period before the certificate start".into() });
        }
        // ---- all splices of two honest registrations (8 components, each from the first or the second)
        let (a, b) = (0usize, 1usize);
        let r1 = honest_reg(a, 0, 1, 0, 1, 1);
        let r2 = honest_reg(b, 1, 2, 0, 1, 1);
        let (o1, o2) = (r1.opcert.unwrap(), r2.opcert.unwrap());
        for mask in 0u32..256 {
            if agg && !thorough && mask % 4 != 1 && mask != 0 && mask != 255 {
                continue;
            }
            let pick = |bit: u32| mask & (1 << bit) != 0;
            let oc = OcSpec {
                kes: if pick(0) { o2.kes } else { o1.kes },
                issue: if pick(1) { o2.issue } else { o1.issue },
                start: o1.start,
                sig: if pick(2) { o2.sig } else { o1.sig },
                cold: if pick(3) { o2.cold } else { o1.cold },
            };
            let r = RegSpec {
                party: if pick(7) { r2.party } else { r1.party },
                opcert: Some(oc),
                vk: if pick(4) { r2.vk } else { r1.vk },
                pop: if pick(5) { r2.pop } else { r1.pop },
                kes_sig: if pick(6) { r2.kes_sig } else { r1.kes_sig },
                evol: Some(1),
            };
            v.push(Spec { kind: "splice".into(), agg, sd: sd_all(rng), cur: Some(1), regs: vec![r], label: format!("splice mask {mask:08b} (bit set = component of the second registration)") });
        }
        // ---- sequences
        let r = honest_reg(0, 0, 0, 0, 0, 0);
        let other_pool_same_key = RegSpec { party: Some(Party::Pool(1)), opcert: Some(honest_oc(1, 0, 0)), kes_sig: Some(KesSigSpec { kes: 1, period: 0, vk: 0, pop: 0 }), ..r.clone() };
        let same_pool_other_key = honest_reg(0, 2, 0, 0, 0, 0);
        let seqs: Vec<(&str, Vec<RegSpec>)> = vec![
            ("the same registration twice", vec![r.clone(), r.clone()]),
            ("a second pool certifies the first pool's key", vec![r.clone(), other_pool_same_key.clone()]),
            ("a second pool certifies the first pool's key, then the first pool again", vec![other_pool_same_key.clone(), r.clone()]),
            ("one pool registers two keys", vec![r.clone(), same_pool_other_key.clone()]),
            ("rejected then valid", vec![RegSpec { pop: 3, ..r.clone() }, r.clone()]),
            ("three pools", vec![honest_reg(0, 0, 0, 0, 0, 0), honest_reg(1, 1, 0, 0, 0, 0), honest_reg(2, 2, 0, 0, 0, 0)]),
        ];
        for (label, regs) in seqs {
            v.push(Spec { kind: "sequence".into(), agg, sd: sd_all(rng), cur: Some(0), regs, label: label.into() });
        }
    }
    v
}

fn main() {
    let args = hc::parse_args();
    let work = std::env::var("VERIF_WORK").unwrap_or_else(|_| ".".to_string());
    let tmp = PathBuf::from(&work).join("tmp");
    std::fs::create_dir_all(&tmp).expect("tmp dir");
    std::env::set_var("TMPDIR", &tmp);
    let mut rng = Rng::new(args.seed);
    let mut sink = Sink::new(&args);

    let params = ProtocolParameters::new(1, 2, 1.0);
    let fixture = MithrilFixtureBuilder::default().with_signers(N_POOLS).with_protocol_parameters(params.clone()).build();
    let pools: Vec<Pool> = fixture
        .signers_fixture()
        .iter()
        .enumerate()
        .map(|(i, f)| {
            let mut cold_seed = [0u8; 32];
            cold_seed[..8].copy_from_slice(&(i as u64).to_le_bytes());
            let base = f.signer_with_stake.operational_certificate.clone().expect("opcert");
            // sanity: the cold key pair re-derived from the fixture's seed is this pool's
            let again = OpCert::new(base.get_kes_verification_key(), 0, KesPeriod(0), ColdKeyGenerator::create_deterministic_keypair(cold_seed));
            assert_eq!(again.compute_protocol_party_id().unwrap(), f.signer_with_stake.party_id, "cold key seed");
            let opcert0_path = tmp.join(format!("c07-opcert0-{i}.cert"));
            again.to_file(&opcert0_path).expect("write opcert");
            Pool {
                party_id: f.signer_with_stake.party_id.clone(),
                kes_sk: f.kes_secret_key_path.clone().expect("kes path"),
                opcert0_path,
                base,
                cold_seed,
            }
        })
        .collect();
    // BLS keys with their proofs of possession
    let kes0: Arc<dyn KesSigner> = Arc::new(KesSignerStandard::new(pools[0].kes_sk.clone(), pools[0].opcert0_path.clone()));
    let keys: Vec<ProtocolInitializer> = (0..N_KEYS)
        .map(|k| {
            use rand_core::SeedableRng;
            let mut seed = [7u8; 32];
            seed[0] = k as u8;
            ProtocolInitializer::setup(params.clone().into(), Some(kes0.clone()), Some(KesPeriod(0)), 1, &mut rand_chacha::ChaCha20Rng::from_seed(seed))
                .expect("initializer")
        })
        .collect();
    let mut w = World { pools, keys, skip_build: false, ocsig_cache: Mutex::new(HashMap::new()), kes_cache: Mutex::new(HashMap::new()) };
    // probe of the build: does KeyRegWrapper take an uncertified registration at its word
    // (cargo feature allow_skip_signer_certification of mithril-common)?
    {
        let mut kr = ProtocolKeyRegistration::init(&vec![(w.pools[0].party_id.clone(), 1)]);
        w.skip_build = kr
            .register(SignerRegistrationParameters {
                party_id: Some(w.pools[0].party_id.clone()),
                operational_certificate: None,
                verification_key_for_concatenation: w.vkpop(0, 0),
                verification_key_signature_for_concatenation: None,
                kes_evolutions: None,
            })
            .is_ok();
    }
    let debug = std::env::var("VERIF_DEBUG").is_ok();
    std::panic::set_hook(Box::new(move |info| {
        if debug {
            eprintln!("panic: {info}");
        }
    }));
    let rt = tokio::runtime::Builder::new_current_thread().enable_all().build().expect("runtime");
    let specs = gen_specs(&mut rng, args.thorough);
    let _ = BTreeMap::<u8, u8>::new();
    for spec in specs {
        let Some(id) = sink.wants() else { continue };
        let c = exec(&w, &rt, id, &spec);
        sink.push(c);
    }
    sink.finish();
}
