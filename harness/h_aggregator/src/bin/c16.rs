//! C16: a stored single signature is attributed to the party whose registered key produced it.
//!
//! One "world" = a real leader aggregator (the repository's `RuntimeTester`: real services, real
//! SQLite, real keys) brought to epoch 2 with CURRENT registration G (3-5 parties) and NEXT
//! registration S (a different subset in most worlds).  One case = one fresh CardanoDatabase
//! beacon of that epoch and a list of events: submissions of (label, signature) pairs through
//!   * the real `register-signatures` HTTP handler (JSON message -> adapter -> authenticator ->
//!     certifier; hook `mithril_aggregator::verif::http_register_signature`),
//!   * `CertifierService::register_single_signature` directly (BufferedCertifierService on top of
//!     MithrilCertifierService),
//!   * the DMQ path: `SequentialSignatureProcessor` over a one-batch consumer,
//! `Open` (= `create_open_message`, with the buffered hand-over) and `Seal`
//! (= `create_certificate`).  Observed: outcome class of every event, the stored rows of the
//! open message (label, provenance of sigma, slot, indexes, won_indexes field), the buffer, the
//! signers of the certificate.  Compared with `C16.Model.run`.
//!
//! Dimensions added by the audit (all of them visible to the model):
//!   * key rotation: a registration is (set of parties, key generation); the same party holds a
//!     different STM key in registrations of different generations (real signers make a new key
//!     for every epoch), and some worlds have a party that is only in the NEXT registration;
//!   * epoch change: a world lives through several epochs (chain of registrations); the first case
//!     of a new epoch runs its pre-open events (buffered submissions) one epoch EARLY, then the
//!     real epoch transition (state machine: inform_epoch, open messages cleaned, multi-signers
//!     rebuilt), then Open / hand-over / the rest (model: `run2`);
//!   * a second open message of another signed entity type (CardanoTransactions, id 1007)
//!     interleaved with the first one, with cross-entity submissions; the buffer is keyed by type;
//!   * DMQ batches of several (signature, entity) pairs, honest and adversarial mixed;
//!   * index-list families on a genuine sigma: duplicated index, reversed list, index = m,
//!     index = u64::MAX, next to reduced / empty / extra-losing lists.
//!
//! `holds` is judged from the harness's own provenance table (which key made which sigma for
//! which message / registration), never from the model.
use std::collections::{BTreeMap, BTreeSet, HashMap};
use std::path::PathBuf;
use std::sync::Arc;
use std::time::Duration;

use h_aggregator::test_extensions::RuntimeTester;
use hc::{coq, Case, Rng, Sink};
use mithril_aggregator::database::repository::BufferedSingleSignatureRepository;
use mithril_aggregator::services::{
    BufferedSingleSignatureStore, CertifierServiceError, SequentialSignatureProcessor, SignatureConsumer,
    SignatureProcessor, SignatureRegistrationStatus,
};
use mithril_aggregator::{verif, ServeCommandConfiguration};
use mithril_common::crypto_helper::{KesPeriod, KesSigner, KesSignerStandard, ProtocolInitializer, ProtocolSingleSignature};
use mithril_common::entities::{
    BlockNumber, CardanoDbBeacon, ChainPoint, Epoch, ProtocolMessage, ProtocolParameters, SignedEntityType,
    SignedEntityTypeDiscriminants as D, SingleSignature, SingleSignatureAuthenticationStatus, SlotNumber,
    SignerWithStake, StakeDistribution, TimePoint,
};
use mithril_common::protocol::{SignerBuilder, SingleSigner};
use rand_chacha::ChaCha20Rng;
use rand_core::SeedableRng;
use mithril_common::messages::{RegisterSignatureMessageHttp, SignedEntityTypeMessage};
use mithril_common::protocol::ToMessage;
use mithril_common::test::builder::{MithrilFixture, MithrilFixtureBuilder, StakeDistributionGenerationMethod};
use mithril_common::test::double::fake_keys;
use mithril_common::StdResult;
use mithril_persistence::sqlite::ConnectionBuilder;

const NP: usize = 6; // parties 0..4 may register, party 5 never does (outsider with a real key)
const M: u64 = 20;
const PHI_F: f64 = 0.65;
const STAKES: [u64; NP] = [10, 10, 14, 8, 12, 9]; // parties 0 and 1 have equal stake
const ENT: u64 = 7; // model id of the case's entity (type 0 = id / 1000: CardanoDatabase)
const ENT2: u64 = 1007; // a second entity of another signed entity type (type 1: CardanoTransactions)
const MSG: u64 = 70; // model id of ENT's protocol message
const MSG_OTHER: u64 = 71; // another message (replays)
const MSG2: u64 = 80; // model id of ENT2's protocol message
fn msg_of(ent: u64) -> u64 {
    if ent == ENT2 { MSG2 } else { MSG }
}

/// a registration: (sorted set of parties, key generation)
type Reg = (Vec<usize>, u8);
fn vk_id(p: usize, gen: u8) -> u64 {
    10 + p as u64 + 100 * gen as u64
}

// ------------------------------------------------------------------ fixtures

struct RegFx {
    signers: Vec<SignerWithStake>,
    single: HashMap<usize, SingleSigner>,
}

struct Fx {
    params: ProtocolParameters,
    ids: Vec<String>,
    base: MithrilFixture,
    subs: HashMap<Reg, RegFx>,
    /// registration -> parties in slot order
    slots: HashMap<Reg, Vec<usize>>,
}

impl Fx {
    fn new(k: u64) -> Fx {
        let params = ProtocolParameters { k, m: M, phi_f: PHI_F };
        let base = MithrilFixtureBuilder::default().with_signers(NP).with_protocol_parameters(params.clone()).build();
        let ids: Vec<String> = base.signers_with_stake().iter().map(|s| s.party_id.clone()).collect();
        Fx { params, ids, base, subs: HashMap::new(), slots: HashMap::new() }
    }
    /// the repository's own fixture (generation-0 keys): genesis certificate, initial stores, stake distribution
    fn fixture0(&self, set: &[usize]) -> MithrilFixture {
        let sd: StakeDistribution =
            set.iter().map(|i| (self.ids[*i].clone(), STAKES[*i])).collect::<BTreeMap<_, _>>().into_iter().collect();
        MithrilFixtureBuilder::default()
            .with_protocol_parameters(self.params.clone())
            .with_stake_distribution(StakeDistributionGenerationMethod::Custom(sd))
            .build()
    }
    /// signers of a registration: same party id / operational certificate / KES key as the fixture,
    /// STM key drawn from a seed that depends on the key generation (generation 0 = the fixture's key)
    fn sub(&mut self, reg: &Reg) -> &RegFx {
        if !self.subs.contains_key(reg) {
            let (set, gen) = reg;
            let base_sf = self.base.signers_fixture();
            let mut signers = vec![];
            let mut inits = vec![];
            for p in set {
                let pid = &self.ids[*p];
                let bsf = base_sf.iter().find(|s| &s.signer_with_stake.party_id == pid).unwrap();
                let kes_signer = bsf.kes_secret_key_path.clone().map(|kp| {
                    Arc::new(KesSignerStandard::new(kp, bsf.operational_certificate_path.clone().unwrap())) as Arc<dyn KesSigner>
                });
                let kes_period = kes_signer.as_ref().map(|_| KesPeriod(0));
                let mut seed: [u8; 32] = format!("{pid:<032}").as_bytes()[..32].try_into().unwrap();
                if *gen > 0 {
                    seed[31] ^= *gen;
                    seed[7] = seed[7].wrapping_add(gen.wrapping_mul(37));
                }
                let pi = ProtocolInitializer::setup(self.params.clone().into(), kes_signer, kes_period, STAKES[*p], &mut ChaCha20Rng::from_seed(seed))
                    .expect("protocol initializer");
                let mut sws = bsf.signer_with_stake.clone();
                sws.stake = STAKES[*p];
                sws.verification_key_for_concatenation = pi.verification_key_for_concatenation().into();
                sws.verification_key_signature_for_concatenation = pi.verification_key_signature_for_concatenation();
                signers.push(sws);
                inits.push((*p, pi));
            }
            let builder = SignerBuilder::new(&signers, &self.params).expect("signer builder");
            let single: HashMap<usize, SingleSigner> = inits
                .into_iter()
                .map(|(p, pi)| (p, builder.restore_signer_from_initializer(self.ids[p].clone(), pi).expect("restore signer")))
                .collect();
            self.subs.insert(reg.clone(), RegFx { signers, single });
        }
        &self.subs[reg]
    }
    fn sign(&mut self, party: usize, reg: &Reg, msg: &ProtocolMessage) -> Option<SingleSignature> {
        self.sub(reg).single.get(&party).and_then(|s| s.sign(msg).unwrap())
    }
    /// slot order of a registration, learnt from the signer_index of honest signatures on probe messages
    fn slot_order(&mut self, reg: &Reg) -> Vec<usize> {
        if let Some(v) = self.slots.get(reg) {
            return v.clone();
        }
        let set = reg.0.clone();
        let mut by_party: BTreeMap<usize, u64> = BTreeMap::new();
        for probe in 0..400u64 {
            if by_party.len() == set.len() {
                break;
            }
            let mut pm = ProtocolMessage::new();
            pm.set_message_part(mithril_common::entities::ProtocolMessagePartKey::SnapshotDigest, format!("probe-{}", probe));
            for p in &set {
                if !by_party.contains_key(p) {
                    if let Some(s) = self.sign(*p, reg, &pm) {
                        by_party.insert(*p, parts(&s).1);
                    }
                }
            }
        }
        assert_eq!(by_party.len(), set.len(), "could not learn every slot");
        let mut v: Vec<(u64, usize)> = by_party.iter().map(|(p, s)| (*s, *p)).collect();
        v.sort();
        let order: Vec<usize> = v.iter().map(|x| x.1).collect();
        assert!(v.iter().enumerate().all(|(i, x)| x.0 == i as u64), "slots are not 0..n");
        self.slots.insert(reg.clone(), order.clone());
        order
    }
}

/// (sigma bytes as hex, signer_index, indexes) of the protocol signature
fn parts(s: &SingleSignature) -> (String, u64, Vec<u64>) {
    let v = serde_json::to_value(s.to_protocol_signature()).unwrap();
    let sigma: Vec<u8> = v["sigma"].as_array().unwrap().iter().map(|b| b.as_u64().unwrap() as u8).collect();
    let idx: Vec<u64> = v["indexes"].as_array().unwrap().iter().map(|b| b.as_u64().unwrap()).collect();
    (hex::encode(sigma), v["signer_index"].as_u64().unwrap(), idx)
}

/// same sigma, other signer_index / index list
fn rebuild(s: &SingleSignature, slot: u64, idxs: &[u64]) -> ProtocolSingleSignature {
    fn back<T: serde::de::DeserializeOwned>(_like: &T, v: serde_json::Value) -> T {
        serde_json::from_value(v).unwrap()
    }
    let stm = s.to_protocol_signature();
    let mut v = serde_json::to_value(&stm).unwrap();
    v["signer_index"] = serde_json::json!(slot);
    v["indexes"] = serde_json::json!(idxs);
    back(&stm, v).into()
}

// ------------------------------------------------------------------ case DSL

#[derive(Clone, Copy, PartialEq, Eq, Debug, PartialOrd, Ord)]
enum Lab {
    Party(usize),
    Upper(usize),
    Unreg,
    Empty,
}
impl Lab {
    fn code(self) -> u64 {
        match self {
            Lab::Party(i) => i as u64,
            Lab::Upper(i) => 100 + i as u64,
            Lab::Unreg => 200,
            Lab::Empty => 201,
        }
    }
    fn real(self, ids: &[String]) -> String {
        match self {
            Lab::Party(i) => ids[i].clone(),
            Lab::Upper(i) => ids[i].to_uppercase(),
            Lab::Unreg => "pool1unregisteredunregisteredunregisteredunregistered00".to_string(),
            Lab::Empty => String::new(),
        }
    }
}
fn lab_of(ids: &[String], s: &str) -> u64 {
    for (i, id) in ids.iter().enumerate() {
        if id == s {
            return i as u64;
        }
        if id.to_uppercase() == s {
            return 100 + i as u64;
        }
    }
    if s.is_empty() {
        201
    } else {
        200
    }
}

/// who made a sigma: key of `party` (generation of `reg`) on message `msg` for registration `reg`; or junk
#[derive(Clone, PartialEq, Eq, Debug, Hash)]
enum Prov {
    Made { party: usize, msg: u64, reg: Reg },
    Junk(u64),
}

#[derive(Clone, Debug)]
struct Sg {
    label: Lab,
    prov: Prov,
    slot: u64,
    idxs: Vec<u64>,
    won: Vec<u64>,
    /// all indexes this sigma wins (honest list)
    full: Vec<u64>,
    sigma_hex: String,
    real: SingleSignature,
    what: &'static str,
    honest: bool,
}

#[derive(Clone, Copy, PartialEq, Eq, Debug)]
enum Path {
    Http,
    Direct,
    Dmq,
}

#[derive(Clone, Debug)]
enum Ev {
    Sub { path: Path, ent: u64, claimed: u64, sg: Sg },
    Batch(Vec<(u64, Sg)>),
    Open(u64),
    Seal(u64),
}

/// the registrations in force for a (segment of a) case
#[derive(Clone, Debug)]
struct Regs {
    cur: Vec<usize>, // slot order
    nxt: Vec<usize>, // slot order
    cur_reg: Reg,
    nxt_reg: Reg,
    /// the registration that was current one epoch earlier (None in the first epoch of a world)
    prev_reg: Option<Reg>,
}

fn coq_reg(order: &[usize], gen: u8) -> String {
    coq::list(
        &order
            .iter()
            .map(|p| format!("{{| p_label := {}; p_vk := {}; p_stake := {} |}}", coq::n(*p as u64), coq::n(vk_id(*p, gen)), coq::n(STAKES[*p])))
            .collect::<Vec<_>>(),
    )
}

/// Coq names bound by the case term for the registrations of the world (`r0`, `r1`, ...)
type Names = Vec<(Reg, String)>;
fn reg_term(fx: &mut Fx, names: &Names, reg: &Reg) -> String {
    match names.iter().find(|(r, _)| r == reg) {
        Some((_, n)) => n.clone(),
        None => coq_reg(&fx.slot_order(reg), reg.1),
    }
}
fn coq_prov(fx: &mut Fx, names: &Names, prov: &Prov) -> String {
    match prov {
        Prov::Junk(n) => format!("(Junk {})", coq::n(*n)),
        Prov::Made { party, msg, reg } => format!("(SigOf {} (payload {} {}))", coq::n(vk_id(*party, reg.1)), reg_term(fx, names, reg), coq::n(*msg)),
    }
}

impl Sg {
    fn coq(&self, fx: &mut Fx, names: &Names) -> String {
        format!(
            "{{| s_label := {}; s_sigma := {}; s_slot := {}; s_idxs := {}; s_won := {} |}}",
            coq::n(self.label.code()),
            coq_prov(fx, names, &self.prov),
            coq::n(self.slot),
            coq::list_n(&self.idxs),
            coq::list_n(&self.won)
        )
    }
    fn json(&self) -> serde_json::Value {
        serde_json::json!({"what": self.what, "label": format!("{:?}", self.label), "sigma": format!("{:?}", self.prov),
            "slot": self.slot, "indexes": self.idxs, "won_indexes_field": self.won, "all_won": self.full})
    }
}

fn coq_events(fx: &mut Fx, names: &Names, evs: &[Ev]) -> Vec<String> {
    evs.iter()
        .map(|e| match e {
            Ev::Open(ent) => format!("Open {} {}", coq::n(*ent), coq::n(msg_of(*ent))),
            Ev::Seal(ent) => format!("Seal {}", coq::n(*ent)),
            Ev::Batch(items) => format!(
                "Batch {}",
                coq::list(&items.iter().map(|(ent, sg)| format!("({}, {})", coq::n(*ent), sg.coq(fx, names))).collect::<Vec<_>>())
            ),
            Ev::Sub { path, ent, claimed, sg } => format!(
                "Sub {} {} {} {}",
                match path {
                    Path::Http => "Http",
                    Path::Direct => "Direct",
                    Path::Dmq => "Dmq",
                },
                coq::n(*ent),
                coq::n(*claimed),
                sg.coq(fx, names)
            ),
        })
        .collect()
}

// ------------------------------------------------------------------ world

struct World {
    tester: RuntimeTester,
    buf_repo: BufferedSingleSignatureRepository,
    /// chain[i] is recorded for epoch i + 1: CURRENT at epoch i + 2, NEXT at epoch i + 1
    chain: Vec<Reg>,
    epoch: u64,
    next_imm: u64,
}

struct OneBatch(tokio::sync::Mutex<Option<Vec<(SingleSignature, SignedEntityType)>>>);
#[async_trait::async_trait]
impl SignatureConsumer for OneBatch {
    async fn get_signatures(&self) -> StdResult<Vec<(SingleSignature, SignedEntityType)>> {
        Ok(self.0.lock().await.take().unwrap_or_default())
    }
    fn get_origin_tag(&self) -> String {
        "DMQ".to_string()
    }
}

impl World {
    async fn new(fx: &mut Fx, chain: Vec<Reg>, dir: PathBuf) -> World {
        assert_eq!(chain[0].1, 0, "the first registration uses the fixture keys");
        let _ = std::fs::remove_dir_all(&dir);
        std::fs::create_dir_all(&dir).unwrap();
        let cfg = ServeCommandConfiguration {
            protocol_parameters: Some(fx.params.clone()),
            signed_entity_types: Some(D::CardanoDatabase.to_string()),
            data_stores_directory: dir.join("stores"),
            ..ServeCommandConfiguration::new_sample(dir.join("snap"))
        };
        let db = dir.join("stores").join("aggregator.sqlite3");
        let mut tester = RuntimeTester::build(
            TimePoint {
                epoch: Epoch(1),
                immutable_file_number: 1,
                chain_point: ChainPoint {
                    slot_number: SlotNumber(10),
                    block_number: BlockNumber(100),
                    block_hash: "block_hash-100".to_string(),
                },
            },
            cfg,
        )
        .await;
        let gfix = fx.fixture0(&chain[0].0);
        assert_eq!(
            gfix.signers_with_stake().iter().map(|s| s.verification_key_for_concatenation.to_json_hex().unwrap()).collect::<BTreeSet<_>>(),
            fx.sub(&chain[0]).signers.iter().map(|s| s.verification_key_for_concatenation.to_json_hex().unwrap()).collect::<BTreeSet<_>>(),
            "generation-0 keys are the fixture keys"
        );
        tester.init_state_from_fixture(&gfix).await.unwrap();
        tester.register_genesis_certificate(&gfix).await.unwrap();
        // every party 0..5 holds stake on the chain: anybody may register for a coming epoch
        let all: Vec<usize> = (0..NP).collect();
        tester.chain_observer.set_signers(fx.fixture0(&all).signers_with_stake()).await;
        // epoch 1: idle -> ready (opens the registration round for epoch 2)
        tester.cycle().await.unwrap();
        let conn = ConnectionBuilder::open_file(&db).build().unwrap();
        let buf_repo = BufferedSingleSignatureRepository::new(Arc::new(conn));
        let mut w = World { tester, buf_repo, chain, epoch: 1, next_imm: 1000 };
        assert!(w.advance(fx).await, "the aggregator did not reach epoch 2");
        w
    }

    /// register chain[epoch] (NEXT of the coming epoch), move the chain to the next epoch, run the
    /// state machine until it is ready there (inform_epoch of the epoch service and of the certifier,
    /// precompute_epoch_data, certificate chain check, new registration round)
    async fn advance(&mut self, fx: &mut Fx) -> bool {
        let reg = self.chain[self.epoch as usize].clone();
        for sws in fx.sub(&reg).signers.clone() {
            if let Err(e) = self.tester.dependencies.signer_registerer.register_signer(Epoch(self.epoch + 1), &sws.into()).await {
                eprintln!("c16: signer registration for epoch {} failed: {:?}", self.epoch + 1, e);
                return false;
            }
        }
        self.tester.increase_epoch().await.unwrap();
        self.epoch += 1;
        for _ in 0..4 {
            if let Err(e) = self.tester.cycle().await {
                eprintln!("c16: state machine cycle failed at epoch {}: {:?}", self.epoch, e);
            }
            if self.tester.runtime.state_label().to_string() == "ready" && *self.tester.observer.current_time_point().await.epoch == self.epoch {
                return true;
            }
        }
        eprintln!("c16: the aggregator did not become ready at epoch {}", self.epoch);
        false
    }

    fn regs(&self, fx: &mut Fx) -> Regs {
        let e = self.epoch as usize;
        let cur_reg = self.chain[e - 2].clone();
        let nxt_reg = self.chain[e - 1].clone();
        let prev_reg = if e >= 3 { Some(self.chain[e - 3].clone()) } else { None };
        Regs { cur: fx.slot_order(&cur_reg), nxt: fx.slot_order(&nxt_reg), cur_reg, nxt_reg, prev_reg }
    }

    async fn message_for(&mut self, fx: &mut Fx, epoch: u64, imm: u64, second: bool) -> (SignedEntityType, ProtocolMessage) {
        self.tester.digester.update_digest(format!("c16-e{}-i{}-{}", epoch, imm, second)).await;
        self.tester.digester.update_merkle_tree(vec![imm.to_string()]).await;
        let beacon = CardanoDbBeacon::new(epoch, imm);
        let entity = SignedEntityType::CardanoDatabase(beacon);
        let mut pm = self.tester.dependencies.signable_builder_service.compute_protocol_message(entity.clone()).await.unwrap();
        if epoch != self.epoch {
            // a message of the COMING epoch, as a signer that has already seen the epoch change computes it:
            // the epoch parts are those of that epoch (its number, the key of the registration that is NEXT there)
            use mithril_common::crypto_helper::ProtocolAggregateVerificationKeyForConcatenation;
            use mithril_common::entities::ProtocolMessagePartKey as K;
            let next_there = self.chain[epoch as usize - 1].clone();
            let avk: ProtocolAggregateVerificationKeyForConcatenation = SignerBuilder::new(&fx.sub(&next_there).signers.clone(), &fx.params.clone())
                .unwrap()
                .compute_aggregate_verification_key()
                .to_concatenation_aggregate_verification_key()
                .to_owned()
                .into();
            pm.set_message_part(K::NextAggregateVerificationKey, avk.to_json_hex().unwrap());
            pm.set_message_part(K::CurrentEpoch, epoch.to_string());
        }
        if second {
            // another signed entity type with its own message (the epoch parts are those of the epoch)
            pm.set_message_part(mithril_common::entities::ProtocolMessagePartKey::CardanoTransactionsMerkleRoot, format!("c16-tx-root-e{}-i{}", epoch, imm));
            pm.set_message_part(mithril_common::entities::ProtocolMessagePartKey::LatestBlockNumber, imm.to_string());
            return (SignedEntityType::CardanoTransactions(Epoch(epoch), BlockNumber(imm)), pm);
        }
        (entity, pm)
    }

    /// one honest round: makes sure the epoch has a certificate (no epoch gap at the next transition).
    /// Never the detector of a misbehaviour: when the implementation refuses honest signatures the
    /// cases of the epoch report it (with the input), this only says whether a certificate exists.
    async fn honest_round(&mut self, fx: &mut Fx) -> bool {
        let regs = self.regs(fx);
        for _ in 0..40 {
            let imm = self.next_imm;
            self.next_imm += 1;
            let (entity, pm) = self.message_for(fx, self.epoch, imm, false).await;
            let deps = &self.tester.dependencies;
            if deps.certifier_service.create_open_message(&entity, &pm).await.is_err() {
                continue;
            }
            for p in &regs.cur_reg.0 {
                if let Some(s) = fx.sign(*p, &regs.cur_reg, &pm) {
                    let _ = deps.certifier_service.register_single_signature(&entity, &s).await;
                }
            }
            if let Ok(Some(_)) = deps.certifier_service.create_certificate(&entity).await {
                return true;
            }
        }
        eprintln!("c16: no honest round produced a certificate at epoch {}", self.epoch);
        false
    }

    async fn clear_buffer(&self) {
        for d in [D::CardanoDatabase, D::CardanoTransactions] {
            let all = self.buf_repo.get_buffered_signatures(d).await.unwrap();
            self.buf_repo.remove_buffered_signatures(d, all).await.unwrap();
        }
    }
}

/// a panic inside the polled future becomes `Err(())` (an observation, not a harness crash)
struct CatchUnwind<F>(std::pin::Pin<Box<F>>);
impl<F: std::future::Future> std::future::Future for CatchUnwind<F> {
    type Output = Result<F::Output, ()>;
    fn poll(mut self: std::pin::Pin<&mut Self>, cx: &mut std::task::Context<'_>) -> std::task::Poll<Self::Output> {
        let inner = &mut self.0;
        match std::panic::catch_unwind(std::panic::AssertUnwindSafe(|| inner.as_mut().poll(cx))) {
            Ok(std::task::Poll::Ready(v)) => std::task::Poll::Ready(Ok(v)),
            Ok(std::task::Poll::Pending) => std::task::Poll::Pending,
            Err(_) => std::task::Poll::Ready(Err(())),
        }
    }
}
fn guarded<F: std::future::Future>(f: F) -> CatchUnwind<F> {
    CatchUnwind(Box::pin(f))
}
const PANIC: u64 = 99;

fn status_class(code: u16) -> u64 {
    match code {
        201 => 0,
        202 => 1,
        404 => 2,
        410 => 3,
        500 => 4,
        400 => 5,
        other => 900 + other as u64,
    }
}

// ------------------------------------------------------------------ one case

/// what the case's entities and messages really are
struct Ctx {
    ents: BTreeMap<u64, (SignedEntityType, ProtocolMessage)>,
    /// model message id -> the string actually signed
    msgs: HashMap<u64, String>,
}

type Row = (u64, Option<Prov>, u64, Vec<u64>, Vec<u64>); // label, provenance, slot, idxs, won field

#[derive(Default)]
struct Seg {
    ev_out: Vec<u64>,
    rows: Vec<(u64, Row)>, // (entity, row)
    buf: Vec<(u64, Row)>,  // (type, row)
    certs: Vec<(u64, Vec<u64>)>,
    obs_state: String,
}

fn prov_obs(p: &Option<Prov>, regs: &Regs) -> String {
    match p {
        Some(Prov::Made { party, msg, reg }) => {
            let rid = if *reg == regs.cur_reg { 0 } else if *reg == regs.nxt_reg { 1 } else { 2 };
            coq::ol(&[coq::on(vk_id(*party, reg.1)), coq::on(*msg), coq::on(rid)])
        }
        Some(Prov::Junk(n)) => coq::ol(&[coq::on(999), coq::on(*n)]),
        None => coq::ol(&[coq::on(888)]), // a sigma the harness never produced
    }
}

/// runs the events of one segment on the real services and reads the state back
async fn run_segment(w: &mut World, fx: &Fx, evs: &[Ev], provs: &HashMap<String, Prov>, ctx: &Ctx, regs: &Regs) -> Seg {
    let deps = &w.tester.dependencies;
    let mut seg = Seg::default();
    for ev in evs {
        match ev {
            Ev::Open(ent) => {
                let (entity, pm) = &ctx.ents[ent];
                let r = guarded(deps.certifier_service.create_open_message(entity, pm)).await;
                seg.ev_out.push(match r {
                    Ok(Ok(_)) => 0,
                    Ok(Err(_)) => 9,
                    Err(()) => PANIC,
                });
            }
            Ev::Seal(ent) => match guarded(deps.certifier_service.create_certificate(&ctx.ents[ent].0)).await.unwrap_or_else(|_| Err(anyhow::anyhow!("panic"))) {
                Ok(Some(c)) => {
                    let mut s: Vec<u64> = c.metadata.signers.iter().map(|p| lab_of(&fx.ids, &p.party_id)).collect();
                    s.sort();
                    seg.certs.push((*ent, s));
                    seg.ev_out.push(0);
                }
                Ok(None) => seg.ev_out.push(1),
                Err(e) => match e.downcast_ref::<CertifierServiceError>() {
                    Some(CertifierServiceError::NotFound(_)) => seg.ev_out.push(2),
                    Some(CertifierServiceError::AlreadyCertified(_)) => seg.ev_out.push(3),
                    _ => {
                        if std::env::var("C16_DEBUG").is_ok() {
                            eprintln!("create_certificate error: {:?}", e);
                        }
                        seg.ev_out.push(if e.to_string() == "panic" { PANIC } else { 98 })
                    }
                },
            },
            Ev::Batch(items) => {
                let batch: Vec<(SingleSignature, SignedEntityType)> = items
                    .iter()
                    .map(|(ent, sg)| {
                        let mut sig = sg.real.clone();
                        sig.authentication_status = SingleSignatureAuthenticationStatus::Unauthenticated;
                        (sig, ctx.ents[ent].0.clone())
                    })
                    .collect();
                seg.ev_out.push(dmq(w, batch).await);
            }
            Ev::Sub { path, ent, claimed, sg } => {
                let entity = &ctx.ents[ent].0;
                let mut sig = sg.real.clone();
                sig.authentication_status = SingleSignatureAuthenticationStatus::Unauthenticated;
                let out = match path {
                    Path::Http => {
                        let message = RegisterSignatureMessageHttp {
                            signed_entity_type: SignedEntityTypeMessage::Known(entity.clone()),
                            party_id: sig.party_id.clone(),
                            signature: sig.signature.to_json_hex().unwrap(),
                            won_indexes: sig.won_indexes.clone(),
                            signed_message: ctx.msgs[claimed].clone(),
                        };
                        guarded(verif::http_register_signature(deps, message)).await.map(status_class).unwrap_or(PANIC)
                    }
                    Path::Direct => match guarded(deps.certifier_service.register_single_signature(entity, &sig)).await {
                        Err(()) => PANIC,
                        Ok(Ok(SignatureRegistrationStatus::Registered)) => 0,
                        Ok(Ok(SignatureRegistrationStatus::Buffered)) => 1,
                        Ok(Err(e)) => match e.downcast_ref::<CertifierServiceError>() {
                            Some(CertifierServiceError::NotFound(_)) => 2,
                            Some(CertifierServiceError::AlreadyCertified(_)) | Some(CertifierServiceError::Expired(_)) => 3,
                            Some(CertifierServiceError::InvalidSingleSignature(..)) => 4,
                            _ => 97,
                        },
                    },
                    Path::Dmq => dmq(w, vec![(sig.clone(), entity.clone())]).await,
                };
                seg.ev_out.push(out);
            }
        }
    }
    let conv = |s: &SingleSignature| -> Row {
        let (hx, slot, idxs) = parts(s);
        (lab_of(&fx.ids, &s.party_id), provs.get(&hx).cloned(), slot, idxs, s.won_indexes.clone())
    };
    for (ent, (entity, _)) in &ctx.ents {
        if let Some(om) = deps.certifier_service.get_open_message(entity).await.unwrap() {
            let mut rows: Vec<Row> = om.single_signatures.iter().map(conv).collect();
            rows.sort_by_key(|r| r.0);
            seg.rows.extend(rows.into_iter().map(|r| (*ent, r)));
        }
    }
    for (ty, d) in [(0u64, D::CardanoDatabase), (1u64, D::CardanoTransactions)] {
        let mut b: Vec<Row> = w.buf_repo.get_buffered_signatures(d).await.unwrap().iter().map(conv).collect();
        b.sort_by_key(|r| r.0);
        seg.buf.extend(b.into_iter().map(|r| (ty, r)));
    }
    let row_obs = |r: &Row| coq::ol(&[coq::on(r.0), prov_obs(&r.1, regs), coq::on(r.2), coq::oln(&r.3), coq::oln(&r.4)]);
    seg.obs_state = coq::ol(&[
        coq::ol(&seg.rows.iter().map(|(e, r)| coq::ol(&[coq::on(*e), row_obs(r)])).collect::<Vec<_>>()),
        coq::ol(&seg.buf.iter().map(|(t, r)| coq::ol(&[coq::on(*t), row_obs(r)])).collect::<Vec<_>>()),
        coq::ol(&seg.certs.iter().map(|(e, s)| coq::ol(&[coq::on(*e), coq::oln(s)])).collect::<Vec<_>>()),
    ]);
    seg
}

/// one batch through the real DMQ signature processor
async fn dmq(w: &World, batch: Vec<(SingleSignature, SignedEntityType)>) -> u64 {
    let (_tx, rx) = tokio::sync::watch::channel(());
    let p = SequentialSignatureProcessor::new(
        Arc::new(OneBatch(tokio::sync::Mutex::new(Some(batch)))),
        w.tester.dependencies.certifier_service.clone(),
        rx,
        w.tester.metrics_service.clone(),
        Duration::from_millis(1),
        slog::Logger::root(slog::Discard, slog::o!()),
    );
    match guarded(p.process_signatures()).await {
        Ok(Ok(_)) => 10,
        Ok(Err(_)) => 11,
        Err(()) => PANIC,
    }
}

// ------------------------------------------------------------------ oracle (provenance only)

struct Verdict {
    ok: bool,
    why: Option<String>,
    known: Option<String>,
}

/// the events that concern one entity, batches flattened (the outcome of a batch item is not observable)
enum V<'a> {
    Sub { path: Path, sg: &'a Sg },
    Open,
    Seal,
}
fn view<'a>(evs: &'a [Ev], outs: &[u64], ent: u64) -> Vec<(V<'a>, Option<u64>)> {
    let mut v = vec![];
    for (e, o) in evs.iter().zip(outs) {
        match e {
            Ev::Sub { path, ent: e2, sg, .. } if *e2 == ent => v.push((V::Sub { path: *path, sg }, Some(*o))),
            Ev::Batch(items) => {
                for (e2, sg) in items {
                    if *e2 == ent {
                        v.push((V::Sub { path: Path::Dmq, sg }, None));
                    }
                }
            }
            Ev::Open(e2) if *e2 == ent => v.push((V::Open, Some(*o))),
            Ev::Seal(e2) if *e2 == ent => v.push((V::Seal, Some(*o))),
            _ => {}
        }
    }
    v
}

/// `fulls`: sigma -> every index it wins (the real lottery, from the honest signature)
fn judge(evs: &[Ev], outs: &[u64], rows_all: &[(u64, Row)], certs_all: &[(u64, Vec<u64>)], regs: &Regs, fulls: &HashMap<Prov, Vec<u64>>, ents: &[u64]) -> Verdict {
    let bad = |why: String| Verdict { ok: false, why: Some(why), known: None };
    let known = |why: String, k: &str| Verdict { ok: false, why: Some(why), known: Some(k.to_string()) };
    if let Some(i) = outs.iter().position(|o| *o == PANIC) {
        return bad(format!("the implementation panicked while handling event {}", i));
    }
    let mut later_known: Option<Verdict> = None;
    for ent in ents {
        let msg = msg_of(*ent);
        let genuine = |label: u64, p: &Option<Prov>| match p {
            Some(Prov::Made { party, msg: m, reg }) => *party as u64 == label && *m == msg && *reg == regs.cur_reg && regs.cur_reg.0.contains(party),
            _ => false,
        };
        let rows: Vec<&Row> = rows_all.iter().filter(|(e, _)| e == ent).map(|(_, r)| r).collect();
        let certs: Vec<&Vec<u64>> = certs_all.iter().filter(|(e, _)| e == ent).map(|(_, c)| c).collect();
        // (1) every stored row: sigma made by the key registered (current epoch) by the row's party, for this
        // message; it names that party's slot and carries only indexes that sigma won
        for r in &rows {
            if !genuine(r.0, &r.1) {
                return bad(format!("entity {}: row stored under label {} holds a sigma of provenance {:?}: not a signature of this open message by the key that party registered for the epoch", ent, r.0, r.1));
            }
            let full: Vec<u64> = match &r.1 { Some(p) => fulls.get(p).cloned().unwrap_or_default(), None => vec![] };
            if let Some(x) = r.3.iter().find(|x| !full.contains(x)) {
                return bad(format!("entity {}: row stored under label {} carries index {} which that signature did not win ({:?})", ent, r.0, x, full));
            }
            if regs.cur.get(r.2 as usize).map(|p| *p as u64) != Some(r.0) {
                return bad(format!("entity {}: row stored under label {} names slot {} which is not that party's slot", ent, r.0, r.2));
            }
        }
        // (2) no sigma under two names
        for a in &rows {
            for b in &rows {
                if a.0 != b.0 && a.1 == b.1 {
                    return bad(format!("entity {}: the same sigma is stored under labels {} and {}", ent, a.0, b.0));
                }
            }
        }
        // (3) certificate signers all truly signed
        for c in &certs {
            for l in c.iter() {
                if !rows.iter().any(|r| r.0 == *l && genuine(r.0, &r.1)) {
                    return bad(format!("entity {}: certificate lists signer {} which has no genuine signature stored", ent, l));
                }
            }
        }
        // (4) honest contributions: an honest submission (own full signature, own name) made while the round is
        // open, or buffered before it opens, must be there at the end, complete
        let vw = view(evs, outs, *ent);
        let open_at = vw.iter().position(|(e, _)| matches!(e, V::Open));
        let seal_ok_at = vw.iter().position(|(e, o)| matches!(e, V::Seal) && *o == Some(0));
        for (i, (ev, out)) in vw.iter().enumerate() {
            let V::Sub { path, sg } = ev else { continue };
            if !sg.honest {
                continue;
            }
            let Lab::Party(p) = sg.label else { continue };
            let before_open = open_at.map(|o| i < o).unwrap_or(true);
            let after_seal = seal_ok_at.map(|s| i > s).unwrap_or(false);
            let expected_out: u64 = match (path, before_open, after_seal) {
                (Path::Dmq, _, _) => 10,
                (Path::Direct, true, _) => 2,
                (_, true, _) => 1,
                (_, false, true) => 3,
                (_, false, false) => 0,
            };
            if let Some(o) = out {
                if *o != expected_out {
                    return bad(format!("entity {}: honest submission of party {} got outcome {} instead of {}", ent, p, o, expected_out));
                }
            }
            let contributes = match (path, before_open, after_seal) {
                (Path::Direct, true, _) => false,
                (_, true, _) => open_at.is_some(),
                (_, false, s) => !s,
            };
            if !contributes {
                continue;
            }
            // DMQ labels are transport-authenticated: a later DMQ message labelled p is p's own act
            let self_displaced = before_open
                && vw[i + 1..open_at.unwrap()].iter().any(|(e, _)| matches!(e, V::Sub { path: Path::Dmq, sg: s2 } if s2.label == sg.label && !s2.honest));
            if self_displaced {
                continue;
            }
            match rows.iter().find(|r| r.0 == p as u64) {
                None => {
                    // displaced in the buffer by a replay of p's own (other message / registration) signature through HTTP?
                    let replay = before_open
                        && vw[i + 1..open_at.unwrap()].iter().any(|(e, _)| matches!(e, V::Sub { path: Path::Http, sg: s2 }
                            if s2.label == sg.label && matches!(&s2.prov, Prov::Made { party, .. } if *party == p) && s2.sigma_hex != sg.sigma_hex));
                    if replay {
                        later_known.get_or_insert(known(
                            format!("entity {}: honest buffered signature of party {} was displaced by a replay of its own signature of another message / registration: no row after the round opened", ent, p),
                            "C16-buffer-replay",
                        ));
                    } else {
                        return bad(format!("entity {}: honest signature of party {} is not stored at the end", ent, p));
                    }
                }
                Some(r) => {
                    let have: BTreeSet<u64> = r.3.iter().copied().collect();
                    if !sg.full.iter().all(|x| have.contains(x)) {
                        let subset_replay = vw.iter().enumerate().any(|(j, (e, _))| j != i && matches!(e, V::Sub { sg: s2, .. }
                            if s2.label == sg.label && s2.sigma_hex == sg.sigma_hex && !sg.full.iter().all(|x| s2.idxs.contains(x))));
                        if subset_replay {
                            later_known.get_or_insert(known(
                                format!("entity {}: party {}'s stored row carries indexes {:?} instead of the {:?} it won: a copy of its own signature with a reduced index list overwrote (or pre-empted) the complete one", ent, p, r.3, sg.full),
                                "C16-index-subset-replay",
                            ));
                        } else {
                            return bad(format!("entity {}: party {}'s stored row lost indexes: {:?} instead of {:?}", ent, p, r.3, sg.full));
                        }
                    }
                }
            }
        }
    }
    later_known.unwrap_or(Verdict { ok: true, why: None, known: None })
}

// ------------------------------------------------------------------ generator

struct CaseIn {
    /// events before the (first entity's) Open, and from it on: a transition case runs `pre` one epoch early
    pre: Vec<Ev>,
    post: Vec<Ev>,
    lot: Vec<(Prov, u64, Vec<u64>)>, // (sigma, stake, won)
    provs: HashMap<String, Prov>,
    kinds: Vec<&'static str>,
    second: bool,
}

const N_KINDS: u64 = 24;

/// `force`: adversarial kinds that must appear (systematic coverage), the rest is drawn
#[allow(clippy::too_many_arguments)]
fn gen_case(rng: &mut Rng, fx: &mut Fx, regs: &Regs, pm: &ProtocolMessage, pm_other: &ProtocolMessage, pm2: &ProtocolMessage, thorough: bool, force: &[u64], allow_second: bool) -> CaseIn {
    let ids = fx.ids.clone();
    let cur = regs.cur_reg.clone();
    let nxt = regs.nxt_reg.clone();
    // a registration that is neither current nor next: the one of the past epoch, else the current set with keys nobody registered
    let past: Reg = regs.prev_reg.clone().filter(|r| *r != cur && *r != nxt).unwrap_or((cur.0.clone(), 3));
    let all6: Reg = ((0..NP).collect(), 0);
    let second = allow_second && rng.chance(1, 3);
    let mut provs: HashMap<String, Prov> = HashMap::new();
    let mut lot: BTreeMap<String, (Prov, u64, Vec<u64>)> = BTreeMap::new();
    // base signatures: (party, msg id, registration) -> honest SingleSignature
    let mut base: HashMap<(usize, u64, Reg), SingleSignature> = HashMap::new();
    let mut combos: Vec<(u64, &ProtocolMessage, Reg)> =
        vec![(MSG, pm, cur.clone()), (MSG_OTHER, pm_other, cur.clone()), (MSG, pm, nxt.clone()), (MSG, pm, past.clone()), (MSG, pm, all6.clone())];
    if second {
        combos.push((MSG2, pm2, cur.clone()));
    }
    for (mid, m, reg) in &combos {
        for p in &reg.0 {
            if base.contains_key(&(*p, *mid, reg.clone())) {
                continue;
            }
            if let Some(s) = fx.sign(*p, reg, m) {
                let (hx, _slot, idxs) = parts(&s);
                let pr = Prov::Made { party: *p, msg: *mid, reg: reg.clone() };
                // identical registrations give identical signatures: keep the first provenance
                provs.entry(hx.clone()).or_insert(pr.clone());
                lot.entry(hx).or_insert((pr, STAKES[*p], idxs));
                base.insert((*p, *mid, reg.clone()), s);
            }
        }
    }
    let junk: SingleSignature = {
        let ps: ProtocolSingleSignature = fake_keys::single_signature()[1].try_into().unwrap();
        SingleSignature::new(ids[0].clone(), ps.clone(), ps.get_concatenation_signature_indices())
    };
    provs.entry(parts(&junk).0).or_insert(Prov::Junk(1));

    let mk = |b: &SingleSignature, label: Lab, slot: Option<u64>, idxs: Option<Vec<u64>>, won: Option<Vec<u64>>, what: &'static str, honest: bool, provs: &HashMap<String, Prov>| -> Sg {
        let (hx, s0, i0) = parts(b);
        let slot = slot.unwrap_or(s0);
        let idxs = idxs.unwrap_or(i0.clone());
        let won = won.unwrap_or(idxs.clone());
        let sigp = rebuild(b, slot, &idxs);
        let mut real = SingleSignature::new(label.real(&ids), sigp, won.clone());
        real.authentication_status = SingleSignatureAuthenticationStatus::Unauthenticated;
        Sg { label, prov: provs[&hx].clone(), slot, idxs, won, full: i0, sigma_hex: hx, real, what, honest }
    };
    let paths = [Path::Http, Path::Direct, Path::Dmq];
    let slot_in_cur = |p: usize| regs.cur.iter().position(|x| *x == p).map(|x| x as u64);
    let mut kinds: Vec<&'static str> = vec![];

    // honest submissions of one entity, random order / path / phase: (before open?, event)
    let honest_of = |rng: &mut Rng, ent: u64, mid: u64| -> Vec<(bool, Ev)> {
        let mut out = vec![];
        let mut order: Vec<usize> = cur.0.iter().copied().filter(|p| base.contains_key(&(*p, mid, cur.clone()))).collect();
        rng.shuffle(&mut order);
        let skip = if rng.chance(1, 4) && order.len() > 1 { 1 } else { 0 };
        for p in order.iter().skip(skip) {
            let b = &base[&(*p, mid, cur.clone())];
            let sg = mk(b, Lab::Party(*p), None, None, None, "honest", true, &provs);
            let early = rng.chance(1, 3);
            let path = if early { *rng.pick(&[Path::Http, Path::Dmq, Path::Http, Path::Direct]) } else { *rng.pick(&paths) };
            out.push((early, Ev::Sub { path, ent, claimed: mid, sg }));
        }
        out
    };
    let honest = honest_of(rng, ENT, MSG);
    let honest2 = if second { honest_of(rng, ENT2, MSG2) } else { vec![] };

    // adversarial submissions
    let n_rand = rng.range(1, if thorough { 4 } else { 3 });
    let mut wanted: Vec<u64> = force.to_vec();
    for _ in 0..n_rand {
        wanted.push(rng.below(N_KINDS));
    }
    let mut adv: Vec<Ev> = vec![];
    for kind in wanted {
        let path = *rng.pick(&paths);
        let a = *rng.pick(&cur.0);
        let others: Vec<usize> = cur.0.iter().copied().filter(|x| *x != a).collect();
        let bparty = *rng.pick(&others);
        let base_a = base.get(&(a, MSG, cur.clone()));
        let mut claimed = MSG;
        let mut ent = ENT;
        let with_idx = |b: &SingleSignature, f: &dyn Fn(&Vec<u64>) -> Vec<u64>, what: &'static str, provs: &HashMap<String, Prov>| {
            let (_, _, i0) = parts(b);
            mk(b, Lab::Party(a), None, Some(f(&i0)), None, what, false, provs)
        };
        let sg: Option<Sg> = match kind {
            // A's signature under B's name (keeps A's slot)
            0 | 1 => base_a.map(|b| mk(b, Lab::Party(bparty), None, None, None, "relabel: A's signature under B's name", false, &provs)),
            // same, but naming B's slot too
            2 => base_a.map(|b| mk(b, Lab::Party(bparty), slot_in_cur(bparty), None, None, "relabel + B's slot", false, &provs)),
            // under an unregistered / upper-cased / empty / outsider / next-only name
            3 => base_a.map(|b| {
                let next_only = nxt.0.iter().copied().find(|q| !cur.0.contains(q));
                let mut ls = vec![Lab::Unreg, Lab::Upper(a), Lab::Empty, Lab::Party(5), Lab::Upper(bparty)];
                if let Some(q) = next_only {
                    ls.push(Lab::Party(q));
                    ls.push(Lab::Party(q));
                }
                let l = *rng.pick(&ls);
                mk(b, l, None, None, None, "A's signature under a name that is not registered", false, &provs)
            }),
            // own name, reduced index list (subset / empty)
            4 | 5 => base_a.map(|b| {
                let (_, _, i0) = parts(b);
                let keep: Vec<u64> = if rng.coin() { vec![] } else { i0.iter().copied().filter(|_| rng.coin()).collect() };
                let keep = if keep.len() == i0.len() { i0[1..].to_vec() } else { keep };
                mk(b, Lab::Party(a), None, Some(keep), None, "own signature, reduced index list", false, &provs)
            }),
            // own name, an index that did not win
            6 => base_a.and_then(|b| {
                let (_, _, i0) = parts(b);
                let extra = (0..M).find(|x| !i0.contains(x))?;
                let mut v = i0.clone();
                v.push(extra);
                Some(mk(b, Lab::Party(a), None, Some(v), None, "own signature plus an index that lost", false, &provs))
            }),
            // own name and sigma, another slot
            7 => base_a.map(|b| mk(b, Lab::Party(a), slot_in_cur(bparty), None, None, "own signature naming another slot", false, &provs)),
            // only the decorative won_indexes field altered
            8 => base_a.map(|b| mk(b, Lab::Party(a), None, None, Some(vec![0, 1, 2, 19]), "own signature, altered won_indexes field", false, &provs)),
            // signature made for the NEXT registration (the party's next-epoch key), own name / name of the party sitting at that slot in CURRENT
            9 | 10 => {
                let q = *rng.pick(&nxt.0);
                base.get(&(q, MSG, nxt.clone())).map(|b| {
                    let (_, s0, _) = parts(b);
                    let l = if kind == 9 { Lab::Party(q) } else { Lab::Party(*regs.cur.get(s0 as usize).unwrap_or(&q)) };
                    mk(b, l, None, None, None, "signature made for the next registration", false, &provs)
                })
            }
            // replay of B's signature of ANOTHER message under B's name (claims that message on HTTP)
            11 | 12 => base.get(&(bparty, MSG_OTHER, cur.clone())).map(|b| {
                claimed = MSG_OTHER;
                mk(b, Lab::Party(bparty), None, None, None, "replay of B's signature of another message", false, &provs)
            }),
            // junk sigma under a registered name
            13 => Some(mk(&junk, Lab::Party(bparty), slot_in_cur(bparty), Some(vec![1, 2]), None, "junk sigma under B's name", false, &provs)),
            // outsider key (never registered) under a registered name, naming that party's slot
            14 => base.get(&(5, MSG, all6.clone())).map(|b| mk(b, Lab::Party(bparty), slot_in_cur(bparty), None, None, "unregistered key under B's name", false, &provs)),
            // signature made with the key / for the registration of the PAST epoch (or with a key the party never
            // registered), own name, naming the party's current slot or the slot it had there
            15 | 16 => {
                let q = *rng.pick(&past.0);
                base.get(&(q, MSG, past.clone())).map(|b| {
                    let slot = if kind == 15 { None } else { slot_in_cur(q) };
                    mk(b, Lab::Party(q), slot, None, None, "signature made with the key of another epoch", false, &provs)
                })
            }
            // index-list families on the genuine sigma, own name
            17 => base_a.map(|b| with_idx(b, &|i0| { let mut v = i0.clone(); if let Some(x) = i0.first() { v.push(*x) } v }, "own signature, an index repeated", &provs)),
            18 => base_a.map(|b| with_idx(b, &|i0| i0.iter().rev().copied().collect(), "own signature, index list reversed", &provs)),
            19 => base_a.map(|b| with_idx(b, &|i0| { let mut v = i0.clone(); v.push(M); v }, "own signature plus index m", &provs)),
            20 => base_a.map(|b| with_idx(b, &|i0| { let mut v = vec![u64::MAX]; v.extend(i0); v }, "own signature plus index u64::MAX", &provs)),
            // cross-entity: a genuine signature of one open message submitted for the other one (own name;
            // the HTTP request truthfully claims the message it signs)
            21 | 22 if second => {
                let (from_msg, to_ent) = if kind == 21 { (MSG, ENT2) } else { (MSG2, ENT) };
                base.get(&(a, from_msg, cur.clone())).map(|b| {
                    claimed = from_msg;
                    ent = to_ent;
                    mk(b, Lab::Party(a), None, None, None, "signature of the other entity's message", false, &provs)
                })
            }
            // cross-entity relabel: A's signature of the second entity's message under B's name, for the second entity
            23 if second => base.get(&(a, MSG2, cur.clone())).map(|b| {
                claimed = MSG2;
                ent = ENT2;
                mk(b, Lab::Party(bparty), None, None, None, "relabel on the second entity", false, &provs)
            }),
            _ => None,
        };
        if let Some(sg) = sg {
            if !kinds.contains(&sg.what) {
                kinds.push(sg.what);
            }
            adv.push(Ev::Sub { path, ent, claimed, sg });
        }
    }
    // interleave: phase 1 (before Open): early honest + some adversarial; phase 2: the rest
    let mut pre: Vec<Ev> = honest.iter().filter(|h| h.0).map(|h| h.1.clone()).collect();
    let mut post: Vec<Ev> = honest.iter().filter(|h| !h.0).map(|h| h.1.clone()).collect();
    let mut adv2: Vec<Ev> = vec![];
    for a in adv {
        if matches!(&a, Ev::Sub { ent, .. } if *ent == ENT2) {
            adv2.push(a);
        } else if rng.chance(1, 3) {
            let at = rng.below(pre.len() as u64 + 1) as usize;
            pre.insert(at, a);
        } else {
            let at = rng.below(post.len() as u64 + 1) as usize;
            post.insert(at, a);
        }
    }
    // sometimes an early Seal in the middle (then later submissions meet a certified message)
    if rng.chance(1, 6) && !post.is_empty() {
        let at = rng.below(post.len() as u64 + 1) as usize;
        post.insert(at, Ev::Seal(ENT));
    }
    post.insert(0, Ev::Open(ENT));
    if !rng.chance(1, 8) {
        post.push(Ev::Seal(ENT));
    }
    // the second entity's own history (pre2, Open, post2, Seal), merged at random positions, order kept
    if second {
        let mut pre2: Vec<Ev> = honest2.iter().filter(|h| h.0).map(|h| h.1.clone()).collect();
        let mut post2: Vec<Ev> = honest2.iter().filter(|h| !h.0).map(|h| h.1.clone()).collect();
        for a in adv2 {
            if rng.chance(1, 3) {
                let at = rng.below(pre2.len() as u64 + 1) as usize;
                pre2.insert(at, a);
            } else {
                let at = rng.below(post2.len() as u64 + 1) as usize;
                post2.insert(at, a);
            }
        }
        let mut h2 = pre2;
        h2.push(Ev::Open(ENT2));
        h2.extend(post2);
        h2.push(Ev::Seal(ENT2));
        // split point of the second history between `pre` and `post` of the first entity
        let cut = rng.below(h2.len() as u64 + 1) as usize;
        let merge = |rng: &mut Rng, a: Vec<Ev>, b: Vec<Ev>, keep_first: bool| -> Vec<Ev> {
            let (mut ia, mut ib) = (a.into_iter().peekable(), b.into_iter().peekable());
            let mut out = vec![];
            // keep_first: the first element of `a` (the Open of the first entity) stays first
            if keep_first {
                if let Some(x) = ia.next() {
                    out.push(x);
                }
            }
            while ia.peek().is_some() || ib.peek().is_some() {
                let take_a = ib.peek().is_none() || (ia.peek().is_some() && rng.coin());
                out.push(if take_a { ia.next().unwrap() } else { ib.next().unwrap() });
            }
            out
        };
        let tail = h2.split_off(cut);
        pre = merge(rng, pre, h2, false);
        post = merge(rng, post, tail, true);
    }
    // DMQ batches: neighbouring DMQ submissions travel in one batch
    let batches = |rng: &mut Rng, evs: Vec<Ev>| -> Vec<Ev> {
        let mut out: Vec<Ev> = vec![];
        for e in evs {
            if let Ev::Sub { path: Path::Dmq, ent, sg, .. } = &e {
                let join = match out.last() {
                    Some(Ev::Batch(_)) => rng.chance(2, 3),
                    Some(Ev::Sub { path: Path::Dmq, .. }) => rng.chance(1, 2),
                    _ => false,
                };
                if join {
                    match out.pop().unwrap() {
                        Ev::Batch(mut items) => {
                            items.push((*ent, sg.clone()));
                            out.push(Ev::Batch(items));
                        }
                        Ev::Sub { ent: e0, sg: s0, .. } => out.push(Ev::Batch(vec![(e0, s0), (*ent, sg.clone())])),
                        _ => unreachable!(),
                    }
                    continue;
                }
            }
            out.push(e);
        }
        out
    };
    let pre = batches(rng, pre);
    let post = batches(rng, post);
    let lot_v: Vec<(Prov, u64, Vec<u64>)> = lot.values().cloned().collect();
    CaseIn { pre, post, lot: lot_v, provs, kinds, second }
}

fn silence_stdout() {
    unsafe {
        let devnull = libc::open(b"/dev/null\0".as_ptr() as *const libc::c_char, libc::O_WRONLY);
        if devnull >= 0 {
            libc::dup2(devnull, 1);
        }
    }
}

fn main() {
    let args = hc::parse_args();
    silence_stdout();
    std::panic::set_hook(Box::new(|i| {
        // panics of the code under test are observations; the harness's own are reported
        if i.location().map(|l| l.file().contains("c16.rs")).unwrap_or(false) {
            eprintln!("{}", i);
        }
    }));
    let work = PathBuf::from(std::env::var("VERIF_WORK").unwrap_or_else(|_| ".".into()));
    let mut rng = Rng::new(args.seed ^ 0xC16);
    let mut sink = Sink::new(&args);
    let rt = tokio::runtime::Builder::new_multi_thread().worker_threads(4).enable_all().build().unwrap();
    let r = |set: &[usize], gen: u8| -> Reg { (set.to_vec(), gen) };
    // worlds: (k, chain of registrations): chain[0] is CURRENT at epoch 2, chain[1] NEXT at epoch 2 and
    // CURRENT at epoch 3, ... ; the second component is the key generation (same party, other key)
    let mut worlds: Vec<(u64, Vec<Reg>)> = vec![
        // keys rotate every epoch, the set stays the same (what real signers do)
        (7, vec![r(&[0, 1, 2, 3, 4], 0), r(&[0, 1, 2, 3, 4], 1), r(&[0, 1, 2, 3, 4], 2), r(&[0, 1, 2, 3, 4], 0)]),
        // a party leaves, another one is only in the next registration; keys kept / rotated
        (4, vec![r(&[0, 1, 2], 0), r(&[1, 2, 3], 0), r(&[0, 1, 2, 3], 1), r(&[0, 2, 3], 1)]),
        (7, vec![r(&[0, 1, 2, 3], 0), r(&[0, 2, 3, 4], 1), r(&[0, 1, 2, 3, 4], 1), r(&[1, 2, 3, 4], 2)]),
        (10, vec![r(&[0, 1, 2, 3, 4], 0), r(&[0, 1, 3, 4], 0), r(&[0, 1, 2, 3, 4], 2), r(&[0, 1, 2, 3, 4], 2)]),
    ];
    if args.thorough {
        worlds.extend(vec![
            (4, vec![r(&[0, 1, 2, 3], 0), r(&[0, 1, 2], 1), r(&[0, 1, 2, 4], 1), r(&[0, 1, 2, 3, 4], 2), r(&[1, 2, 3, 4], 0)]),
            (10, vec![r(&[0, 1, 2, 3, 4], 0), r(&[0, 1, 2, 3, 4], 0), r(&[0, 1, 2, 3, 4], 1), r(&[0, 1, 2, 3, 4], 1), r(&[0, 1, 2, 3, 4], 0)]),
            (4, vec![r(&[0, 1, 2, 3, 4], 0), r(&[0, 3, 4], 2), r(&[0, 1, 3, 4], 2), r(&[0, 1, 2, 3], 0), r(&[0, 1, 2], 1)]),
            (7, vec![r(&[0, 1, 2], 0), r(&[0, 1, 2, 3, 4], 1), r(&[0, 1, 2, 3, 4], 2), r(&[2, 3, 4], 2), r(&[1, 2, 3, 4], 0)]),
        ]);
    }
    // a world lives through `chain.len() - 1` epochs; every epoch but the first starts with a transition case
    let per_epoch: u64 = if args.thorough { 65 } else { 15 };
    let mut fxs: HashMap<u64, Fx> = HashMap::new();
    let mut first_id = 0u64;
    for (wi, (k, chain)) in worlds.iter().enumerate() {
        let mut wr = rng.fork();
        let n_epochs = chain.len() as u64 - 1;
        let per_world = per_epoch * n_epochs;
        // does this world contain a wanted case?
        if let Some(o) = args.only {
            if o < first_id || o >= first_id + per_world {
                for _ in 0..per_world {
                    let _ = sink.wants();
                }
                first_id += per_world;
                continue;
            }
        }
        first_id += per_world;
        let fx = fxs.entry(*k).or_insert_with(|| Fx::new(*k));
        let mut world = rt.block_on(World::new(fx, chain.clone(), work.join(format!("w{}", wi))));
        // Coq names of the registrations of this world
        let names: Names = {
            let mut v: Names = vec![];
            for (i, reg) in chain.iter().enumerate() {
                if !v.iter().any(|(r, _)| r == reg) {
                    v.push((reg.clone(), format!("r{}", i)));
                }
            }
            v
        };
        let lets: String = names.iter().map(|(reg, n)| format!("let {} := {} in ", n, coq_reg(&fx.slot_order(reg), reg.1))).collect();
        let mut case_no = 0u64;
        // a world whose epoch transition failed stops producing cases (the cases before it report why)
        let mut dead = false;
        for ep in 0..n_epochs {
            let has_certificate = dead || rt.block_on(world.honest_round(fx));
            for ci_no in 0..per_epoch {
                if dead {
                    let _ = sink.wants();
                    continue;
                }
                let mut cr = wr.fork();
                // the last case of an epoch (but the last epoch) is a transition case: it belongs to the NEXT epoch
                let transition = ci_no == per_epoch - 1 && ep + 1 < n_epochs;
                let imm = world.next_imm;
                world.next_imm += 1;
                let wanted = sink.wants();
                // systematic coverage of the adversarial kinds: two per case in turn (thorough: one, more random ones)
                let forced: Vec<u64> = if args.thorough { vec![case_no % N_KINDS] } else { vec![(case_no * 2) % N_KINDS, (case_no * 2 + 1) % N_KINDS] };
                case_no += 1;
                // no certificate in this epoch: the chain has a gap, the next epoch cannot be reached
                if transition && !has_certificate {
                    dead = true;
                    continue;
                }
                let Some(id) = wanted else {
                    if transition && !rt.block_on(world.advance(fx)) {
                        dead = true;
                    }
                    continue;
                };
                let case_epoch = if transition { world.epoch + 1 } else { world.epoch };
                let (entity, pm) = rt.block_on(world.message_for(fx, case_epoch, imm, false));
                let (_, pm_other) = rt.block_on(world.message_for(fx, case_epoch, imm + 500_000, false));
                let (entity2, pm2) = rt.block_on(world.message_for(fx, case_epoch, imm, true));
                let regs1 = world.regs(fx);
                // the registrations of the epoch the case's entity belongs to
                let regs = if transition {
                    let e = world.epoch as usize + 1;
                    let (cur_reg, nxt_reg) = (chain[e - 2].clone(), chain[e - 1].clone());
                    Regs { cur: fx.slot_order(&cur_reg), nxt: fx.slot_order(&nxt_reg), cur_reg, nxt_reg, prev_reg: Some(chain[e - 3].clone()) }
                } else {
                    regs1.clone()
                };
                let ci = gen_case(&mut cr, fx, &regs, &pm, &pm_other, &pm2, args.thorough, &forced, !transition);
                let mut ctx = Ctx { ents: BTreeMap::new(), msgs: HashMap::new() };
                ctx.ents.insert(ENT, (entity.clone(), pm.clone()));
                ctx.msgs.insert(MSG, pm.to_message());
                ctx.msgs.insert(MSG_OTHER, pm_other.to_message());
                ctx.msgs.insert(MSG2, pm2.to_message());
                if ci.second {
                    ctx.ents.insert(ENT2, (entity2.clone(), pm2.clone()));
                }
                rt.block_on(world.clear_buffer());
                let (evs, outs, rows, certs, impl_obs, model): (Vec<Ev>, Vec<u64>, Vec<(u64, Row)>, Vec<(u64, Vec<u64>)>, String, String);
                let lot_coq: Vec<String> =
                    ci.lot.iter().map(|(pr, st, w)| format!("({}, {}, {})", coq_prov(fx, &names, pr), coq::n(*st), coq::list_n(w))).collect();
                let env = |fx: &mut Fx, rg: &Regs| {
                    format!("{{| e_lot := lot; e_cur := {}; e_next := {}; e_k := {} |}}", reg_term(fx, &names, &rg.cur_reg), reg_term(fx, &names, &rg.nxt_reg), coq::n(*k))
                };
                let ev_obs = |o: &[u64]| coq::ol(&o.iter().map(|x| coq::on(*x)).collect::<Vec<_>>());
                if transition {
                    let s1 = rt.block_on(run_segment(&mut world, fx, &ci.pre, &ci.provs, &ctx, &regs1));
                    if !rt.block_on(world.advance(fx)) {
                        dead = true;
                        continue;
                    }
                    let s2 = rt.block_on(run_segment(&mut world, fx, &ci.post, &ci.provs, &ctx, &regs));
                    impl_obs = coq::ol(&[ev_obs(&s1.ev_out), s1.obs_state.clone(), ev_obs(&s2.ev_out), s2.obs_state.clone()]);
                    let (e1, e2) = (env(fx, &regs1), env(fx, &regs));
                    model = format!(
                        "({}let lot := {} in C16.Model.run2 {} {} {} {})",
                        lets,
                        coq::list(&lot_coq),
                        e1,
                        coq::list(&coq_events(fx, &names, &ci.pre)),
                        e2,
                        coq::list(&coq_events(fx, &names, &ci.post))
                    );
                    evs = ci.pre.iter().chain(ci.post.iter()).cloned().collect();
                    outs = s1.ev_out.iter().chain(s2.ev_out.iter()).copied().collect();
                    rows = s2.rows;
                    certs = s2.certs;
                } else {
                    evs = ci.pre.iter().chain(ci.post.iter()).cloned().collect();
                    let s = rt.block_on(run_segment(&mut world, fx, &evs, &ci.provs, &ctx, &regs));
                    impl_obs = coq::ol(&[ev_obs(&s.ev_out), s.obs_state.clone()]);
                    let e1 = env(fx, &regs);
                    model = format!("({}let lot := {} in C16.Model.run {} {})", lets, coq::list(&lot_coq), e1, coq::list(&coq_events(fx, &names, &evs)));
                    outs = s.ev_out;
                    rows = s.rows;
                    certs = s.certs;
                }
                let fulls: HashMap<Prov, Vec<u64>> = ci.lot.iter().map(|(p, _, w)| (p.clone(), w.clone())).collect();
                let ents: Vec<u64> = ctx.ents.keys().copied().collect();
                let verdict = judge(&evs, &outs, &rows, &certs, &regs, &fulls, &ents);
                let first_kind = ci.kinds.first().map(|s| s.to_string()).unwrap_or_else(|| "honest-only".to_string());
                let kind = if transition { format!("epoch change, then: {}", first_kind) } else { first_kind };
                let desc_evs: Vec<serde_json::Value> = evs
                    .iter()
                    .zip(&outs)
                    .map(|(e, o)| match e {
                        Ev::Open(ent) => serde_json::json!({"open": ent, "outcome": o}),
                        Ev::Seal(ent) => serde_json::json!({"seal": ent, "outcome": o}),
                        Ev::Batch(items) => serde_json::json!({"dmq_batch": items.iter().map(|(ent, sg)| serde_json::json!({"entity": ent, "submit": sg.json()})).collect::<Vec<_>>(), "outcome": o}),
                        Ev::Sub { path, ent, claimed, sg } => serde_json::json!({"submit": sg.json(), "entity": ent, "path": format!("{:?}", path), "claimed_message": claimed, "outcome": o}),
                    })
                    .collect();
                let any_adv = evs.iter().any(|e| match e {
                    Ev::Sub { sg, .. } => !sg.honest,
                    Ev::Batch(items) => items.iter().any(|(_, sg)| !sg.honest),
                    _ => false,
                });
                let nontrivial = any_adv && !rows.is_empty();
                let key = format!("{:x}", fnv(&format!("{:?}{:?}{}{}", regs.cur_reg, regs.nxt_reg, transition, coq_events(fx, &names, &evs).join(";"))));
                sink.push(Case {
                    id,
                    kind,
                    desc: serde_json::json!({"k": k, "m": M, "phi_f": PHI_F, "epoch": case_epoch,
                        "current_registration_by_slot": regs.cur, "current_key_generation": regs.cur_reg.1,
                        "next_registration_by_slot": regs.nxt, "next_key_generation": regs.nxt_reg.1,
                        "epoch_change_after_event": if transition { Some(ci.pre.len()) } else { None },
                        "entities": ents, "stakes": STAKES, "events": desc_evs, "all_kinds": ci.kinds,
                        "stored_rows": rows.iter().map(|(e, r)| serde_json::json!({"entity": e, "label": r.0, "sigma": format!("{:?}", r.1), "slot": r.2, "indexes": r.3})).collect::<Vec<_>>(),
                        "certificate_signers": certs}),
                    model: Some(model),
                    impl_obs,
                    holds: Some(verdict.ok),
                    why: verdict.why,
                    known: verdict.known,
                    nontrivial,
                    key,
                });
            }
        }
        drop(world);
    }
    sink.finish();
    rt.shutdown_background();
}

fn fnv(s: &str) -> u64 {
    let mut h: u64 = 0xcbf29ce484222325;
    for b in s.bytes() {
        h ^= b as u64;
        h = h.wrapping_mul(0x100000001b3);
    }
    h
}
