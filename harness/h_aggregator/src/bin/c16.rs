//! C16: a stored single signature is attributed to the party whose registered key produced it.
//!
//! One "world" = a real leader aggregator (the repository's `RuntimeTester`: real services, real
//! SQLite, real keys) brought to epoch 2 with CURRENT registration G (3-5 parties) and NEXT
//! registration S (a different subset in most worlds).  One case = one fresh CardanoDatabase
//! beacon of that epoch and a list of events: submissions of (label, signature) pairs through
//!   * the real `register-signatures` HTTP handler (JSON message -> adapter -> authenticator ->
//!     certifier; hook `mithril_aggregator::verif::http_register_signature`),
//!   * `CertifierService::register_single_signature` directly (BufferedCertifierService on top of
//!     MithrilCertifierService),
//!   * the DMQ path: `SequentialSignatureProcessor` over a one-batch consumer,
//! `Open` (= `create_open_message`, with the buffered hand-over) and `Seal`
//! (= `create_certificate`).  Observed: outcome class of every event, the stored rows of the
//! open message (label, provenance of sigma, slot, indexes, won_indexes field), the buffer, the
//! signers of the certificate.  Compared with `C16.Model.run`.
//!
//! `holds` is judged from the harness's own provenance table (which key made which sigma for
//! which message / registration), never from the model.
use std::collections::{BTreeMap, BTreeSet, HashMap};
use std::path::PathBuf;
use std::sync::Arc;
use std::time::Duration;

use h_aggregator::test_extensions::RuntimeTester;
use hc::{coq, Case, Rng, Sink};
use mithril_aggregator::database::repository::BufferedSingleSignatureRepository;
use mithril_aggregator::services::{
    BufferedSingleSignatureStore, CertifierServiceError, SequentialSignatureProcessor, SignatureConsumer,
    SignatureProcessor, SignatureRegistrationStatus,
};
use mithril_aggregator::{verif, ServeCommandConfiguration};
use mithril_common::crypto_helper::ProtocolSingleSignature;
use mithril_common::entities::{
    BlockNumber, CardanoDbBeacon, ChainPoint, Epoch, ProtocolMessage, ProtocolParameters, SignedEntityType,
    SignedEntityTypeDiscriminants as D, SingleSignature, SingleSignatureAuthenticationStatus, SlotNumber,
    StakeDistribution, TimePoint,
};
use mithril_common::messages::{RegisterSignatureMessageHttp, SignedEntityTypeMessage};
use mithril_common::protocol::ToMessage;
use mithril_common::test::builder::{MithrilFixture, MithrilFixtureBuilder, StakeDistributionGenerationMethod};
use mithril_common::test::double::fake_keys;
use mithril_common::StdResult;
use mithril_persistence::sqlite::ConnectionBuilder;

const NP: usize = 6; // parties 0..4 may register, party 5 never does (outsider with a real key)
const M: u64 = 20;
const PHI_F: f64 = 0.65;
const STAKES: [u64; NP] = [10, 10, 14, 8, 12, 9]; // parties 0 and 1 have equal stake
const ENT: u64 = 7; // model id of the case's entity
const MSG: u64 = 70; // model id of its protocol message
const MSG_OTHER: u64 = 71; // another message (replays)

// ------------------------------------------------------------------ fixtures

struct Fx {
    params: ProtocolParameters,
    ids: Vec<String>,
    subs: HashMap<Vec<usize>, MithrilFixture>,
    /// registration set -> parties in slot order
    slots: HashMap<Vec<usize>, Vec<usize>>,
}

impl Fx {
    fn new(k: u64) -> Fx {
        let params = ProtocolParameters { k, m: M, phi_f: PHI_F };
        let base = MithrilFixtureBuilder::default().with_signers(NP).with_protocol_parameters(params.clone()).build();
        let ids: Vec<String> = base.signers_with_stake().iter().map(|s| s.party_id.clone()).collect();
        Fx { params, ids, subs: HashMap::new(), slots: HashMap::new() }
    }
    fn sub(&mut self, set: &[usize]) -> &MithrilFixture {
        if !self.subs.contains_key(set) {
            let sd: StakeDistribution =
                set.iter().map(|i| (self.ids[*i].clone(), STAKES[*i])).collect::<BTreeMap<_, _>>().into_iter().collect();
            let fx = MithrilFixtureBuilder::default()
                .with_protocol_parameters(self.params.clone())
                .with_stake_distribution(StakeDistributionGenerationMethod::Custom(sd))
                .build();
            self.subs.insert(set.to_vec(), fx);
        }
        &self.subs[set]
    }
    fn sign(&mut self, party: usize, set: &[usize], msg: &ProtocolMessage) -> Option<SingleSignature> {
        let pid = self.ids[party].clone();
        self.sub(set).signers_fixture().iter().find(|s| s.signer_with_stake.party_id == pid).and_then(|s| s.sign(msg))
    }
    /// slot order of a registration, learnt from the signer_index of honest signatures on probe messages
    fn slot_order(&mut self, set: &[usize]) -> Vec<usize> {
        if let Some(v) = self.slots.get(set) {
            return v.clone();
        }
        let mut by_party: BTreeMap<usize, u64> = BTreeMap::new();
        for probe in 0..400u64 {
            if by_party.len() == set.len() {
                break;
            }
            let mut pm = ProtocolMessage::new();
            pm.set_message_part(mithril_common::entities::ProtocolMessagePartKey::SnapshotDigest, format!("probe-{}", probe));
            for p in set {
                if !by_party.contains_key(p) {
                    if let Some(s) = self.sign(*p, set, &pm) {
                        by_party.insert(*p, parts(&s).1);
                    }
                }
            }
        }
        assert_eq!(by_party.len(), set.len(), "could not learn every slot");
        let mut v: Vec<(u64, usize)> = by_party.iter().map(|(p, s)| (*s, *p)).collect();
        v.sort();
        let order: Vec<usize> = v.iter().map(|x| x.1).collect();
        assert!(v.iter().enumerate().all(|(i, x)| x.0 == i as u64), "slots are not 0..n");
        self.slots.insert(set.to_vec(), order.clone());
        order
    }
}

/// (sigma bytes as hex, signer_index, indexes) of the protocol signature
fn parts(s: &SingleSignature) -> (String, u64, Vec<u64>) {
    let v = serde_json::to_value(s.to_protocol_signature()).unwrap();
    let sigma: Vec<u8> = v["sigma"].as_array().unwrap().iter().map(|b| b.as_u64().unwrap() as u8).collect();
    let idx: Vec<u64> = v["indexes"].as_array().unwrap().iter().map(|b| b.as_u64().unwrap()).collect();
    (hex::encode(sigma), v["signer_index"].as_u64().unwrap(), idx)
}

/// same sigma, other signer_index / index list
fn rebuild(s: &SingleSignature, slot: u64, idxs: &[u64]) -> ProtocolSingleSignature {
    fn back<T: serde::de::DeserializeOwned>(_like: &T, v: serde_json::Value) -> T {
        serde_json::from_value(v).unwrap()
    }
    let stm = s.to_protocol_signature();
    let mut v = serde_json::to_value(&stm).unwrap();
    v["signer_index"] = serde_json::json!(slot);
    v["indexes"] = serde_json::json!(idxs);
    back(&stm, v).into()
}

// ------------------------------------------------------------------ case DSL

#[derive(Clone, Copy, PartialEq, Eq, Debug, PartialOrd, Ord)]
enum Lab {
    Party(usize),
    Upper(usize),
    Unreg,
    Empty,
}
impl Lab {
    fn code(self) -> u64 {
        match self {
            Lab::Party(i) => i as u64,
            Lab::Upper(i) => 100 + i as u64,
            Lab::Unreg => 200,
            Lab::Empty => 201,
        }
    }
    fn real(self, ids: &[String]) -> String {
        match self {
            Lab::Party(i) => ids[i].clone(),
            Lab::Upper(i) => ids[i].to_uppercase(),
            Lab::Unreg => "pool1unregisteredunregisteredunregisteredunregistered00".to_string(),
            Lab::Empty => String::new(),
        }
    }
}
fn lab_of(ids: &[String], s: &str) -> u64 {
    for (i, id) in ids.iter().enumerate() {
        if id == s {
            return i as u64;
        }
        if id.to_uppercase() == s {
            return 100 + i as u64;
        }
    }
    if s.is_empty() {
        201
    } else {
        200
    }
}

/// who made a sigma: key of `party` on message `msg` for registration `set`; or junk
#[derive(Clone, PartialEq, Eq, Debug)]
enum Prov {
    Made { party: usize, msg: u64, set: Vec<usize> },
    Junk(u64),
}

#[derive(Clone, Debug)]
struct Sg {
    label: Lab,
    prov: Prov,
    slot: u64,
    idxs: Vec<u64>,
    won: Vec<u64>,
    /// all indexes this sigma wins (honest list)
    full: Vec<u64>,
    sigma_hex: String,
    real: SingleSignature,
    what: &'static str,
    honest: bool,
}

#[derive(Clone, Copy, PartialEq, Eq, Debug)]
enum Path {
    Http,
    Direct,
    Dmq,
}

#[derive(Clone, Debug)]
enum Ev {
    Sub { path: Path, claimed: u64, sg: Sg },
    Open,
    Seal,
}

struct Regs {
    cur: Vec<usize>,      // slot order
    nxt: Vec<usize>,      // slot order
    cur_set: Vec<usize>,  // sorted
    nxt_set: Vec<usize>,  // sorted
}

fn coq_reg(order: &[usize]) -> String {
    coq::list(
        &order
            .iter()
            .map(|p| format!("{{| p_label := {}; p_vk := {}; p_stake := {} |}}", coq::n(*p as u64), coq::n(10 + *p as u64), coq::n(STAKES[*p])))
            .collect::<Vec<_>>(),
    )
}

impl Sg {
    fn coq_sigma(&self, fx: &mut Fx, regs: &Regs) -> String {
        match &self.prov {
            Prov::Junk(n) => format!("(Junk {})", coq::n(*n)),
            Prov::Made { party, msg, set } => {
                let r = if *set == regs.cur_set {
                    "cur".to_string()
                } else if *set == regs.nxt_set {
                    "nxt".to_string()
                } else {
                    coq_reg(&fx.slot_order(set))
                };
                format!("(SigOf {} (payload {} {}))", coq::n(10 + *party as u64), r, coq::n(*msg))
            }
        }
    }
    fn coq(&self, fx: &mut Fx, regs: &Regs) -> String {
        format!(
            "{{| s_label := {}; s_sigma := {}; s_slot := {}; s_idxs := {}; s_won := {} |}}",
            coq::n(self.label.code()),
            self.coq_sigma(fx, regs),
            coq::n(self.slot),
            coq::list_n(&self.idxs),
            coq::list_n(&self.won)
        )
    }
    fn json(&self) -> serde_json::Value {
        serde_json::json!({"what": self.what, "label": format!("{:?}", self.label), "sigma": format!("{:?}", self.prov),
            "slot": self.slot, "indexes": self.idxs, "won_indexes_field": self.won, "all_won": self.full})
    }
}

// ------------------------------------------------------------------ world

struct World {
    tester: RuntimeTester,
    buf_repo: BufferedSingleSignatureRepository,
    regs: Regs,
    epoch: u64,
    next_imm: u64,
}

struct OneBatch(tokio::sync::Mutex<Option<Vec<(SingleSignature, SignedEntityType)>>>);
#[async_trait::async_trait]
impl SignatureConsumer for OneBatch {
    async fn get_signatures(&self) -> StdResult<Vec<(SingleSignature, SignedEntityType)>> {
        Ok(self.0.lock().await.take().unwrap_or_default())
    }
    fn get_origin_tag(&self) -> String {
        "DMQ".to_string()
    }
}

impl World {
    async fn new(fx: &mut Fx, g: Vec<usize>, s: Vec<usize>, dir: PathBuf) -> World {
        let _ = std::fs::remove_dir_all(&dir);
        std::fs::create_dir_all(&dir).unwrap();
        let cfg = ServeCommandConfiguration {
            protocol_parameters: Some(fx.params.clone()),
            signed_entity_types: Some(D::CardanoDatabase.to_string()),
            data_stores_directory: dir.join("stores"),
            ..ServeCommandConfiguration::new_sample(dir.join("snap"))
        };
        let db = dir.join("stores").join("aggregator.sqlite3");
        let mut tester = RuntimeTester::build(
            TimePoint {
                epoch: Epoch(1),
                immutable_file_number: 1,
                chain_point: ChainPoint {
                    slot_number: SlotNumber(10),
                    block_number: BlockNumber(100),
                    block_hash: "block_hash-100".to_string(),
                },
            },
            cfg,
        )
        .await;
        let gfix = fx.sub(&g).clone();
        tester.init_state_from_fixture(&gfix).await.unwrap();
        tester.register_genesis_certificate(&gfix).await.unwrap();
        // epoch 1: idle -> ready (opens the registration round for epoch 2)
        tester.cycle().await.unwrap();
        let sf: Vec<_> = gfix.signers_fixture().into_iter().filter(|x| s.iter().any(|i| fx.ids[*i] == x.signer_with_stake.party_id)).collect();
        tester.register_signers(&sf).await.unwrap();
        tester.increase_epoch().await.unwrap();
        // epoch 2: ready -> idle -> ready ; current = G (recorded for 1), next = S (recorded for 2)
        for _ in 0..3 {
            tester.cycle().await.unwrap();
            if tester.runtime.state_label().to_string() == "ready" && *tester.observer.current_time_point().await.epoch == 2 {
                break;
            }
        }
        let conn = ConnectionBuilder::open_file(&db).build().unwrap();
        let buf_repo = BufferedSingleSignatureRepository::new(Arc::new(conn));
        let regs = Regs { cur: fx.slot_order(&g), nxt: fx.slot_order(&s), cur_set: g, nxt_set: s };
        World { tester, buf_repo, regs, epoch: 2, next_imm: 1000 }
    }

    async fn message_for(&mut self, imm: u64) -> ProtocolMessage {
        self.tester.digester.update_digest(format!("c16-e{}-i{}", self.epoch, imm)).await;
        self.tester.digester.update_merkle_tree(vec![imm.to_string()]).await;
        self.tester
            .dependencies
            .signable_builder_service
            .compute_protocol_message(SignedEntityType::CardanoDatabase(CardanoDbBeacon::new(self.epoch, imm)))
            .await
            .unwrap()
    }

    async fn clear_buffer(&self) {
        let all = self.buf_repo.get_buffered_signatures(D::CardanoDatabase).await.unwrap();
        self.buf_repo.remove_buffered_signatures(D::CardanoDatabase, all).await.unwrap();
    }
}

/// a panic inside the polled future becomes `Err(())` (an observation, not a harness crash)
struct CatchUnwind<F>(std::pin::Pin<Box<F>>);
impl<F: std::future::Future> std::future::Future for CatchUnwind<F> {
    type Output = Result<F::Output, ()>;
    fn poll(mut self: std::pin::Pin<&mut Self>, cx: &mut std::task::Context<'_>) -> std::task::Poll<Self::Output> {
        let inner = &mut self.0;
        match std::panic::catch_unwind(std::panic::AssertUnwindSafe(|| inner.as_mut().poll(cx))) {
            Ok(std::task::Poll::Ready(v)) => std::task::Poll::Ready(Ok(v)),
            Ok(std::task::Poll::Pending) => std::task::Poll::Pending,
            Err(_) => std::task::Poll::Ready(Err(())),
        }
    }
}
fn guarded<F: std::future::Future>(f: F) -> CatchUnwind<F> {
    CatchUnwind(Box::pin(f))
}
const PANIC: u64 = 99;

fn status_class(code: u16) -> u64 {
    match code {
        201 => 0,
        202 => 1,
        404 => 2,
        410 => 3,
        500 => 4,
        400 => 5,
        other => 900 + other as u64,
    }
}

// ------------------------------------------------------------------ one case

struct Outcome {
    obs: String,
    ev_out: Vec<u64>,
    rows: Vec<(u64, Option<Prov>, u64, Vec<u64>, Vec<u64>)>, // label, provenance, slot, idxs, won field
    buf: Vec<(u64, Option<Prov>, u64, Vec<u64>, Vec<u64>)>,
    certs: Vec<Vec<u64>>,
}

fn prov_obs(p: &Option<Prov>, regs: &Regs) -> String {
    match p {
        Some(Prov::Made { party, msg, set }) => {
            let rid = if *set == regs.cur_set { 0 } else if *set == regs.nxt_set { 1 } else { 2 };
            coq::ol(&[coq::on(10 + *party as u64), coq::on(*msg), coq::on(rid)])
        }
        Some(Prov::Junk(n)) => coq::ol(&[coq::on(999), coq::on(*n)]),
        None => coq::ol(&[coq::on(888)]), // a sigma the harness never produced
    }
}

async fn run_case(w: &mut World, fx: &Fx, evs: &[Ev], provs: &HashMap<String, Prov>, entity: &SignedEntityType, pm: &ProtocolMessage, other_msg: &str) -> Outcome {
    w.clear_buffer().await;
    let deps = &w.tester.dependencies;
    let mut ev_out = vec![];
    let mut certs: Vec<Vec<u64>> = vec![];
    for ev in evs {
        match ev {
            Ev::Open => {
                let r = guarded(deps.certifier_service.create_open_message(entity, pm)).await;
                ev_out.push(match r {
                    Ok(Ok(_)) => 0,
                    Ok(Err(_)) => 9,
                    Err(()) => PANIC,
                });
            }
            Ev::Seal => match guarded(deps.certifier_service.create_certificate(entity)).await.unwrap_or_else(|_| Err(anyhow::anyhow!("panic"))) {
                Ok(Some(c)) => {
                    let mut s: Vec<u64> = c.metadata.signers.iter().map(|p| lab_of(&fx.ids, &p.party_id)).collect();
                    s.sort();
                    certs.push(s);
                    ev_out.push(0);
                }
                Ok(None) => ev_out.push(1),
                Err(e) => match e.downcast_ref::<CertifierServiceError>() {
                    Some(CertifierServiceError::NotFound(_)) => ev_out.push(2),
                    Some(CertifierServiceError::AlreadyCertified(_)) => ev_out.push(3),
                    _ => ev_out.push(if e.to_string() == "panic" { PANIC } else { 98 }),
                },
            },
            Ev::Sub { path, claimed, sg } => {
                let mut sig = sg.real.clone();
                sig.authentication_status = SingleSignatureAuthenticationStatus::Unauthenticated;
                let out = match path {
                    Path::Http => {
                        let message = RegisterSignatureMessageHttp {
                            signed_entity_type: SignedEntityTypeMessage::Known(entity.clone()),
                            party_id: sig.party_id.clone(),
                            signature: sig.signature.to_json_hex().unwrap(),
                            won_indexes: sig.won_indexes.clone(),
                            signed_message: if *claimed == MSG { pm.to_message() } else { other_msg.to_string() },
                        };
                        guarded(verif::http_register_signature(deps, message)).await.map(status_class).unwrap_or(PANIC)
                    }
                    Path::Direct => match guarded(deps.certifier_service.register_single_signature(entity, &sig)).await {
                        Err(()) => PANIC,
                        Ok(Ok(SignatureRegistrationStatus::Registered)) => 0,
                        Ok(Ok(SignatureRegistrationStatus::Buffered)) => 1,
                        Ok(Err(e)) => match e.downcast_ref::<CertifierServiceError>() {
                            Some(CertifierServiceError::NotFound(_)) => 2,
                            Some(CertifierServiceError::AlreadyCertified(_)) | Some(CertifierServiceError::Expired(_)) => 3,
                            Some(CertifierServiceError::InvalidSingleSignature(..)) => 4,
                            _ => 97,
                        },
                    },
                    Path::Dmq => {
                        let (_tx, rx) = tokio::sync::watch::channel(());
                        let p = SequentialSignatureProcessor::new(
                            Arc::new(OneBatch(tokio::sync::Mutex::new(Some(vec![(sig.clone(), entity.clone())])))),
                            deps.certifier_service.clone(),
                            rx,
                            w.tester.metrics_service.clone(),
                            Duration::from_millis(1),
                            slog::Logger::root(slog::Discard, slog::o!()),
                        );
                        match guarded(p.process_signatures()).await {
                            Ok(Ok(_)) => 10,
                            Ok(Err(_)) => 11,
                            Err(()) => PANIC,
                        }
                    }
                };
                ev_out.push(out);
            }
        }
    }
    let conv = |s: &SingleSignature| {
        let (hx, slot, idxs) = parts(s);
        (lab_of(&fx.ids, &s.party_id), provs.get(&hx).cloned(), slot, idxs, s.won_indexes.clone())
    };
    let mut rows: Vec<_> = match deps.certifier_service.get_open_message(entity).await.unwrap() {
        Some(om) => om.single_signatures.iter().map(conv).collect(),
        None => vec![],
    };
    rows.sort_by_key(|r| r.0);
    let mut buf: Vec<_> = w.buf_repo.get_buffered_signatures(D::CardanoDatabase).await.unwrap().iter().map(conv).collect();
    buf.sort_by_key(|r| r.0);
    let row_obs = |r: &(u64, Option<Prov>, u64, Vec<u64>, Vec<u64>)| {
        coq::ol(&[coq::on(r.0), prov_obs(&r.1, &w.regs), coq::on(r.2), coq::oln(&r.3), coq::oln(&r.4)])
    };
    let obs = coq::ol(&[
        coq::ol(&ev_out.iter().map(|x| coq::on(*x)).collect::<Vec<_>>()),
        coq::ol(&[
            coq::ol(&rows.iter().map(|r| coq::ol(&[coq::on(ENT), row_obs(r)])).collect::<Vec<_>>()),
            coq::ol(&buf.iter().map(row_obs).collect::<Vec<_>>()),
            coq::ol(&certs.iter().map(|s| coq::ol(&[coq::on(ENT), coq::oln(s)])).collect::<Vec<_>>()),
        ]),
    ]);
    Outcome { obs, ev_out, rows, buf, certs }
}

// ------------------------------------------------------------------ oracle (provenance only)

struct Verdict {
    ok: bool,
    why: Option<String>,
    known: Option<String>,
}

fn judge(evs: &[Ev], out: &Outcome, regs: &Regs) -> Verdict {
    let bad = |why: String| Verdict { ok: false, why: Some(why), known: None };
    let known = |why: String, k: &str| Verdict { ok: false, why: Some(why), known: Some(k.to_string()) };
    let genuine = |label: u64, p: &Option<Prov>| match p {
        Some(Prov::Made { party, msg, set }) => *party as u64 == label && *msg == MSG && *set == regs.cur_set && regs.cur_set.contains(party),
        _ => false,
    };
    if let Some(i) = out.ev_out.iter().position(|o| *o == PANIC) {
        return bad(format!("the implementation panicked while handling event {}", i));
    }
    // (1) every stored row: sigma made by the key registered (current epoch) by the row's party, for this message
    for r in &out.rows {
        if !genuine(r.0, &r.1) {
            return bad(format!("row stored under label {} holds a sigma of provenance {:?}: not a signature of this open message by the key that party registered", r.0, r.1));
        }
    }
    // (2) no sigma under two names
    for a in &out.rows {
        for b in &out.rows {
            if a.0 != b.0 && a.1 == b.1 {
                return bad(format!("the same sigma is stored under labels {} and {}", a.0, b.0));
            }
        }
    }
    // (3) certificate signers all truly signed
    for c in &out.certs {
        for l in c {
            if !out.rows.iter().any(|r| r.0 == *l && genuine(r.0, &r.1)) {
                return bad(format!("certificate lists signer {} which has no genuine signature stored", l));
            }
        }
    }
    // (4) honest contributions: an honest submission (own full signature, own name) made while the round is
    // open, or buffered before it opens, must be there at the end, complete
    let open_at = evs.iter().position(|e| matches!(e, Ev::Open));
    let seal_ok_at = evs.iter().zip(&out.ev_out).position(|(e, o)| matches!(e, Ev::Seal) && *o == 0);
    let mut later_known: Option<Verdict> = None;
    for (i, ev) in evs.iter().enumerate() {
        let Ev::Sub { path, sg, .. } = ev else { continue };
        if !sg.honest {
            continue;
        }
        let Lab::Party(p) = sg.label else { continue };
        let before_open = open_at.map(|o| i < o).unwrap_or(true);
        let after_seal = seal_ok_at.map(|s| i > s).unwrap_or(false);
        let expected_out: u64 = match (path, before_open, after_seal) {
            (Path::Dmq, _, _) => 10,
            (Path::Direct, true, _) => 2,
            (_, true, _) => 1,
            (_, false, true) => 3,
            (_, false, false) => 0,
        };
        if out.ev_out[i] != expected_out {
            return bad(format!("honest submission of party {} (event {}) got outcome {} instead of {}", p, i, out.ev_out[i], expected_out));
        }
        let contributes = match (path, before_open, after_seal) {
            (Path::Direct, true, _) => false,
            (_, true, _) => open_at.is_some(),
            (_, false, s) => !s,
        };
        if !contributes {
            continue;
        }
        // DMQ labels are transport-authenticated: a later DMQ message labelled p is p's own act
        let self_displaced = before_open
            && evs[i + 1..open_at.unwrap()].iter().any(|e| matches!(e, Ev::Sub { path: Path::Dmq, sg: s2, .. } if s2.label == sg.label && !s2.honest));
        if self_displaced {
            continue;
        }
        match out.rows.iter().find(|r| r.0 == p as u64) {
            None => {
                // displaced in the buffer by a replay of p's own (other-message) signature through HTTP?
                let replay = before_open
                    && evs[i + 1..open_at.unwrap()].iter().any(|e| matches!(e, Ev::Sub { path: Path::Http, sg: s2, .. }
                        if s2.label == sg.label && matches!(&s2.prov, Prov::Made { party, .. } if *party == p) && s2.sigma_hex != sg.sigma_hex));
                if replay {
                    later_known.get_or_insert(known(
                        format!("honest buffered signature of party {} was displaced by a replay of its own signature of another message / registration: no row after the round opened", p),
                        "C16-buffer-replay",
                    ));
                } else {
                    return bad(format!("honest signature of party {} (event {}) is not stored at the end", p, i));
                }
            }
            Some(r) => {
                let have: BTreeSet<u64> = r.3.iter().copied().collect();
                if !sg.full.iter().all(|x| have.contains(x)) {
                    let subset_replay = evs.iter().enumerate().any(|(j, e)| j != i && matches!(e, Ev::Sub { sg: s2, .. }
                        if s2.label == sg.label && s2.sigma_hex == sg.sigma_hex && s2.idxs.len() < sg.full.len()));
                    if subset_replay {
                        later_known.get_or_insert(known(
                            format!("party {}'s stored row carries indexes {:?} instead of the {:?} it won: a copy of its own signature with a reduced index list overwrote (or pre-empted) the complete one", p, r.3, sg.full),
                            "C16-index-subset-replay",
                        ));
                    } else {
                        return bad(format!("party {}'s stored row lost indexes: {:?} instead of {:?}", p, r.3, sg.full));
                    }
                }
            }
        }
    }
    let _ = &out.buf;
    later_known.unwrap_or(Verdict { ok: true, why: None, known: None })
}

// ------------------------------------------------------------------ generator

struct CaseIn {
    evs: Vec<Ev>,
    lot: Vec<(String, u64, Vec<u64>)>, // (coq sigma, stake, won)
    provs: HashMap<String, Prov>,
    kinds: BTreeSet<&'static str>,
}

#[allow(clippy::too_many_arguments)]
fn gen_case(rng: &mut Rng, fx: &mut Fx, regs: &Regs, pm: &ProtocolMessage, pm_other: &ProtocolMessage, thorough: bool) -> CaseIn {
    let ids = fx.ids.clone();
    let cur = regs.cur_set.clone();
    let nxt = regs.nxt_set.clone();
    let all6: Vec<usize> = (0..NP).collect();
    let mut provs: HashMap<String, Prov> = HashMap::new();
    let mut lot: BTreeMap<String, (Prov, u64, Vec<u64>)> = BTreeMap::new();
    // base signatures: (party, msg id, set) -> honest SingleSignature
    let mut base: HashMap<(usize, u64, Vec<usize>), SingleSignature> = HashMap::new();
    let combos: Vec<(u64, &ProtocolMessage, Vec<usize>)> =
        vec![(MSG, pm, cur.clone()), (MSG_OTHER, pm_other, cur.clone()), (MSG, pm, nxt.clone()), (MSG, pm, all6.clone())];
    for (mid, m, set) in &combos {
        for p in set {
            if let Some(s) = fx.sign(*p, set, m) {
                let (hx, _slot, idxs) = parts(&s);
                let pr = Prov::Made { party: *p, msg: *mid, set: set.clone() };
                // identical registrations give identical signatures: keep the first provenance
                provs.entry(hx.clone()).or_insert(pr.clone());
                lot.entry(hx).or_insert((pr, STAKES[*p], idxs));
                base.insert((*p, *mid, set.clone()), s);
            }
        }
    }
    let junk: SingleSignature = {
        let ps: ProtocolSingleSignature = fake_keys::single_signature()[1].try_into().unwrap();
        SingleSignature::new(ids[0].clone(), ps.clone(), ps.get_concatenation_signature_indices())
    };
    provs.entry(parts(&junk).0).or_insert(Prov::Junk(1));

    let mk = |b: &SingleSignature, label: Lab, slot: Option<u64>, idxs: Option<Vec<u64>>, won: Option<Vec<u64>>, what: &'static str, honest: bool, provs: &HashMap<String, Prov>| -> Sg {
        let (hx, s0, i0) = parts(b);
        let slot = slot.unwrap_or(s0);
        let idxs = idxs.unwrap_or(i0.clone());
        let won = won.unwrap_or(idxs.clone());
        let sigp = rebuild(b, slot, &idxs);
        let mut real = SingleSignature::new(label.real(&ids), sigp, won.clone());
        real.authentication_status = SingleSignatureAuthenticationStatus::Unauthenticated;
        Sg { label, prov: provs[&hx].clone(), slot, idxs, won, full: i0, sigma_hex: hx, real, what, honest }
    };
    let paths = [Path::Http, Path::Direct, Path::Dmq];
    let signed_cur: Vec<usize> = cur.iter().copied().filter(|p| base.contains_key(&(*p, MSG, cur.clone()))).collect();
    let slot_in_cur = |p: usize| regs.cur.iter().position(|x| *x == p).map(|x| x as u64);
    let mut kinds: BTreeSet<&'static str> = BTreeSet::new();

    // honest submissions, random order / path / phase
    let mut honest: Vec<(bool, Ev)> = vec![]; // (before open?, event)
    let mut order = signed_cur.clone();
    rng.shuffle(&mut order);
    let skip = if rng.chance(1, 4) && order.len() > 1 { 1 } else { 0 };
    for p in order.iter().skip(skip) {
        let b = &base[&(*p, MSG, cur.clone())];
        let sg = mk(b, Lab::Party(*p), None, None, None, "honest", true, &provs);
        let early = rng.chance(1, 3);
        let path = if early { *rng.pick(&[Path::Http, Path::Dmq, Path::Http, Path::Direct]) } else { *rng.pick(&paths) };
        honest.push((early, Ev::Sub { path, claimed: MSG, sg }));
    }
    // adversarial submissions
    let n_adv = rng.range(1, if thorough { 4 } else { 3 });
    let mut adv: Vec<Ev> = vec![];
    for _ in 0..n_adv {
        let kind = rng.below(15);
        let path = *rng.pick(&paths);
        let a = *rng.pick(&cur);
        let others: Vec<usize> = cur.iter().copied().filter(|x| *x != a).collect();
        let bparty = *rng.pick(&others);
        let base_a = base.get(&(a, MSG, cur.clone()));
        let mut claimed = MSG;
        let sg: Option<Sg> = match kind {
            // A's signature under B's name (keeps A's slot)
            0 | 1 => base_a.map(|b| mk(b, Lab::Party(bparty), None, None, None, "relabel: A's signature under B's name", false, &provs)),
            // same, but naming B's slot too
            2 => base_a.map(|b| mk(b, Lab::Party(bparty), slot_in_cur(bparty), None, None, "relabel + B's slot", false, &provs)),
            // under an unregistered / upper-cased / empty / outsider / next-only name
            3 => base_a.map(|b| {
                let l = *rng.pick(&[Lab::Unreg, Lab::Upper(a), Lab::Empty, Lab::Party(5), Lab::Upper(bparty)]);
                mk(b, l, None, None, None, "A's signature under a name that is not registered", false, &provs)
            }),
            // own name, reduced index list (subset / empty)
            4 | 5 => base_a.map(|b| {
                let (_, _, i0) = parts(b);
                let keep: Vec<u64> = if rng.coin() { vec![] } else { i0.iter().copied().filter(|_| rng.coin()).collect() };
                let keep = if keep.len() == i0.len() { i0[1..].to_vec() } else { keep };
                mk(b, Lab::Party(a), None, Some(keep), None, "own signature, reduced index list", false, &provs)
            }),
            // own name, an index that did not win
            6 => base_a.and_then(|b| {
                let (_, _, i0) = parts(b);
                let extra = (0..M).find(|x| !i0.contains(x))?;
                let mut v = i0.clone();
                v.push(extra);
                Some(mk(b, Lab::Party(a), None, Some(v), None, "own signature plus an index that lost", false, &provs))
            }),
            // own name and sigma, another slot
            7 => base_a.map(|b| mk(b, Lab::Party(a), slot_in_cur(bparty), None, None, "own signature naming another slot", false, &provs)),
            // only the decorative won_indexes field altered
            8 => base_a.map(|b| mk(b, Lab::Party(a), None, None, Some(vec![0, 1, 2, 19]), "own signature, altered won_indexes field", false, &provs)),
            // signature made for the NEXT registration, own name / name of the party sitting at that slot in CURRENT
            9 | 10 => {
                let q = *rng.pick(&nxt);
                base.get(&(q, MSG, nxt.clone())).map(|b| {
                    let (_, s0, _) = parts(b);
                    let l = if kind == 9 { Lab::Party(q) } else { Lab::Party(*regs.cur.get(s0 as usize).unwrap_or(&q)) };
                    mk(b, l, None, None, None, "signature made for the next registration", false, &provs)
                })
            }
            // replay of B's signature of ANOTHER message under B's name (claims that message on HTTP)
            11 | 12 => base.get(&(bparty, MSG_OTHER, cur.clone())).map(|b| {
                claimed = MSG_OTHER;
                mk(b, Lab::Party(bparty), None, None, None, "replay of B's signature of another message", false, &provs)
            }),
            // junk sigma under a registered name
            13 => Some(mk(&junk, Lab::Party(bparty), slot_in_cur(bparty), Some(vec![1, 2]), None, "junk sigma under B's name", false, &provs)),
            // outsider key (never registered) under a registered name, naming that party's slot
            _ => base.get(&(5, MSG, all6.clone())).map(|b| mk(b, Lab::Party(bparty), slot_in_cur(bparty), None, None, "unregistered key under B's name", false, &provs)),
        };
        if let Some(sg) = sg {
            kinds.insert(sg.what);
            adv.push(Ev::Sub { path, claimed, sg });
        }
    }
    // interleave: phase 1 (before Open): early honest + some adversarial; phase 2: the rest
    let mut pre: Vec<Ev> = honest.iter().filter(|h| h.0).map(|h| h.1.clone()).collect();
    let mut post: Vec<Ev> = honest.iter().filter(|h| !h.0).map(|h| h.1.clone()).collect();
    for a in adv {
        if rng.chance(1, 3) {
            let at = rng.below(pre.len() as u64 + 1) as usize;
            pre.insert(at, a);
        } else {
            let at = rng.below(post.len() as u64 + 1) as usize;
            post.insert(at, a);
        }
    }
    let mut evs = pre;
    evs.push(Ev::Open);
    // sometimes an early Seal in the middle (then later submissions meet a certified message)
    if rng.chance(1, 6) && !post.is_empty() {
        let at = rng.below(post.len() as u64 + 1) as usize;
        post.insert(at, Ev::Seal);
    }
    evs.extend(post);
    if !rng.chance(1, 8) {
        evs.push(Ev::Seal);
    }
    let regs_ref = regs;
    let lot_v: Vec<(String, u64, Vec<u64>)> = lot
        .values()
        .map(|(pr, st, w)| {
            let tmp = Sg { label: Lab::Empty, prov: pr.clone(), slot: 0, idxs: vec![], won: vec![], full: vec![], sigma_hex: String::new(), real: junk.clone(), what: "", honest: false };
            (tmp.coq_sigma(fx, regs_ref), *st, w.clone())
        })
        .collect();
    CaseIn { evs, lot: lot_v, provs, kinds }
}

fn silence_stdout() {
    unsafe {
        let devnull = libc::open(b"/dev/null\0".as_ptr() as *const libc::c_char, libc::O_WRONLY);
        if devnull >= 0 {
            libc::dup2(devnull, 1);
        }
    }
}

fn main() {
    let args = hc::parse_args();
    silence_stdout();
    std::panic::set_hook(Box::new(|i| {
        // panics of the code under test are observations; the harness's own are reported
        if i.location().map(|l| l.file().contains("c16.rs")).unwrap_or(false) {
            eprintln!("{}", i);
        }
    }));
    let work = PathBuf::from(std::env::var("VERIF_WORK").unwrap_or_else(|_| ".".into()));
    let mut rng = Rng::new(args.seed ^ 0xC16);
    let mut sink = Sink::new(&args);
    let rt = tokio::runtime::Builder::new_multi_thread().worker_threads(4).enable_all().build().unwrap();
    // worlds: (k, current registration, next registration)
    let mut worlds: Vec<(u64, Vec<usize>, Vec<usize>)> = vec![
        (4, vec![0, 1, 2], vec![1, 2]),
        (7, vec![0, 1, 2, 3], vec![0, 2, 3]),
        (7, vec![0, 1, 2, 3, 4], vec![0, 1, 2, 3, 4]),
        (10, vec![0, 1, 2, 3, 4], vec![1, 3, 4]),
    ];
    if args.thorough {
        worlds.extend(vec![
            (4, vec![0, 1, 2, 3], vec![0, 1]),
            (10, vec![0, 1, 2, 3], vec![1, 2, 3]),
            (4, vec![0, 1, 2, 3, 4], vec![0, 4]),
            (7, vec![0, 1, 2], vec![0, 1, 2]),
        ]);
    }
    let per_world = if args.thorough { 260 } else { 45 };
    let mut fxs: HashMap<u64, Fx> = HashMap::new();
    for (wi, (k, g, s)) in worlds.iter().enumerate() {
        let mut wr = rng.fork();
        // does this world contain a wanted case?
        let first_id = wi as u64 * per_world;
        if let Some(o) = args.only {
            if o < first_id || o >= first_id + per_world {
                for _ in 0..per_world {
                    let _ = sink.wants();
                }
                continue;
            }
        }
        let fx = fxs.entry(*k).or_insert_with(|| Fx::new(*k));
        let mut world = rt.block_on(World::new(fx, g.clone(), s.clone(), work.join(format!("w{}", wi))));
        for _ in 0..per_world {
            let mut cr = wr.fork();
            let imm = world.next_imm;
            world.next_imm += 1;
            let wanted = sink.wants();
            let Some(id) = wanted else { continue };
            let pm = rt.block_on(world.message_for(imm));
            let pm_other = rt.block_on(world.message_for(imm + 500_000));
            let entity = SignedEntityType::CardanoDatabase(CardanoDbBeacon::new(world.epoch, imm));
            let regs = Regs { cur: world.regs.cur.clone(), nxt: world.regs.nxt.clone(), cur_set: world.regs.cur_set.clone(), nxt_set: world.regs.nxt_set.clone() };
            let ci = gen_case(&mut cr, fx, &regs, &pm, &pm_other, args.thorough);
            let out = rt.block_on(run_case(&mut world, fx, &ci.evs, &ci.provs, &entity, &pm, &pm_other.to_message()));
            let verdict = judge(&ci.evs, &out, &regs);
            // model term
            let evs_coq: Vec<String> = ci
                .evs
                .iter()
                .map(|e| match e {
                    Ev::Open => format!("Open {} {}", coq::n(ENT), coq::n(MSG)),
                    Ev::Seal => format!("Seal {}", coq::n(ENT)),
                    Ev::Sub { path, claimed, sg } => format!(
                        "Sub {} {} {} {}",
                        match path {
                            Path::Http => "Http",
                            Path::Direct => "Direct",
                            Path::Dmq => "Dmq",
                        },
                        coq::n(ENT),
                        coq::n(*claimed),
                        sg.coq(fx, &regs)
                    ),
                })
                .collect();
            let lot_coq: Vec<String> = ci.lot.iter().map(|(s, st, w)| format!("({}, {}, {})", s, coq::n(*st), coq::list_n(w))).collect();
            let model = format!(
                "(let cur := {} in let nxt := {} in C16.Model.run {{| e_lot := {}; e_cur := cur; e_next := nxt; e_k := {} |}} {})",
                coq_reg(&regs.cur),
                coq_reg(&regs.nxt),
                coq::list(&lot_coq),
                coq::n(*k),
                coq::list(&evs_coq)
            );
            let kind = if ci.kinds.is_empty() { "honest-only".to_string() } else { ci.kinds.iter().next().unwrap().to_string() };
            let desc_evs: Vec<serde_json::Value> = ci
                .evs
                .iter()
                .zip(&out.ev_out)
                .map(|(e, o)| match e {
                    Ev::Open => serde_json::json!({"open": true, "outcome": o}),
                    Ev::Seal => serde_json::json!({"seal": true, "outcome": o}),
                    Ev::Sub { path, claimed, sg } => serde_json::json!({"submit": sg.json(), "path": format!("{:?}", path), "claimed_message": claimed, "outcome": o}),
                })
                .collect();
            let nontrivial = ci.evs.iter().zip(&out.ev_out).any(|(e, _)| matches!(e, Ev::Sub { sg, .. } if !sg.honest)) && !out.rows.is_empty();
            let key = format!("{:x}", fnv(&format!("{:?}{:?}{}", regs.cur, regs.nxt, evs_coq.join(";"))));
            sink.push(Case {
                id,
                kind,
                desc: serde_json::json!({"k": k, "m": M, "phi_f": PHI_F, "current_registration_by_slot": regs.cur, "next_registration_by_slot": regs.nxt,
                    "stakes": STAKES, "events": desc_evs, "all_kinds": ci.kinds.iter().collect::<Vec<_>>(),
                    "stored_rows": out.rows.iter().map(|r| serde_json::json!({"label": r.0, "sigma": format!("{:?}", r.1), "slot": r.2, "indexes": r.3})).collect::<Vec<_>>(),
                    "certificate_signers": out.certs}),
                model: Some(model),
                impl_obs: out.obs.clone(),
                holds: Some(verdict.ok),
                why: verdict.why,
                known: verdict.known,
                nontrivial,
                key,
            });
        }
        drop(world);
    }
    sink.finish();
    rt.shutdown_background();
}

fn fnv(s: &str) -> u64 {
    let mut h: u64 = 0xcbf29ce484222325;
    for b in s.bytes() {
        h ^= b as u64;
        h = h.wrapping_mul(0x100000001b3);
    }
    h
}
