//! C14: the aggregator only publishes certificates clients can verify to genesis.
fn main() {
    h_aggregator::drv::main_with(h_aggregator::drv::Mode::C14)
}
