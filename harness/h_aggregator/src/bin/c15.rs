//! C15: an aggregator crash at any point leaves a verifiable store and resumable rounds.
fn main() {
    h_aggregator::drv::main_with(h_aggregator::drv::Mode::C15)
}
