//! C06, aggregator side (extra harness of property C06): the aggregate verification key the
//! AGGREGATOR's epoch service exposes for the next epoch is the one any other node (signer, client)
//! derives with `SignerBuilder` from the very registrations the service exposes — whatever the order
//! and history of registrations, re-registrations (rotated key, changed stake, same party ids) and
//! synchronisations (`update_next_signers_with_stake`, the follower's signer synchroniser path) that led
//! there.  Implementation-only cases (no model term): the oracle recomputes the key from the exposed
//! registrations, which is exactly the function C06's model proves order- and history-independent.
use hc::{coq, Case, Rng, Sink};
use mithril_aggregator::{dependency_injection::DependenciesBuilder, ServeCommandConfiguration};
use mithril_cardano_node_chain::test::double::FakeChainObserver;
use mithril_common::{
    crypto_helper::ProtocolAggregateVerificationKey,
    entities::{BlockNumber, ChainPoint, Epoch, ProtocolParameters, SignerWithStake, SlotNumber, TimePoint},
    protocol::SignerBuilder,
    test::builder::MithrilFixtureBuilder,
};
use std::path::PathBuf;
use std::sync::Arc;

fn avk_of(signers: &[SignerWithStake], params: &ProtocolParameters) -> Option<ProtocolAggregateVerificationKey> {
    SignerBuilder::new(signers, params).ok().map(|b| b.compute_aggregate_verification_key())
}
fn key_hex(s: &SignerWithStake) -> String {
    s.verification_key_for_concatenation.to_json_hex().unwrap_or_default()
}
fn canon(ss: &[SignerWithStake]) -> Vec<(String, u64, String)> {
    let mut v: Vec<(String, u64, String)> = ss.iter().map(|s| (s.party_id.clone(), s.stake, key_hex(s))).collect();
    v.sort();
    v
}

async fn run_case(rng: &mut Rng, dir: PathBuf, thorough: bool) -> (serde_json::Value, Option<String>) {
    let epoch = Epoch(rng.range(2, 6));
    let n = rng.range(2, if thorough { 7 } else { 5 }) as usize;
    let fixture = MithrilFixtureBuilder::default().with_signers(n).disable_signers_certification().build();
    // parties n.. only lend fresh, valid keys
    let mut donors: Vec<SignerWithStake> =
        MithrilFixtureBuilder::default().with_signers(n + 4).disable_signers_certification().build().signers_with_stake().split_off(n);
    let _ = std::fs::remove_dir_all(&dir);
    std::fs::create_dir_all(&dir).unwrap();
    let configuration = ServeCommandConfiguration {
        protocol_parameters: Some(fixture.protocol_parameters()),
        data_stores_directory: dir.join("stores"),
        ..ServeCommandConfiguration::new_sample(dir.join("tmp"))
    };
    let chain_observer = Arc::new(FakeChainObserver::new(Some(TimePoint::new(
        *epoch,
        1,
        ChainPoint::new(SlotNumber(10), BlockNumber(1), "block_hash-1"),
    ))));
    let logger = slog::Logger::root(slog::Discard, slog::o!());
    let mut deps_builder = DependenciesBuilder::new(logger, Arc::new(configuration));
    deps_builder.chain_observer = Some(chain_observer);
    let dependencies = deps_builder.build_serve_dependencies_container().await.unwrap();
    dependencies.init_state_from_fixture(&fixture, epoch).await;
    let epoch_service = deps_builder.get_epoch_service().await.unwrap();
    let store = deps_builder.get_verification_key_store().await.unwrap();
    let next_epoch = epoch.offset_to_next_signer_retrieval_epoch();

    let mut log: Vec<serde_json::Value> = vec![];
    let mut why: Option<String> = None;
    let mut svc = epoch_service.write().await;
    svc.inform_epoch(epoch).await.unwrap();
    svc.precompute_epoch_data().await.unwrap();
    let steps = rng.range(1, 4);
    for step in 0..=steps {
        if step > 0 {
            // one change of the registrations of the next signer retrieval epoch, then a synchronisation
            let current: Vec<SignerWithStake> = store.get_signers(next_epoch).await.unwrap().unwrap_or_default();
            let what = rng.below(6);
            let idx = if current.is_empty() { 0 } else { rng.below(current.len() as u64) as usize };
            // the store lists the latest registrant first: index 0 keeps the listing order unchanged
            let idx = if rng.coin() { 0 } else { idx };
            let desc = match (what, current.get(idx).cloned(), donors.pop()) {
                (0 | 1, Some(t), Some(d)) => {
                    let r = SignerWithStake { party_id: t.party_id.clone(), stake: t.stake, ..d };
                    store.save_verification_key(next_epoch, r).await.unwrap();
                    format!("party {} registers again with a rotated key (same stake)", t.party_id)
                }
                (2, Some(t), d) => {
                    if let Some(d) = d { donors.push(d); }
                    let r = SignerWithStake { stake: t.stake + 1 + rng.below(1000), ..t.clone() };
                    store.save_verification_key(next_epoch, r).await.unwrap();
                    format!("party {} registers again with another stake (same key)", t.party_id)
                }
                (3, Some(t), Some(d)) => {
                    let r = SignerWithStake { party_id: t.party_id.clone(), stake: t.stake + 7, ..d };
                    store.save_verification_key(next_epoch, r).await.unwrap();
                    format!("party {} registers again with a rotated key and another stake", t.party_id)
                }
                (4, _, Some(d)) => {
                    // a party the aggregator has never seen: the signer_registration table references the signer
                    // table, so the bare store refuses it (foreign key) - nothing changes
                    let id = d.party_id.clone();
                    let r = hc::catch(std::panic::AssertUnwindSafe(|| ()));
                    let _ = r;
                    donors.push(d);
                    format!("unknown party {} does not register (no change)", id)
                }
                (_, _, d) => {
                    if let Some(d) = d { donors.push(d); }
                    "no change".to_string()
                }
            };
            svc.update_next_signers_with_stake().await.unwrap();
            log.push(serde_json::json!({"step": step, "change": desc}));
        }
        let params = svc.next_protocol_parameters().unwrap().clone();
        let exposed = svc.next_signers_with_stake().unwrap().clone();
        let stored: Vec<SignerWithStake> = store.get_signers(next_epoch).await.unwrap().unwrap_or_default();
        let from_regs = avk_of(&exposed, &params);
        let from_service = svc.next_aggregate_verification_key().ok().cloned();
        let from_multi_signer = svc.next_protocol_multi_signer().ok().map(|m| m.compute_aggregate_verification_key());
        if why.is_none() {
            if canon(&exposed) != canon(&stored) {
                why = Some(format!("after step {step} the epoch service exposes next signers that are not the stored registrations"));
            } else if from_regs.is_none() || from_service != from_regs {
                why = Some(format!("after step {step} the aggregator's next aggregate verification key is not the key derived (signer / client path) from the very registrations it exposes"));
            } else if from_multi_signer != from_regs {
                why = Some(format!("after step {step} the aggregator's next multi-signer was built from other registrations than the ones it exposes"));
            }
        }
    }
    drop(svc);
    (serde_json::json!({"epoch": *epoch, "parties": n, "changes": log}), why)
}

fn main() {
    let args = hc::parse_args();
    let mut rng = Rng::new(args.seed ^ 0xc06a);
    let mut sink = Sink::new(&args);
    let work = PathBuf::from(std::env::var("VERIF_WORK").unwrap_or_else(|_| ".".into())).join("c06agg-dirs");
    let rt = tokio::runtime::Builder::new_multi_thread().worker_threads(4).enable_all().build().unwrap();
    let n = if args.thorough { 60 } else { 14 };
    for k in 0..n {
        let mut r = rng.fork();
        let Some(id) = sink.wants() else { continue };
        let dir = work.join(format!("case-{k}"));
        let thorough = args.thorough;
        let (desc, why) = rt.block_on(run_case(&mut r, dir.clone(), thorough));
        let _ = std::fs::remove_dir_all(&dir);
        sink.push(Case {
            id,
            kind: "aggregator/next-avk-after-resynchronisation".into(),
            desc,
            model: None,
            impl_obs: coq::ol(&[coq::ob(why.is_none())]),
            holds: Some(why.is_none()),
            why,
            known: None,
            nontrivial: true,
            key: format!("c06agg-{k}"),
        });
    }
    let _ = std::fs::remove_dir_all(&work);
    sink.finish();
}
