//! C11 — certified transaction, block and stake sets are reported exactly as signed.
//!
//! Real code on every case:
//!   * chain data goes through the real importer (`CardanoChainDataImporter`) into the real SQLite
//!     repository (`AggregatorCardanoChainDataRepository`), block-range roots included;
//!   * the SIGNED message comes from the real signable builders (`CardanoTransactionsSignableBuilder`,
//!     `CardanoBlocksTransactionsSignableBuilder`, `CardanoStakeDistributionSignableBuilder`);
//!   * honest responses come from the real prover services (`LegacyMithrilProverService`,
//!     `MithrilProverService`), then are altered;
//!   * the response goes through its JSON form into `CardanoTransactionsProofsMessage::verify`,
//!     `CardanoTransactionsProofsV2Message::verify`, `CardanoBlocksProofsMessage::verify`;
//!   * the message is recomputed by mithril-client's `MessageBuilder` (the source file
//!     /repo/mithril-client/src/message.rs is compiled into this binary by path inclusion) and compared
//!     by `CertificateMessage::match_message`.
//! The model (coq/C11/Model.v) receives the same response with every digest NAMED through the
//! dictionaries of the committed trees (technique of c09.rs), and must produce the same observation.
//! `holds` is judged from provenance only (which items the generated chain contains).

use hc::{coq, Case, Rng, Sink};
use serde_json::{json, Value};
use std::cell::RefCell;
use std::collections::{BTreeMap, HashMap, HashSet};
use std::path::PathBuf;
use std::sync::{Arc, RwLock};

use mithril_aggregator::database::repository::AggregatorCardanoChainDataRepository;
use mithril_aggregator::services::{
    AggregatorChainDataImporter, LegacyMithrilProverService, LegacyProverService, MithrilProverService, ProverService,
};
use mithril_cardano_node_chain::chain_importer::CardanoChainDataImporter;
use mithril_cardano_node_chain::entities::ScannedBlock;
use mithril_cardano_node_chain::test::double::DumbBlockScanner;
use mithril_common::crypto_helper::{
    MKMapProof, MKProof, MKTree, MKTreeLeafIndexer, MKTreeLeafPosition, MKTreeNode, MKTreeStoreInMemory, MKTreeStorer, ProtocolKey,
};
use mithril_common::entities::{
    BlockNumber, BlockNumberOffset, BlockRange, CardanoBlock, CardanoTransaction, Epoch, IntoMKTreeNode, ProtocolMessage,
    ProtocolMessagePartKey, SlotNumber, StakeDistribution,
};
use mithril_common::messages::{
    CardanoBlockMessagePart, CardanoBlocksProofsMessage, CardanoStakeDistributionMessage, CardanoTransactionMessagePart,
    CardanoTransactionsProofsMessage, CardanoTransactionsProofsV2Message, CardanoTransactionsSetProofMessagePart, CertificateMessage,
    MkSetProofMessagePart,
};
use mithril_common::signable_builder::{
    CardanoBlocksTransactionsSignableBuilder, CardanoStakeDistributionSignableBuilder, CardanoTransactionsSignableBuilder, SignableBuilder,
    StakeDistributionRetriever,
};
use mithril_common::test::double::Dummy;
use mithril_persistence::sqlite::{ConnectionBuilder, ConnectionOptions, SqliteConnectionPool};

// ---------------------------------------------------------------------------------------------
// mithril-client's message.rs compiled in place (crate-root names it imports are provided here)
#[allow(unused_macros)]
macro_rules! cfg_fs {
    ($($item:item)*) => { $( #[cfg(feature = "fs")] $item )* }
}
#[allow(unused_macros)]
macro_rules! cfg_unstable {
    ($($item:item)*) => { $( #[cfg(feature = "unstable")] $item )* }
}
pub type MithrilResult<T> = anyhow::Result<T>;
pub use mithril_common::messages::CardanoStakeDistributionMessage as CardanoStakeDistribution;
pub use mithril_common::messages::CertificateMessage as MithrilCertificate;
pub use mithril_common::messages::MithrilStakeDistributionMessage as MithrilStakeDistribution;
pub use mithril_common::messages::SignerWithStakeMessagePart as MithrilSigner;
pub use mithril_common::messages::{VerifiedCardanoBlocks, VerifiedCardanoTransactions, VerifiedCardanoTransactionsV2};
pub mod common {
    pub use mithril_common::entities::{ProtocolMessage, ProtocolMessagePartKey};
}
#[allow(dead_code, unexpected_cfgs)]
#[path = "/repo/mithril-client/src/message.rs"]
mod message;
use message::MessageBuilder;

mod cq {
    pub use hc::coq::*;
}

// ---------------------------------------------------------------------------------------------
// observing storer + named trees (from c09.rs)
pub struct Inner {
    leaves: RwLock<HashMap<Arc<MKTreeNode>, MKTreeLeafPosition>>,
    store: RwLock<HashMap<u64, Arc<MKTreeNode>>>,
}
thread_local! { static REG: RefCell<Vec<Arc<Inner>>> = RefCell::new(vec![]); }
#[derive(Clone)]
pub struct Obs(Arc<Inner>);
impl MKTreeLeafIndexer for Obs {
    fn set_leaf_position(&self, pos: MKTreeLeafPosition, node: Arc<MKTreeNode>) -> anyhow::Result<()> {
        self.0.leaves.write().unwrap().insert(node, pos);
        Ok(())
    }
    fn get_leaf_position(&self, node: &MKTreeNode) -> Option<MKTreeLeafPosition> {
        self.0.leaves.read().unwrap().get(node).cloned()
    }
    fn total_leaves(&self) -> usize {
        self.0.leaves.read().unwrap().len()
    }
    fn leaves(&self) -> Vec<MKTreeNode> {
        let l = self.0.leaves.read().unwrap();
        l.iter().map(|(leaf, position)| (position, leaf)).collect::<BTreeMap<_, _>>().into_values().map(|leaf| (**leaf).clone()).collect()
    }
}
impl MKTreeStorer for Obs {
    fn build() -> anyhow::Result<Self> {
        let i = Arc::new(Inner { leaves: RwLock::new(HashMap::new()), store: RwLock::new(HashMap::new()) });
        REG.with(|r| r.borrow_mut().push(i.clone()));
        Ok(Obs(i))
    }
    fn get_elem(&self, pos: u64) -> anyhow::Result<Option<Arc<MKTreeNode>>> {
        Ok(self.0.store.read().unwrap().get(&pos).cloned())
    }
    fn append(&self, pos: u64, elems: Vec<Arc<MKTreeNode>>) -> anyhow::Result<()> {
        let mut s = self.0.store.write().unwrap();
        for (i, e) in elems.into_iter().enumerate() {
            s.insert(pos + i as u64, e);
        }
        Ok(())
    }
}
fn take_reg() -> Vec<Arc<Inner>> {
    REG.with(|r| std::mem::take(&mut *r.borrow_mut()))
}

/// symbolic description of a node (Coq type C09.Model.mspec)
#[derive(Clone, Debug, PartialEq)]
pub enum M {
    N(u64, u64),
    Raw(Vec<u8>),
    Bag(u64, u64),
}
impl M {
    pub fn coq(&self) -> String {
        match self {
            M::N(t, p) => format!("(MN {} {})", cq::n(*t), cq::n(*p)),
            M::Raw(b) => format!("(MRaw {})", bytes_coq(b)),
            M::Bag(t, k) => format!("(MBag {} {})", cq::n(*t), cq::n(*k)),
        }
    }
}
pub type BV = (Vec<u8>, M);
pub fn merge(a: &[u8], b: &[u8]) -> Vec<u8> {
    (&MKTreeNode::new(a.to_vec()) + &MKTreeNode::new(b.to_vec())).to_vec()
}
fn get_peaks(size: u64) -> Vec<u64> {
    let mut peaks = vec![];
    if size == 0 {
        return peaks;
    }
    let mut pos = size;
    let mut peak_size = u64::MAX >> size.leading_zeros();
    let mut sum = 0;
    while peak_size > 0 {
        if pos >= peak_size {
            pos -= peak_size;
            peaks.push(sum + peak_size - 1);
            sum += peak_size;
        }
        peak_size >>= 1;
    }
    peaks
}

/// one committed tree rebuilt with the observing storer: names for every digest in it
pub struct T {
    pub leaves: Vec<Vec<u8>>,
    pub root: Vec<u8>,
    pub pos: Vec<u64>,
    pub name: HashMap<Vec<u8>, M>,
}
impl T {
    pub fn new(id: u64, leaves: Vec<Vec<u8>>) -> T {
        take_reg();
        let tree = MKTree::<Obs>::new(&leaves.iter().map(|l| MKTreeNode::new(l.clone())).collect::<Vec<_>>()).expect("MKTree::new");
        let reg = take_reg();
        assert_eq!(reg.len(), 1);
        let inner = &reg[0];
        let store: BTreeMap<u64, Vec<u8>> = inner.store.read().unwrap().iter().map(|(p, n)| (*p, n.to_vec())).collect();
        let size = store.len() as u64;
        let root = tree.compute_root().expect("root").to_vec();
        let lp = inner.leaves.read().unwrap();
        let pos: Vec<u64> = leaves.iter().map(|l| *lp.get(&MKTreeNode::new(l.clone())).expect("leaf position")).collect();
        let mut name: HashMap<Vec<u8>, M> = HashMap::new();
        let peaks = get_peaks(size);
        for k in (0..peaks.len()).rev() {
            let mut hs: Vec<Vec<u8>> = peaks[k..].iter().map(|p| store[p].clone()).collect();
            while hs.len() > 1 {
                let r = hs.pop().unwrap();
                let l = hs.pop().unwrap();
                hs.push(merge(&r, &l));
            }
            name.insert(hs.pop().unwrap(), M::Bag(id, k as u64));
        }
        for (p, b) in store.iter().rev() {
            name.insert(b.clone(), M::N(id, *p));
        }
        T { leaves, root, pos, name }
    }
}

/// an MKProof as the verifier sees it: bytes and names side by side
#[derive(Clone)]
pub struct P {
    pub root: BV,
    pub leaves: Vec<(u64, BV)>,
    pub size: u64,
    pub items: Vec<BV>,
}
fn node_json(b: &[u8]) -> Value {
    json!({ "hash": b })
}
fn node_bytes(v: &Value) -> Vec<u8> {
    v["hash"].as_array().expect("hash").iter().map(|x| x.as_u64().unwrap() as u8).collect()
}
impl P {
    pub fn json(&self) -> Value {
        json!({
            "inner_root": node_json(&self.root.0),
            "inner_leaves": self.leaves.iter().map(|(p, l)| json!([p, node_json(&l.0)])).collect::<Vec<_>>(),
            "inner_proof_size": self.size,
            "inner_proof_items": self.items.iter().map(|i| node_json(&i.0)).collect::<Vec<_>>(),
        })
    }
    pub fn of_real(p: &MKProof, names: &dyn Fn(&[u8]) -> M) -> P {
        let v = serde_json::to_value(p).expect("MKProof to JSON");
        let nb = |x: &Value| -> BV {
            let b = node_bytes(x);
            let m = names(&b);
            (b, m)
        };
        P {
            root: nb(&v["inner_root"]),
            leaves: v["inner_leaves"].as_array().unwrap().iter().map(|e| (e[0].as_u64().unwrap(), nb(&e[1]))).collect(),
            size: v["inner_proof_size"].as_u64().unwrap(),
            items: v["inner_proof_items"].as_array().unwrap().iter().map(nb).collect(),
        }
    }
    pub fn coq(&self) -> String {
        format!(
            "(PS {} {} {} {})",
            self.root.1.coq(),
            cq::list(&self.leaves.iter().map(|(p, l)| cq::pair(&cq::n(*p), &l.1.coq())).collect::<Vec<_>>()),
            cq::n(self.size),
            cq::list(&self.items.iter().map(|i| i.1.coq()).collect::<Vec<_>>())
        )
    }
    pub fn desc(&self) -> Value {
        json!({
            "root": format!("{:?}", self.root.1),
            "leaves": self.leaves.iter().map(|(p, l)| format!("{} -> {}", p, show(l))).collect::<Vec<_>>(),
            "mmr_size": self.size.to_string(),
            "items": self.items.iter().map(|i| format!("{:?}", i.1)).collect::<Vec<_>>(),
        })
    }
}
fn show(l: &BV) -> String {
    match &l.1 {
        M::Raw(b) => format!("{:?}", String::from_utf8_lossy(b)),
        m => format!("{:?}", m),
    }
}
#[derive(Clone)]
pub struct MP {
    pub master: P,
    pub subs: Vec<(BlockRange, MP)>,
}
fn key_bytes(k: &BlockRange) -> Vec<u8> {
    let n: MKTreeNode = k.clone().into();
    n.to_vec()
}
impl MP {
    pub fn json(&self) -> Value {
        json!({
            "master_proof": self.master.json(),
            "sub_proofs": self.subs.iter().map(|(k, p)| json!([serde_json::to_value(k).unwrap(), p.json()])).collect::<Vec<_>>(),
        })
    }
    pub fn real(&self) -> MKMapProof<BlockRange> {
        serde_json::from_value(self.json()).expect("MKMapProof from JSON")
    }
    pub fn of_real(p: &MKMapProof<BlockRange>, names: &dyn Fn(&[u8]) -> M) -> MP {
        let v = serde_json::to_value(p).unwrap();
        MP::of_json(&v, names)
    }
    fn of_json(v: &Value, names: &dyn Fn(&[u8]) -> M) -> MP {
        let master: MKProof = serde_json::from_value(v["master_proof"].clone()).unwrap();
        MP {
            master: P::of_real(&master, names),
            subs: v["sub_proofs"].as_array().unwrap().iter().map(|e| (serde_json::from_value(e[0].clone()).unwrap(), MP::of_json(&e[1], names))).collect(),
        }
    }
    pub fn coq(&self) -> String {
        format!(
            "(MPS {} {})",
            self.master.coq(),
            cq::list(&self.subs.iter().map(|(k, p)| cq::pair(&bytes_coq(&key_bytes(k)), &p.coq())).collect::<Vec<_>>())
        )
    }
    pub fn desc(&self) -> Value {
        json!({"master": self.master.desc(), "subs": self.subs.iter().map(|(k, p)| json!([format!("{}", k), p.desc()])).collect::<Vec<_>>()})
    }
}

// ---------------------------------------------------------------------------------------------
// Coq printing helpers
fn is_hx(s: &[u8]) -> Option<u64> {
    if s.len() == 8 && s.iter().all(|c| c.is_ascii_digit() || (b'a'..=b'f').contains(c)) {
        u64::from_str_radix(std::str::from_utf8(s).unwrap(), 16).ok()
    } else {
        None
    }
}
/// bytes as a Coq `list N`, compact for the 8-hex-digit hashes the generator uses
fn bytes_coq(b: &[u8]) -> String {
    match is_hx(b) {
        Some(n) => format!("(hx {})", cq::n(n)),
        None => cq::bytes(b),
    }
}

// ---------------------------------------------------------------------------------------------
// chains
#[derive(Clone, Debug, PartialEq, Eq, Hash, PartialOrd, Ord)]
enum It {
    Tx { h: String, bh: String, bn: u64, slot: u64 },
    Blk { bh: String, bn: u64, slot: u64 },
    Hash(String),
}
impl It {
    fn coq(&self) -> String {
        match self {
            It::Tx { h, bh, bn, slot } => format!("(ITx (Build_tx {} {} {} {}))", bytes_coq(h.as_bytes()), bytes_coq(bh.as_bytes()), cq::n(*bn), cq::n(*slot)),
            It::Blk { bh, bn, slot } => format!("(IBlk (Build_blk {} {} {}))", bytes_coq(bh.as_bytes()), cq::n(*bn), cq::n(*slot)),
            It::Hash(h) => format!("(IHash {})", bytes_coq(h.as_bytes())),
        }
    }
    /// the bytes the REAL code hashes as the leaf of this item
    fn real_leaf(&self) -> Vec<u8> {
        match self {
            It::Tx { h, bh, bn, slot } => {
                let part = CardanoTransactionMessagePart::new(h.clone(), BlockNumber(*bn), SlotNumber(*slot), bh.clone());
                CardanoTransaction::from(part).into_mk_tree_node().to_vec()
            }
            It::Blk { bh, bn, slot } => {
                let part = CardanoBlockMessagePart::new(bh.clone(), BlockNumber(*bn), SlotNumber(*slot));
                CardanoBlock::from(part).into_mk_tree_node().to_vec()
            }
            It::Hash(h) => {
                let n: MKTreeNode = h.clone().into();
                n.to_vec()
            }
        }
    }
    fn desc(&self) -> String {
        match self {
            It::Tx { h, bh, bn, slot } => format!("Tx({},{},{},{})", h, bh, bn, slot),
            It::Blk { bh, bn, slot } => format!("Block({},{},{})", bh, bn, slot),
            It::Hash(h) => format!("Hash({})", h),
        }
    }
}

/// the item of format `fmt` whose leaf is exactly `b` (None when there is none)
fn parse_leaf(fmt: u8, b: &[u8]) -> Option<It> {
    let s = std::str::from_utf8(b).ok()?;
    let canon = |t: &str| -> Option<u64> { t.parse::<u64>().ok().filter(|n| n.to_string() == t) };
    let it = match fmt {
        0 => It::Hash(s.to_string()),
        1 => {
            let rest = s.strip_prefix("Tx/")?;
            let v: Vec<&str> = rest.rsplitn(4, '/').collect();
            if v.len() != 4 {
                return None;
            }
            It::Tx { h: v[3].to_string(), bh: v[2].to_string(), bn: canon(v[1])?, slot: canon(v[0])? }
        }
        _ => {
            let rest = s.strip_prefix("Block/")?;
            let v: Vec<&str> = rest.rsplitn(3, '/').collect();
            if v.len() != 3 {
                return None;
            }
            It::Blk { bh: v[2].to_string(), bn: canon(v[1])?, slot: canon(v[0])? }
        }
    };
    (it.real_leaf() == b).then_some(it)
}

#[derive(Clone, Debug)]
struct Blk {
    num: u64,
    slot: u64,
    bh: String,
    txs: Vec<String>,
}
fn hx8(rng: &mut Rng, used: &mut HashSet<String>) -> String {
    loop {
        let s = format!("{:08x}", rng.below(1 << 32));
        if used.insert(s.clone()) {
            return s;
        }
    }
}
fn gen_chain(rng: &mut Rng, max_blocks: u64, max_ranges: u64, used: &mut HashSet<String>) -> (Vec<Blk>, u64) {
    let nranges = rng.range(1, max_ranges);
    let top = nranges * 15 - 1 - if rng.chance(1, 2) { rng.below(14) } else { 0 };
    let mut blocks = vec![];
    let mut num = if rng.chance(1, 4) { rng.below(20) } else { 0 };
    let dense = rng.chance(2, 3);
    while num <= top && (blocks.len() as u64) < max_blocks {
        let ntx = if rng.chance(1, 5) { 0 } else { rng.range(1, 4) };
        let bh = hx8(rng, used);
        let txs = (0..ntx).map(|_| hx8(rng, used)).collect();
        blocks.push(Blk { num, slot: num * 20 + rng.below(20), bh, txs });
        num += if dense { 1 } else { 1 + rng.below(6) };
    }
    if blocks.is_empty() {
        // the first block number fell beyond the top of a short chain: one block at the top (an empty chain
        // has no Merkle root to sign)
        let bh = hx8(rng, used);
        let tx = hx8(rng, used);
        blocks.push(Blk { num: top, slot: top * 20 + rng.below(20), bh, txs: vec![tx] });
    }
    let last = blocks.last().map(|b| b.num).unwrap_or(0);
    let beacon = last + if rng.chance(1, 2) { 0 } else { rng.below(4) };
    (blocks, beacon)
}

/// a sparse chain: every block range holds one or two blocks and one or two transactions, so that range
/// trees with a single leaf (root = the raw leaf) and with exactly one raw sibling pair occur on every run;
/// slots have at least two digits
fn gen_chain_sparse(rng: &mut Rng, used: &mut HashSet<String>) -> (Vec<Blk>, u64) {
    let nranges = rng.range(3, 5);
    let mut blocks = vec![];
    for r in 0..nranges {
        let base = r * 15;
        let pat = if r == 0 { 0 } else { rng.below(4) };
        let n1 = base + rng.below(7);
        let n2 = base + 7 + rng.below(8);
        let mut mk = |rng: &mut Rng, num: u64, ntx: u64| {
            let bh = hx8(rng, used);
            let txs = (0..ntx).map(|_| hx8(rng, used)).collect();
            blocks.push(Blk { num, slot: num * 20 + 10 + rng.below(10), bh, txs });
        };
        match pat {
            0 => mk(rng, n1, 1),
            1 => mk(rng, n1, 2),
            2 => {
                mk(rng, n1, 1);
                mk(rng, n2, 1);
            }
            _ => {
                mk(rng, n1, 0);
                mk(rng, n2, 1);
            }
        }
    }
    // a closing block in the next range: every range above is complete
    let last = nranges * 15 + rng.below(3);
    let bh = hx8(rng, used);
    let tx = hx8(rng, used);
    blocks.push(Blk { num: last, slot: last * 20 + 10 + rng.below(10), bh, txs: vec![tx] });
    (blocks, last)
}

fn logger() -> slog::Logger {
    slog::Logger::root(slog::Discard, slog::o!())
}

/// the real aggregator-side stack over one chain
struct Stack {
    blocks: Vec<Blk>,
    beacon: u64,
    offset: u64,
    legacy_prover: LegacyMithrilProverService<MKTreeStoreInMemory>,
    prover: MithrilProverService<MKTreeStoreInMemory>,
    signed_legacy: Option<ProtocolMessage>,
    signed_v2: ProtocolMessage,
    legacy_ranges: Vec<(u64, u64)>,
    v2_ranges: Vec<(u64, u64)>,
    _dir: PathBuf,
}
impl Stack {
    async fn new(dir: PathBuf, blocks: Vec<Blk>, beacon: u64, offset: u64) -> Stack {
        std::fs::create_dir_all(&dir).unwrap();
        let template = dir.parent().unwrap().join("template.sqlite3");
        if !template.exists() {
            let tmp = dir.parent().unwrap().join("template-build.sqlite3");
            {
                let _c = ConnectionBuilder::open_file(&tmp)
                    .with_migrations(mithril_persistence::database::cardano_transaction_migration::get_migrations())
                    .with_options(&[ConnectionOptions::EnableForeignKeys])
                    .build()
                    .expect("template");
            }
            std::fs::rename(&tmp, &template).unwrap();
        }
        let db = dir.join("cardano_tx.sqlite3");
        std::fs::copy(&template, &db).unwrap();
        let pool: SqliteConnectionPool = ConnectionBuilder::open_file(&db)
            .with_migrations(mithril_persistence::database::cardano_transaction_migration::get_migrations())
            .with_options(&[ConnectionOptions::EnableForeignKeys, ConnectionOptions::EnableWriteAheadLog])
            .build_pool(2)
            .expect("pool");
        let repo = Arc::new(AggregatorCardanoChainDataRepository::new(Arc::new(pool)));
        let scanned: Vec<ScannedBlock> = blocks
            .iter()
            .map(|b| ScannedBlock::new(hex::decode(&b.bh).unwrap(), BlockNumber(b.num), SlotNumber(b.slot), b.txs.clone()))
            .collect();
        let importer = CardanoChainDataImporter::new(Arc::new(DumbBlockScanner::new().forwards(vec![scanned])), repo.clone(), logger());
        let importer = Arc::new(AggregatorChainDataImporter::new(Arc::new(importer)));
        // what the signers sign
        let sb_legacy = CardanoTransactionsSignableBuilder::<MKTreeStoreInMemory>::new(importer.clone(), repo.clone());
        let signed_legacy = sb_legacy.compute_protocol_message(BlockNumber(beacon)).await.ok();
        let sb_v2 = CardanoBlocksTransactionsSignableBuilder::<MKTreeStoreInMemory>::new(importer.clone(), repo.clone());
        let signed_v2 = sb_v2.compute_protocol_message((BlockNumber(beacon), BlockNumberOffset(offset))).await.expect("v2 signable");
        let legacy_prover = LegacyMithrilProverService::<MKTreeStoreInMemory>::new(repo.clone(), repo.clone(), 1, logger());
        legacy_prover.compute_cache(BlockNumber(beacon)).await.expect("legacy cache");
        let prover = MithrilProverService::<MKTreeStoreInMemory>::new(repo.clone(), repo.clone(), 1, logger());
        prover.compute_cache(BlockNumber(beacon)).await.expect("cache");
        let conv = |v: Vec<mithril_persistence::database::record::BlockRangeRootRecord>| {
            let mut r: Vec<(u64, u64)> = v.into_iter().map(|r| (*r.range.start, *r.range.end)).collect();
            r.sort();
            r
        };
        let legacy_ranges = conv(repo.get_all_legacy_block_range_root().unwrap());
        let mut v2_ranges = conv(repo.get_all_block_range_root().unwrap());
        // partial last range (BlockRangeRootRetriever::compute_merkle_map_from_block_range_roots)
        let ls = beacon / 15 * 15;
        if !v2_ranges.contains(&(ls, ls + 15)) && blocks.iter().any(|b| b.num >= ls && b.num <= beacon) {
            v2_ranges.push((ls, ls + 15));
        }
        Stack { blocks, beacon, offset, legacy_prover, prover, signed_legacy, signed_v2, legacy_ranges, v2_ranges, _dir: dir }
    }
    fn legacy_items(&self, r: (u64, u64)) -> Vec<It> {
        let mut v: Vec<(u64, String)> = self.blocks.iter().filter(|b| b.num >= r.0 && b.num < r.1).flat_map(|b| b.txs.iter().map(move |t| (b.num, t.clone()))).collect();
        v.sort();
        v.into_iter().map(|(_, h)| It::Hash(h)).collect()
    }
    fn v2_items(&self, r: (u64, u64)) -> Vec<It> {
        let bs: Vec<&Blk> = self.blocks.iter().filter(|b| b.num >= r.0 && b.num < r.1 && b.num <= self.beacon).collect();
        let mut blocks: Vec<(u64, u64, String)> = bs.iter().map(|b| (b.num, b.slot, b.bh.clone())).collect();
        blocks.sort();
        let mut txs: Vec<(u64, u64, String, String)> = bs.iter().flat_map(|b| b.txs.iter().map(move |t| (b.num, b.slot, b.bh.clone(), t.clone()))).collect();
        txs.sort();
        blocks
            .into_iter()
            .map(|(bn, slot, bh)| It::Blk { bh, bn, slot })
            .chain(txs.into_iter().map(|(bn, slot, bh, h)| It::Tx { h, bh, bn, slot }))
            .collect()
    }
}

/// named trees of one chain for one format
struct Forest {
    ranges: Vec<((u64, u64), Vec<It>)>,
    root: Vec<u8>,
    names: HashMap<Vec<u8>, M>,
    leaves: HashSet<Vec<u8>>,
    /// the committed tree of every range (same order as `ranges`): leaf bytes in tree order + MMR positions
    trees: Vec<T>,
}
impl Forest {
    fn new(base: u64, ranges: Vec<((u64, u64), Vec<It>)>) -> Forest {
        let mut names = HashMap::new();
        let mut leaves = HashSet::new();
        let mut master_leaves = vec![];
        let mut trees = vec![];
        for (i, (k, items)) in ranges.iter().enumerate() {
            let ls: Vec<Vec<u8>> = items.iter().map(|it| it.real_leaf()).collect();
            let t = T::new(base + 1 + i as u64, ls.clone());
            for (b, m) in t.name.iter() {
                names.insert(b.clone(), m.clone());
            }
            for l in ls {
                leaves.insert(l);
            }
            master_leaves.push(merge(&key_bytes(&BlockRange::from(k.0..k.1)), &t.root));
            trees.push(t);
        }
        let root = if master_leaves.is_empty() {
            vec![]
        } else {
            let m = T::new(base, master_leaves);
            for (b, n) in m.name.iter() {
                names.insert(b.clone(), n.clone());
            }
            m.root.clone()
        };
        Forest { ranges, root, names, leaves, trees }
    }
    /// Known finding C11-raw-leaf-boundary, the class judged from PROVENANCE (the committed trees only):
    /// `x` is not a committed leaf, and it is a proper re-cut of two adjacent RAW strings that the chain
    /// commits only through their concatenation: a prefix of L[2k] ++ L[2k+1] (claimed at the left
    /// position) or a suffix of it (claimed at the right position) for two sibling leaves of one range
    /// tree, or a suffix of key ++ L for a range whose tree has the single leaf L (its root is L itself).
    fn recut_of(&self, x: &[u8]) -> Option<String> {
        if self.leaves.contains(x) {
            return None;
        }
        for (ri, t) in self.trees.iter().enumerate() {
            let k = self.ranges[ri].0;
            for pair in t.leaves.chunks(2) {
                if pair.len() == 2 {
                    let cat = [pair[0].clone(), pair[1].clone()].concat();
                    if cat.starts_with(x) || cat.ends_with(x) {
                        return Some(format!(
                            "range {}-{}: sibling leaves {:?} ++ {:?} re-cut",
                            k.0, k.1, String::from_utf8_lossy(&pair[0]), String::from_utf8_lossy(&pair[1])
                        ));
                    }
                }
            }
            if t.leaves.len() == 1 {
                let key = key_bytes(&BlockRange::from(k.0..k.1));
                let cat = [key.clone(), t.leaves[0].clone()].concat();
                if cat.ends_with(x) && x.len() > t.leaves[0].len() {
                    return Some(format!("range {}-{}: key {:?} ++ single leaf {:?} re-cut", k.0, k.1, String::from_utf8_lossy(&key), String::from_utf8_lossy(&t.leaves[0])));
                }
            }
        }
        None
    }
    fn coq(&self) -> String {
        cq::list(
            &self
                .ranges
                .iter()
                .map(|(k, items)| format!("(({}, {}), {})", cq::n(k.0), cq::n(k.1), cq::list(&items.iter().map(|i| i.coq()).collect::<Vec<_>>())))
                .collect::<Vec<_>>(),
        )
    }
}
struct Names<'a> {
    a: &'a Forest,
    b: &'a Forest,
}
impl<'a> Names<'a> {
    fn name(&self, x: &[u8]) -> M {
        if self.a.leaves.contains(x) || self.b.leaves.contains(x) {
            return M::Raw(x.to_vec());
        }
        if let Some(m) = self.a.names.get(x) {
            return m.clone();
        }
        if let Some(m) = self.b.names.get(x) {
            return m.clone();
        }
        M::Raw(x.to_vec())
    }
}

// ---------------------------------------------------------------------------------------------
// responses
#[derive(Clone)]
enum ProofR {
    Good(MP),
    Malformed,
}
impl ProofR {
    fn coq(&self) -> String {
        match self {
            ProofR::Good(p) => format!("(Some {})", p.coq()),
            ProofR::Malformed => "None".into(),
        }
    }
    fn desc(&self) -> Value {
        match self {
            ProofR::Good(p) => p.desc(),
            ProofR::Malformed => json!("malformed"),
        }
    }
}
#[derive(Clone)]
struct Resp {
    fmt: u8, // 0 legacy, 1 v2 transactions, 2 v2 blocks
    parts: Vec<(Vec<It>, ProofR)>, // v2: at most one
    lbn: u64,
    off: u64,
    cert_pm: Vec<(ProtocolMessagePartKey, String)>,
}

fn pm_parts(pm: &ProtocolMessage) -> Vec<(ProtocolMessagePartKey, String)> {
    pm.message_parts.iter().map(|(k, v)| (*k, v.clone())).collect()
}
fn pm_of(parts: &[(ProtocolMessagePartKey, String)]) -> ProtocolMessage {
    let mut pm = ProtocolMessage::new();
    for (k, v) in parts {
        pm.set_message_part(*k, v.clone());
    }
    pm
}
fn pm_coq(parts: &[(ProtocolMessagePartKey, String)], names: &Names) -> String {
    cq::list(
        &parts
            .iter()
            .map(|(k, v)| {
                let val = match hex::decode(v) {
                    Ok(b) if b.len() == 32 => match names.name(&b) {
                        M::Raw(_) => format!("(PVLit {})", cq::bytes(v.as_bytes())),
                        m => format!("(PVHex {})", m.coq()),
                    },
                    _ => format!("(PVLit {})", cq::bytes(v.as_bytes())),
                };
                format!("({}, {})", cq::string(&format!("{:?}", k)), val)
            })
            .collect::<Vec<_>>(),
    )
}

struct Outcome {
    ok: bool,
    panicked: bool,
    reported: Vec<It>,
    matched: bool,
}

fn run_real(resp: &Resp, signed: &ProtocolMessage) -> Outcome {
    let mut cert = CertificateMessage::dummy();
    cert.protocol_message = pm_of(&resp.cert_pm);
    cert.signed_message = signed.compute_hash();
    let mb = MessageBuilder::new();
    let hexproof = |p: &ProofR, json_hex: bool| -> String {
        match p {
            ProofR::Good(mp) => {
                let k = ProtocolKey::new(mp.real());
                if json_hex { k.to_json_hex().unwrap() } else { k.to_bytes_hex().unwrap() }
            }
            ProofR::Malformed => "7b2278223a317d".to_string(),
        }
    };
    let r = hc::catch(std::panic::AssertUnwindSafe(|| -> Option<(Vec<It>, bool)> {
        match resp.fmt {
            0 => {
                let parts: Vec<CardanoTransactionsSetProofMessagePart> = resp
                    .parts
                    .iter()
                    .map(|(items, p)| CardanoTransactionsSetProofMessagePart {
                        transactions_hashes: items.iter().map(|i| match i { It::Hash(h) => h.clone(), _ => unreachable!() }).collect(),
                        proof: hexproof(p, true),
                    })
                    .collect();
                let msg = CardanoTransactionsProofsMessage::new("cert-hash", parts, vec![], BlockNumber(resp.lbn));
                let msg: CardanoTransactionsProofsMessage = serde_json::from_str(&serde_json::to_string(&msg).unwrap()).unwrap();
                let v = msg.verify().ok()?;
                let reported = v.certified_transactions().iter().map(|h| It::Hash(h.clone())).collect();
                let pm = mb.compute_cardano_transactions_proofs_message(&cert, &v);
                Some((reported, cert.match_message(&pm)))
            }
            1 => {
                let part = resp.parts.first().map(|(items, p)| MkSetProofMessagePart {
                    items: items
                        .iter()
                        .map(|i| match i {
                            It::Tx { h, bh, bn, slot } => CardanoTransactionMessagePart::new(h.clone(), BlockNumber(*bn), SlotNumber(*slot), bh.clone()),
                            _ => unreachable!(),
                        })
                        .collect(),
                    proof: hexproof(p, false),
                });
                let msg = CardanoTransactionsProofsV2Message::new("cert-hash", part, vec![], BlockNumber(resp.lbn), BlockNumberOffset(resp.off));
                let msg: CardanoTransactionsProofsV2Message = serde_json::from_str(&serde_json::to_string(&msg).unwrap()).unwrap();
                let v = msg.verify().ok()?;
                let reported = v
                    .certified_transactions()
                    .iter()
                    .map(|t| It::Tx { h: t.transaction_hash.clone(), bh: t.block_hash.clone(), bn: *t.block_number, slot: *t.slot_number })
                    .collect();
                let pm = mb.compute_cardano_transactions_proofs_v2_message(&cert, &v);
                Some((reported, cert.match_message(&pm)))
            }
            _ => {
                let part = resp.parts.first().map(|(items, p)| MkSetProofMessagePart {
                    items: items
                        .iter()
                        .map(|i| match i {
                            It::Blk { bh, bn, slot } => CardanoBlockMessagePart::new(bh.clone(), BlockNumber(*bn), SlotNumber(*slot)),
                            _ => unreachable!(),
                        })
                        .collect(),
                    proof: hexproof(p, false),
                });
                let msg = CardanoBlocksProofsMessage::new("cert-hash", part, vec![], BlockNumber(resp.lbn), BlockNumberOffset(resp.off));
                let msg: CardanoBlocksProofsMessage = serde_json::from_str(&serde_json::to_string(&msg).unwrap()).unwrap();
                let v = msg.verify().ok()?;
                let reported = v.certified_blocks().iter().map(|t| It::Blk { bh: t.block_hash.clone(), bn: *t.block_number, slot: *t.slot_number }).collect();
                let pm = mb.compute_cardano_blocks_proofs_message(&cert, &v);
                Some((reported, cert.match_message(&pm)))
            }
        }
    }));
    match r {
        None => Outcome { ok: false, panicked: true, reported: vec![], matched: false },
        Some(None) => Outcome { ok: false, panicked: false, reported: vec![], matched: false },
        Some(Some((reported, matched))) => Outcome { ok: true, panicked: false, reported, matched },
    }
}

fn oleaves(items: &[It]) -> String {
    coq::ol(&items.iter().map(|i| coq::oln(&i.real_leaf().iter().map(|b| *b as u64).collect::<Vec<_>>())).collect::<Vec<_>>())
}

struct Ctx<'a> {
    a: &'a Stack,
    fa: [&'a Forest; 2], // legacy, v2 forests of the signed chain
    fb: [&'a Forest; 2], // of the foreign chain
    committed: [&'a HashSet<It>; 3],
    signed: [Option<ProtocolMessage>; 2], // full signed messages (entity parts + the parts every certificate carries)
}

fn push_case(sink: &mut Sink, id: u64, ctx: &Ctx, kind: &str, resp: &Resp, honest: bool, note: Value) {
    let fi = if resp.fmt == 0 { 0 } else { 1 };
    let names = Names { a: ctx.fa[fi], b: ctx.fb[fi] };
    let signed = ctx.signed[fi].clone().expect("signed message");
    let out = run_real(resp, &signed);
    let all: Vec<It> = resp.parts.iter().flat_map(|(i, _)| i.clone()).collect();
    let impl_obs = coq::ol(&[
        oleaves(&all),
        if out.panicked {
            coq::ol(&[coq::oz(2)])
        } else if out.ok {
            coq::ol(&[coq::oz(0), oleaves(&out.reported), coq::ob(out.matched)])
        } else {
            coq::ol(&[coq::oz(1)])
        },
    ]);
    let parts_coq = |resp: &Resp| -> String {
        cq::list(
            &resp
                .parts
                .iter()
                .map(|(items, p)| {
                    let il = if resp.fmt == 0 {
                        cq::list(&items.iter().map(|i| match i { It::Hash(h) => bytes_coq(h.as_bytes()), _ => unreachable!() }).collect::<Vec<_>>())
                    } else {
                        cq::list(&items.iter().map(|i| i.coq()).collect::<Vec<_>>())
                    };
                    format!("({}, {})", il, p.coq())
                })
                .collect::<Vec<_>>(),
        )
    };
    let signed_coq = pm_coq(&pm_parts(&signed), &names);
    let cert_coq = pm_coq(&resp.cert_pm, &names);
    let model = if resp.fmt == 0 {
        format!(
            "C11.Model.run_legacy {} {} {} {} {} {}",
            ctx.fa[0].coq(),
            ctx.fb[0].coq(),
            parts_coq(resp),
            cq::n(resp.lbn),
            cert_coq,
            signed_coq
        )
    } else {
        let part = match resp.parts.first() {
            Some((items, p)) => format!("(Some ({}, {}))", cq::list(&items.iter().map(|i| i.coq()).collect::<Vec<_>>()), p.coq()),
            None => "None".into(),
        };
        format!(
            "C11.Model.run_v2 {} {} {} {} {} {} {}",
            ctx.fa[1].coq(),
            ctx.fb[1].coq(),
            part,
            cq::n(resp.lbn),
            cq::n(resp.off),
            cert_coq,
            signed_coq
        )
    };
    // ---- the property, from provenance
    let committed = ctx.committed[resp.fmt as usize];
    let mut known = None;
    let (holds, why) = if out.panicked {
        (false, Some("verification panicked".to_string()))
    } else if out.ok && out.matched {
        let foreign: Vec<&It> = out.reported.iter().filter(|i| !committed.contains(*i)).collect();
        if !foreign.is_empty() {
            // known finding C11-raw-leaf-boundary: EVERY wrongly reported item is a re-cut of two adjacent raw
            // strings of the certified chain, and block number / offset are the signed ones; anything else
            // stays a violation
            let recuts: Vec<Option<String>> = foreign.iter().map(|i| ctx.fa[fi].recut_of(&i.real_leaf())).collect();
            let in_class = recuts.iter().all(|r| r.is_some()) && resp.lbn == ctx.a.beacon && (resp.fmt == 0 || resp.off == ctx.a.offset);
            if in_class {
                known = Some(KNOWN_RAW.to_string());
            }
            (
                false,
                Some(format!(
                    "accepted and matched the signed message, but reported items are not in the certified chain: {:?}{}",
                    foreign.iter().map(|i| i.desc()).collect::<Vec<_>>(),
                    if in_class { format!(" (each a re-cut: {:?})", recuts.iter().flatten().collect::<Vec<_>>()) } else { String::new() }
                )),
            )
        } else if resp.lbn != ctx.a.beacon {
            (false, Some(format!("accepted and matched with latest block number {} (signed: {})", resp.lbn, ctx.a.beacon)))
        } else if resp.fmt != 0 && resp.off != ctx.a.offset {
            (false, Some(format!("accepted and matched with offset {} (signed: {})", resp.off, ctx.a.offset)))
        } else {
            (true, None)
        }
    } else if honest {
        (false, Some(format!("honest prover response rejected (verify ok: {}, message matches: {})", out.ok, out.matched)))
    } else {
        (true, None)
    };
    let nranges = ctx.fa[fi].ranges.len();
    let desc = json!({
        "format": (["legacy", "v2-transactions", "v2-blocks"][resp.fmt as usize]),
        "chain": ctx.a.blocks.iter().map(|b| format!("#{} slot {} {} txs {:?}", b.num, b.slot, b.bh, b.txs)).collect::<Vec<_>>(),
        "beacon": ctx.a.beacon, "offset": ctx.a.offset,
        "parts": resp.parts.iter().map(|(items, p)| json!({"items": items.iter().map(|i| i.desc()).collect::<Vec<_>>(), "proof": p.desc()})).collect::<Vec<_>>(),
        "latest_block_number": resp.lbn, "security_parameter": resp.off,
        "certificate_protocol_message": resp.cert_pm.iter().map(|(k, v)| format!("{:?}={}", k, v)).collect::<Vec<_>>(),
        "alteration": note,
        "outcome": json!({"verify_ok": out.ok, "reported": out.reported.iter().map(|i| i.desc()).collect::<Vec<_>>(), "message_matches": out.matched}),
    });
    let key = format!("{}|{}|{}|{}", kind, resp.fmt, parts_coq(resp).len(), model.len());
    sink.push(Case {
        id,
        kind: format!("{}/{}", ["legacy", "v2tx", "v2blk"][resp.fmt as usize], kind),
        desc,
        model: Some(model),
        impl_obs,
        holds: Some(holds),
        why,
        known,
        nontrivial: nranges >= 2 && !all.is_empty(),
        key,
    });
}

// honest proofs from the real provers, named
async fn honest_legacy(st: &Stack, names: &Names<'_>, hashes: &[String]) -> Vec<(Vec<It>, ProofR)> {
    // a query touching a range without a stored root makes the real prover fail (HTTP 500): no response to alter
    let sps = st.legacy_prover.compute_transactions_proofs(BlockNumber(st.beacon), hashes).await.unwrap_or_default();
    sps.into_iter()
        .map(|sp| {
            let part: CardanoTransactionsSetProofMessagePart = sp.try_into().expect("part");
            let proof = ProtocolKey::<MKMapProof<BlockRange>>::from_json_hex(&part.proof).unwrap().into_inner();
            (part.transactions_hashes.iter().map(|h| It::Hash(h.clone())).collect(), ProofR::Good(MP::of_real(&proof, &|b| names.name(b))))
        })
        .collect()
}
async fn honest_v2_tx(st: &Stack, names: &Names<'_>, hashes: &[String]) -> Option<(Vec<It>, ProofR)> {
    let sp = st.prover.compute_transactions_proofs(BlockNumber(st.beacon), hashes).await.ok().flatten()?;
    let part: MkSetProofMessagePart<CardanoTransactionMessagePart> = sp.try_into().expect("part");
    let proof = ProtocolKey::<MKMapProof<BlockRange>>::from_bytes_hex(&part.proof).unwrap().into_inner();
    Some((
        part.items.iter().map(|t| It::Tx { h: t.transaction_hash.clone(), bh: t.block_hash.clone(), bn: *t.block_number, slot: *t.slot_number }).collect(),
        ProofR::Good(MP::of_real(&proof, &|b| names.name(b))),
    ))
}
async fn honest_v2_blk(st: &Stack, names: &Names<'_>, hashes: &[String]) -> Option<(Vec<It>, ProofR)> {
    let sp = st.prover.compute_blocks_proofs(BlockNumber(st.beacon), hashes).await.ok().flatten()?;
    let part: MkSetProofMessagePart<CardanoBlockMessagePart> = sp.try_into().expect("part");
    let proof = ProtocolKey::<MKMapProof<BlockRange>>::from_bytes_hex(&part.proof).unwrap().into_inner();
    Some((
        part.items.iter().map(|t| It::Blk { bh: t.block_hash.clone(), bn: *t.block_number, slot: *t.slot_number }).collect(),
        ProofR::Good(MP::of_real(&proof, &|b| names.name(b))),
    ))
}

fn all_items(st: &Stack, fmt: u8) -> Vec<It> {
    match fmt {
        0 => st.blocks.iter().flat_map(|b| b.txs.iter().map(|t| It::Hash(t.clone()))).collect(),
        1 => st.blocks.iter().flat_map(|b| b.txs.iter().map(move |t| It::Tx { h: t.clone(), bh: b.bh.clone(), bn: b.num, slot: b.slot })).collect(),
        _ => st.blocks.iter().map(|b| It::Blk { bh: b.bh.clone(), bn: b.num, slot: b.slot }).collect(),
    }
}
fn qhash(i: &It) -> String {
    match i {
        It::Hash(h) => h.clone(),
        It::Tx { h, .. } => h.clone(),
        It::Blk { bh, .. } => bh.clone(),
    }
}
async fn honest(st: &Stack, names: &Names<'_>, fmt: u8, hashes: &[String]) -> Vec<(Vec<It>, ProofR)> {
    match fmt {
        0 => honest_legacy(st, names, hashes).await,
        1 => honest_v2_tx(st, names, hashes).await.into_iter().collect(),
        _ => honest_v2_blk(st, names, hashes).await.into_iter().collect(),
    }
}

const N_ALT: u64 = 30;
const KNOWN_RAW: &str = "C11-raw-leaf-boundary";
/// one alteration of an honest response; returns (kind, altered response, description)
async fn alter(
    rng: &mut Rng,
    which: u64,
    base: &Resp,
    a: &Stack,
    b: &Stack,
    names: &Names<'_>,
    fmt: u8,
) -> Option<(String, Resp, Value)> {
    let mut r = base.clone();
    let np = r.parts.len();
    if np == 0 {
        return None;
    }
    let pi = rng.below(np as u64) as usize;
    let ni = r.parts[pi].0.len();
    let ii = if ni > 0 { rng.below(ni as u64) as usize } else { 0 };
    let universe = all_items(a, fmt);
    let fresh = format!("{:08x}", 0xf000_0000u64 + rng.below(1 << 24));
    let mk_fab = |rng: &mut Rng, like: Option<&It>| -> It {
        match fmt {
            0 => It::Hash(fresh.clone()),
            1 => match like {
                Some(It::Tx { bh, bn, slot, .. }) => It::Tx { h: fresh.clone(), bh: bh.clone(), bn: *bn, slot: *slot },
                _ => It::Tx { h: fresh.clone(), bh: format!("{:08x}", rng.below(1 << 32)), bn: rng.below(a.beacon + 1), slot: rng.below(3000) },
            },
            _ => It::Blk { bh: fresh.clone(), bn: rng.below(a.beacon + 1), slot: rng.below(3000) },
        }
    };
    let kind: &str = match which {
        0 => {
            // an item that no proof vouches for, appended last (or first)
            let fab = if rng.coin() {
                mk_fab(rng, r.parts[pi].0.get(ii))
            } else {
                // a genuine item of the chain for which the proof carries no leaf
                let cands: Vec<&It> = universe.iter().filter(|u| !r.parts.iter().any(|(is, _)| is.contains(u))).collect();
                if cands.is_empty() { mk_fab(rng, None) } else { (*rng.pick(&cands)).clone() }
            };
            if rng.chance(2, 3) {
                r.parts[pi].0.push(fab);
            } else {
                r.parts[pi].0.insert(0, fab);
            }
            "item-added"
        }
        1 if ni > 0 => {
            // renamed: one character of the hash changed
            let it = r.parts[pi].0[ii].clone();
            let flip = |s: &str, rng: &mut Rng| -> String {
                let mut b = s.as_bytes().to_vec();
                if b.is_empty() {
                    return "0".into();
                }
                let j = rng.below(b.len() as u64) as usize;
                b[j] = if b[j] == b'0' { b'1' } else { b'0' };
                String::from_utf8(b).unwrap()
            };
            r.parts[pi].0[ii] = match it {
                It::Hash(h) => It::Hash(flip(&h, rng)),
                It::Tx { h, bh, bn, slot } => It::Tx { h: flip(&h, rng), bh, bn, slot },
                It::Blk { bh, bn, slot } => It::Blk { bh: flip(&bh, rng), bn, slot },
            };
            "item-renamed"
        }
        2 if ni > 0 && fmt != 0 => {
            // moved to another block / other number / other slot
            let other = rng.pick(&a.blocks).clone();
            let it = r.parts[pi].0[ii].clone();
            r.parts[pi].0[ii] = match (it, rng.below(4)) {
                (It::Tx { h, .. }, 0) => It::Tx { h, bh: other.bh.clone(), bn: other.num, slot: other.slot },
                (It::Tx { h, bh, slot, .. }, 1) => It::Tx { h, bh, bn: other.num + 1, slot },
                (It::Tx { h, bh, bn, slot }, 2) => It::Tx { h, bh, bn, slot: slot + 1 + rng.below(5) },
                (It::Tx { h, bn, slot, .. }, _) => It::Tx { h, bh: other.bh.clone(), bn, slot },
                (It::Blk { bh, slot, .. }, 0) => It::Blk { bh, bn: other.num + 1, slot },
                (It::Blk { bh, bn, slot }, 1) => It::Blk { bh, bn, slot: slot + 1 + rng.below(5) },
                (It::Blk { bn, slot, .. }, _) => It::Blk { bh: other.bh.clone(), bn: bn + 15, slot },
                (x, _) => x,
            };
            "item-moved"
        }
        3 if ni > 0 && fmt != 0 => {
            // separator games: characters moved across a '/' of the leaf encoding
            let it = r.parts[pi].0[ii].clone();
            r.parts[pi].0[ii] = match it {
                It::Tx { h, bh, bn, slot } => {
                    if rng.coin() {
                        It::Tx { h: format!("{}/{}", h, bh), bh: bn.to_string(), bn: slot, slot: 0 }
                    } else {
                        let (x, y) = h.split_at(h.len() / 2);
                        It::Tx { h: x.to_string(), bh: format!("{}/{}", y, bh), bn, slot }
                    }
                }
                It::Blk { bh, bn, slot } => It::Blk { bh: format!("{}/{}", bh, bn), bn: slot, slot: 0 },
                x => x,
            };
            "item-separator-shift"
        }
        4 => {
            r.lbn = match rng.below(4) {
                0 => r.lbn + 1,
                1 => r.lbn.saturating_sub(1),
                2 => r.lbn * 10,
                _ => rng.below(1 << 40),
            };
            if r.lbn == base.lbn {
                r.lbn += 7;
            }
            "latest-block-number-changed"
        }
        5 if fmt != 0 => {
            r.off = match rng.below(3) {
                0 => r.off + 1,
                1 => r.off * 10 + 1,
                _ => rng.below(1 << 30),
            };
            if r.off == base.off {
                r.off += 3;
            }
            "offset-changed"
        }
        6 => {
            r.parts[pi].1 = ProofR::Malformed;
            "proof-malformed"
        }
        7 => {
            r.parts.clear();
            "no-certified-part"
        }
        8 => {
            // a sub-proof detached from the master proof
            if let ProofR::Good(mp) = &mut r.parts[pi].1 {
                if mp.subs.is_empty() {
                    return None;
                }
                let s = rng.below(mp.subs.len() as u64) as usize;
                mp.subs.remove(s);
            }
            "sub-proof-detached"
        }
        9 | 10 | 11 | 12 | 29 => {
            // splice with a proof of the foreign chain
            let fu = all_items(b, fmt);
            if fu.is_empty() {
                return None;
            }
            let q = qhash(rng.pick(&fu));
            let fparts = honest(b, names, fmt, &[q]).await;
            let (fitems, fproof) = fparts.into_iter().next()?;
            let fmp = match fproof {
                ProofR::Good(m) => m,
                _ => return None,
            };
            match which {
                9 => {
                    // whole foreign part appended: proofs under different roots (legacy), or replacing (v2)
                    if fmt == 0 {
                        let at = rng.below(r.parts.len() as u64 + 1) as usize;
                        r.parts.insert(at, (fitems, ProofR::Good(fmp)));
                    } else {
                        r.parts[pi] = (fitems, ProofR::Good(fmp));
                    }
                    "foreign-part"
                }
                10 => {
                    // foreign sub-proof hung under a committed key, its item reported
                    if let ProofR::Good(mp) = &mut r.parts[pi].1 {
                        if mp.subs.is_empty() || fmp.subs.is_empty() {
                            return None;
                        }
                        let s = rng.below(mp.subs.len() as u64) as usize;
                        mp.subs[s].1 = fmp.subs[0].1.clone();
                        r.parts[pi].0.extend(fitems);
                    }
                    "foreign-sub-proof"
                }
                11 => {
                    // foreign master proof over the honest sub-proofs
                    if let ProofR::Good(mp) = &mut r.parts[pi].1 {
                        mp.master = fmp.master.clone();
                    }
                    "foreign-master-proof"
                }
                12 => {
                    // honest items, foreign proof
                    r.parts[pi].1 = ProofR::Good(fmp);
                    "foreign-proof-honest-items"
                }
                _ => {
                    // the honest master proof with ONE sub-proof only: a foreign one under a committed key, and only
                    // its items reported (every listed item is a leaf of a verifying sub-proof; only the link
                    // `master contains key + sub root` can reject)
                    if let ProofR::Good(mp) = &mut r.parts[pi].1 {
                        if mp.subs.is_empty() || fmp.subs.is_empty() {
                            return None;
                        }
                        let s = rng.below(mp.subs.len() as u64) as usize;
                        let key = mp.subs[s].0.clone();
                        mp.subs = vec![(key, fmp.subs[0].1.clone())];
                        r.parts[pi].0 = fitems;
                    }
                    "foreign-sub-proof-alone"
                }
            }
        }
        13 => {
            // a second entry at an occupied MMR position (fixed finding C09 d9e64fb26) + the fake item reported
            let fab = mk_fab(rng, r.parts[pi].0.get(ii));
            if let ProofR::Good(mp) = &mut r.parts[pi].1 {
                if mp.subs.is_empty() {
                    return None;
                }
                let s = rng.below(mp.subs.len() as u64) as usize;
                let sub = &mut mp.subs[s].1.master;
                if sub.leaves.is_empty() {
                    return None;
                }
                let j = rng.below(sub.leaves.len() as u64) as usize;
                let lb = fab.real_leaf();
                sub.leaves.push((sub.leaves[j].0, (lb.clone(), M::Raw(lb))));
            }
            r.parts[pi].0.push(fab);
            "duplicate-position-leaf"
        }
        14 => {
            // a leaf of a sub-proof replaced by a fabricated one, reported
            let fab = mk_fab(rng, r.parts[pi].0.get(ii));
            if let ProofR::Good(mp) = &mut r.parts[pi].1 {
                if mp.subs.is_empty() {
                    return None;
                }
                let s = rng.below(mp.subs.len() as u64) as usize;
                let sub = &mut mp.subs[s].1.master;
                if sub.leaves.is_empty() {
                    return None;
                }
                let j = rng.below(sub.leaves.len() as u64) as usize;
                let lb = fab.real_leaf();
                sub.leaves[j].1 = (lb.clone(), M::Raw(lb));
            }
            r.parts[pi].0.push(fab);
            "leaf-replaced"
        }
        15 => {
            // keys of two sub-proofs swapped / one key relabelled
            if let ProofR::Good(mp) = &mut r.parts[pi].1 {
                if mp.subs.len() >= 2 {
                    let (k0, k1) = (mp.subs[0].0.clone(), mp.subs[1].0.clone());
                    mp.subs[0].0 = k1;
                    mp.subs[1].0 = k0;
                } else if mp.subs.len() == 1 {
                    let k = mp.subs[0].0.clone();
                    mp.subs[0].0 = BlockRange::from(*k.start + 15..*k.end + 15);
                } else {
                    return None;
                }
            }
            "sub-proof-keys-swapped"
        }
        16 if fmt == 0 => {
            // the honest answer split in several parts (each proved separately under the same root)
            let items: Vec<It> = r.parts.iter().flat_map(|(i, _)| i.clone()).collect();
            if items.len() < 2 {
                return None;
            }
            let cut = 1 + rng.below(items.len() as u64 - 1) as usize;
            let mut parts = vec![];
            for chunk in [&items[..cut], &items[cut..]] {
                let hs: Vec<String> = chunk.iter().map(qhash).collect();
                parts.extend(honest(a, names, 0, &hs).await);
            }
            r.parts = parts;
            "split-in-parts"
        }
        17 if fmt == 0 => {
            // three parts, the LAST under another root
            let items: Vec<It> = r.parts.iter().flat_map(|(i, _)| i.clone()).collect();
            if items.len() < 2 {
                return None;
            }
            let cut = 1 + rng.below(items.len() as u64 - 1) as usize;
            let mut parts = vec![];
            for chunk in [&items[..cut], &items[cut..]] {
                let hs: Vec<String> = chunk.iter().map(qhash).collect();
                parts.extend(honest(a, names, 0, &hs).await);
            }
            let fu = all_items(b, 0);
            if fu.is_empty() {
                return None;
            }
            let q = qhash(rng.pick(&fu));
            parts.extend(honest(b, names, 0, &[q]).await);
            if parts.len() < 3 {
                return None;
            }
            r.parts = parts;
            "three-parts-third-foreign-root"
        }
        18 if fmt == 0 => {
            // proofs swapped between two parts
            let items: Vec<It> = r.parts.iter().flat_map(|(i, _)| i.clone()).collect();
            if items.len() < 2 {
                return None;
            }
            let cut = 1 + rng.below(items.len() as u64 - 1) as usize;
            let mut parts = vec![];
            for chunk in [&items[..cut], &items[cut..]] {
                let hs: Vec<String> = chunk.iter().map(qhash).collect();
                parts.extend(honest(a, names, 0, &hs).await);
            }
            if parts.len() != 2 {
                return None;
            }
            let (p0, p1) = (parts[0].1.clone(), parts[1].1.clone());
            parts[0].1 = p1;
            parts[1].1 = p0;
            r.parts = parts;
            "proofs-swapped-between-parts"
        }
        19 => {
            // the certificate's own protocol message edited (the client overwrites the parts it recomputes)
            let rootk = if fmt == 0 { ProtocolMessagePartKey::CardanoTransactionsMerkleRoot } else { ProtocolMessagePartKey::CardanoBlocksTransactionsMerkleRoot };
            match rng.below(4) {
                0 => r.cert_pm.retain(|(k, _)| *k != rootk),
                1 => {
                    for (k, v) in r.cert_pm.iter_mut() {
                        if *k == ProtocolMessagePartKey::LatestBlockNumber {
                            *v = "1".into();
                        }
                    }
                }
                2 => r.cert_pm.push((ProtocolMessagePartKey::CurrentEpoch, rng.below(500).to_string())),
                _ => r.cert_pm.push((ProtocolMessagePartKey::NextAggregateVerificationKey, hex::encode(rng.bytes(16)))),
            }
            "certificate-message-edited"
        }
        20 if ni > 0 => {
            // item dropped from the list (proof still vouches for more): a subset is still certified
            r.parts[pi].0.remove(ii);
            "item-dropped"
        }
        21 if ni > 1 => {
            let it = r.parts[pi].0[ii].clone();
            r.parts[pi].0.push(it);
            r.parts[pi].0.reverse();
            "items-duplicated-reordered"
        }
        22 | 23 if fmt == 0 => {
            // a part repeated: the very same proof a second time (byte-identical), now paired with items no
            // proof vouches for (a verifier that remembers "this proof was already checked" must still check
            // every listed item against it)
            let proof = r.parts[pi].1.clone();
            let mut items = if rng.coin() { r.parts[pi].0.clone() } else { vec![] };
            let fab = mk_fab(rng, None);
            if rng.coin() { items.push(fab) } else { items.insert(0, fab) }
            if rng.coin() {
                r.parts.push((items, proof));
            } else {
                r.parts.insert(pi + 1, (items, proof));
            }
            "part-repeated-with-forged-items"
        }
        24 | 25 | 26 => {
            // known finding C11-raw-leaf-boundary: a claimed leaf of a range sub-proof and its RAW sibling leaf
            // (another claimed leaf, or a proof item) re-cut: same concatenation, other boundary.  The item
            // whose leaf was re-cut is reported with the new leaf (24: the left leaf cut shorter, e.g. a slot
            // number losing its last digits; 25: any cut (legacy) / the left leaf cut shorter; 26: one leaf
            // becomes the whole concatenation, its sibling the empty string).
            let f = names.a;
            let ProofR::Good(mp) = &mut r.parts[pi].1 else { return None };
            let mut cands: Vec<(usize, usize)> = vec![];
            for (s, (_, sp)) in mp.subs.iter().enumerate() {
                for j in 0..sp.master.leaves.len() {
                    cands.push((s, j));
                }
            }
            rng.shuffle(&mut cands);
            let mut done = None;
            for (s, j) in cands {
                let k = (*mp.subs[s].0.start, *mp.subs[s].0.end);
                let Some(ri) = f.ranges.iter().position(|(rk, _)| *rk == k) else { continue };
                let t = &f.trees[ri];
                let p = &mut mp.subs[s].1.master;
                let cur = p.leaves[j].1 .0.clone();
                let Some(i) = t.leaves.iter().position(|l| *l == cur) else { continue };
                let sidx = i ^ 1;
                if sidx >= t.leaves.len() || t.pos[i] != p.leaves[j].0 {
                    continue;
                }
                let sib = t.leaves[sidx].clone();
                let (left, right) = if i < sidx { (cur.clone(), sib.clone()) } else { (sib.clone(), cur.clone()) };
                let cat = [left.clone(), right.clone()].concat();
                let digits = left.iter().rev().take_while(|c| c.is_ascii_digit()).count();
                let cut: usize = if which == 26 {
                    if i < sidx { cat.len() } else { 0 }
                } else if fmt == 0 && which == 25 {
                    let c = 1 + rng.below(cat.len() as u64 - 1) as usize;
                    if c == left.len() { continue } else { c }
                } else if i < sidx && ((fmt == 0 && left.len() >= 2) || digits >= 2) {
                    // the claimed LEFT leaf loses its last byte(s)
                    let span = if fmt == 0 { left.len() - 1 } else { digits - 1 };
                    left.len() - 1 - rng.below(span as u64) as usize
                } else {
                    continue;
                };
                let (nl, nr) = (cat[..cut].to_vec(), cat[cut..].to_vec());
                let (ncur, nsib) = if i < sidx { (nl, nr) } else { (nr, nl) };
                let Some(nitem) = parse_leaf(fmt, &ncur) else { continue };
                // the sibling: another claimed leaf at its own position, or the raw bytes among the proof items
                let mut sib_claimed = false;
                let mut found = false;
                for l in p.leaves.iter_mut() {
                    if l.0 == t.pos[sidx] && l.1 .0 == sib {
                        l.1 = (nsib.clone(), M::Raw(nsib.clone()));
                        found = true;
                        sib_claimed = true;
                    }
                }
                if !found {
                    if let Some(it) = p.items.iter_mut().find(|it| it.0 == sib) {
                        *it = (nsib.clone(), M::Raw(nsib.clone()));
                        found = true;
                    }
                }
                if !found {
                    continue;
                }
                for l in p.leaves.iter_mut() {
                    if l.0 == t.pos[i] && l.1 .0 == cur {
                        l.1 = (ncur.clone(), M::Raw(ncur.clone()));
                    }
                }
                done = Some((cur, nitem, sib, nsib, sib_claimed));
                break;
            }
            let (cur, nitem, sib, nsib, sib_claimed) = done?;
            let items = &mut r.parts[pi].0;
            for it in items.iter_mut() {
                if it.real_leaf() == cur {
                    *it = nitem.clone();
                }
            }
            if sib_claimed {
                match parse_leaf(fmt, &nsib) {
                    Some(ns) => {
                        for it in items.iter_mut() {
                            if it.real_leaf() == sib {
                                *it = ns.clone();
                            }
                        }
                    }
                    None => items.retain(|it| it.real_leaf() != sib),
                }
            }
            match which {
                24 => "raw-boundary-left-cut",
                25 => "raw-boundary-cut",
                _ => "raw-boundary-whole-concatenation",
            }
        }
        28 if ni > 0 && fmt != 0 => {
            // a TWIN of a proven item: same hash, other block / block number / slot, listed next to the original
            // (a verifier that checks each hash once must still check every listed item)
            let other = rng.pick(&a.blocks).clone();
            let it = r.parts[pi].0[ii].clone();
            let twin = match (it, rng.below(3)) {
                (It::Tx { h, bh, bn, slot }, 0) => It::Tx { h, bh, bn, slot: slot + 1 + rng.below(9) },
                (It::Tx { h, bh, slot, .. }, 1) => It::Tx { h, bh, bn: other.num + 1, slot },
                (It::Tx { h, .. }, _) => It::Tx { h, bh: other.bh.clone(), bn: other.num, slot: other.slot + 1 },
                (It::Blk { bh, bn, slot }, 0) => It::Blk { bh, bn, slot: slot + 1 + rng.below(9) },
                (It::Blk { bh, slot, .. }, _) => It::Blk { bh, bn: other.num + 1, slot },
                (x, _) => x,
            };
            if rng.coin() {
                r.parts[pi].0.insert(ii + 1, twin);
            } else {
                r.parts[pi].0.push(twin);
            }
            "item-twin-moved"
        }
        27 if fmt == 0 => {
            // the same defect one level up (legacy): a range whose tree has ONE leaf has that raw leaf as its
            // root, so the master tree commits key ++ leaf only: the end of the block-range key "s-e" loses
            // its last digit(s), which move in front of the transaction hash
            let f = names.a;
            let ProofR::Good(mp) = &mut r.parts[pi].1 else { return None };
            let mut done = None;
            for s in 0..mp.subs.len() {
                let k = (*mp.subs[s].0.start, *mp.subs[s].0.end);
                let Some(ri) = f.ranges.iter().position(|(rk, _)| *rk == k) else { continue };
                let t = &f.trees[ri];
                let es = k.1.to_string();
                if t.leaves.len() != 1 || es.len() < 2 {
                    continue;
                }
                let d = 1 + rng.below(es.len() as u64 - 1) as usize;
                let (keep, moved) = es.split_at(es.len() - d);
                let Ok(ne) = keep.parse::<u64>() else { continue };
                if ne.to_string() != keep {
                    continue;
                }
                let leaf = t.leaves[0].clone();
                let nleaf = [moved.as_bytes().to_vec(), leaf.clone()].concat();
                let p = &mut mp.subs[s].1.master;
                if p.leaves.len() != 1 || p.leaves[0].1 .0 != leaf || p.root.0 != leaf {
                    continue;
                }
                p.leaves[0].1 = (nleaf.clone(), M::Raw(nleaf.clone()));
                p.root = (nleaf.clone(), M::Raw(nleaf.clone()));
                mp.subs[s].0 = BlockRange::from(k.0..ne);
                done = Some((leaf, nleaf));
                break;
            }
            let (leaf, nleaf) = done?;
            let nitem = parse_leaf(0, &nleaf)?;
            for it in r.parts[pi].0.iter_mut() {
                if it.real_leaf() == leaf {
                    *it = nitem.clone();
                }
            }
            "raw-boundary-key-cut"
        }
        _ => return None,
    };
    let note = json!({ "alteration": kind });
    Some((kind.to_string(), r, note))
}

async fn explore_chain(sink: &mut Sink, rng: &mut Rng, work: &PathBuf, chain_no: u64, thorough: bool, sparse: bool) {
    let mut used = HashSet::new();
    let (max_blocks, max_ranges) = if thorough { (120, 6) } else { (60, 5) };
    let (blocks_a, beacon_a) = if sparse { gen_chain_sparse(rng, &mut used) } else { gen_chain(rng, max_blocks, max_ranges, &mut used) };
    let (blocks_b, beacon_b) = gen_chain(rng, 30, 2, &mut used);
    let offset = *rng.pick(&[0u64, 1, 15, 100, 2160]);
    let nq = if thorough { 10 } else { 5 };
    let nalt = if thorough { 8 } else { 5 };
    // randomness for the queries is drawn even when --only skips: all generation below is unconditional,
    // only the (cheap) push is conditional; the real stacks are needed to generate honest responses.
    let a = Stack::new(work.join(format!("chain-{}-a", chain_no)), blocks_a, beacon_a, offset).await;
    let b = Stack::new(work.join(format!("chain-{}-b", chain_no)), blocks_b, beacon_b, offset + 1).await;
    let fa_l = Forest::new(0, a.legacy_ranges.iter().map(|r| (*r, a.legacy_items(*r))).collect());
    let fa_v = Forest::new(0, a.v2_ranges.iter().map(|r| (*r, a.v2_items(*r))).collect());
    let fb_l = Forest::new(1 + fa_l.ranges.len() as u64, b.legacy_ranges.iter().map(|r| (*r, b.legacy_items(*r))).collect());
    let fb_v = Forest::new(1 + fa_v.ranges.len() as u64, b.v2_ranges.iter().map(|r| (*r, b.v2_items(*r))).collect());
    // consistency of the provenance with what the real builders signed
    let root_of = |pm: &ProtocolMessage, k: ProtocolMessagePartKey| pm.get_message_part(&k).cloned().unwrap_or_default();
    if let Some(sl) = &a.signed_legacy {
        assert_eq!(root_of(sl, ProtocolMessagePartKey::CardanoTransactionsMerkleRoot), hex::encode(&fa_l.root), "legacy root of chain A");
    }
    assert_eq!(root_of(&a.signed_v2, ProtocolMessagePartKey::CardanoBlocksTransactionsMerkleRoot), hex::encode(&fa_v.root), "v2 root of chain A");
    let committed_l: HashSet<It> = fa_l.ranges.iter().flat_map(|(_, is)| is.clone()).collect();
    let committed_t: HashSet<It> = fa_v.ranges.iter().flat_map(|(_, is)| is.iter().filter(|i| matches!(i, It::Tx { .. })).cloned()).collect();
    let committed_b: HashSet<It> = fa_v.ranges.iter().flat_map(|(_, is)| is.iter().filter(|i| matches!(i, It::Blk { .. })).cloned()).collect();
    // the signed message of a real certificate also carries these parts
    let full = |pm: &ProtocolMessage| -> ProtocolMessage {
        let mut m = pm.clone();
        m.set_message_part(ProtocolMessagePartKey::NextAggregateVerificationKey, hex::encode(b"avk-of-next-epoch"));
        m.set_message_part(ProtocolMessagePartKey::CurrentEpoch, "42".into());
        m
    };
    let ctx = Ctx {
        a: &a,
        fa: [&fa_l, &fa_v],
        fb: [&fb_l, &fb_v],
        committed: [&committed_l, &committed_t, &committed_b],
        signed: [a.signed_legacy.as_ref().map(full), Some(full(&a.signed_v2))],
    };
    for fmt in 0u8..3 {
        if fmt == 0 && (a.signed_legacy.is_none() || fa_l.ranges.is_empty()) {
            continue;
        }
        let fi = if fmt == 0 { 0 } else { 1 };
        let names = Names { a: ctx.fa[fi], b: ctx.fb[fi] };
        let universe = all_items(&a, fmt);
        if universe.is_empty() {
            continue;
        }
        let cert_pm = pm_parts(ctx.signed[fi].as_ref().unwrap());
        for q in 0..nq {
            // queried subset: present items (one range / spanning ranges), plus absent hashes
            let k = match q % 4 {
                0 => 1,
                1 => 2 + rng.below(3),
                _ => 1 + rng.below(8),
            } as usize;
            let mut hashes: Vec<String> = (0..k).map(|_| qhash(rng.pick(&universe))).collect();
            hashes.sort();
            hashes.dedup();
            rng.shuffle(&mut hashes);
            if rng.chance(1, 3) {
                hashes.push(format!("{:08x}", 0xe000_0000u64 + rng.below(1 << 20)));
            }
            let parts = honest(&a, &names, fmt, &hashes).await;
            let base = Resp { fmt, parts, lbn: a.beacon, off: a.offset, cert_pm: cert_pm.clone() };
            let id = sink.wants();
            if let Some(id) = id {
                push_case(sink, id, &ctx, "honest", &base, !base.parts.is_empty(), json!({"query": hashes}));
            }
            // the first two queries of every format get EVERY alteration kind once; the others a random sample
            let n_here = if q < 2 { N_ALT } else { nalt };
            for ai in 0..n_here {
                let drawn = rng.below(N_ALT);
                let which = if q < 2 { ai } else { drawn };
                let mut arng = rng.fork();
                let alt = alter(&mut arng, which, &base, &a, &b, &names, fmt).await;
                let id = sink.wants();
                if let (Some(id), Some((kind, resp, note))) = (id, alt) {
                    push_case(sink, id, &ctx, &kind, &resp, false, note);
                }
            }
        }
    }
}

// ---------------------------------------------------------------------------------------------
// stake distributions
struct Retr(StakeDistribution);
#[async_trait::async_trait]
impl StakeDistributionRetriever for Retr {
    async fn retrieve(&self, _epoch: Epoch) -> mithril_common::StdResult<Option<StakeDistribution>> {
        Ok(Some(self.0.clone()))
    }
}
fn sd_coq(d: &StakeDistribution) -> String {
    cq::list(&d.iter().map(|(k, v)| format!("({}, {})", cq::bytes(k.as_bytes()), cq::n(*v))).collect::<Vec<_>>())
}
fn sd_leaf_list(d: &StakeDistribution) -> Vec<Vec<u8>> {
    match CardanoStakeDistributionSignableBuilder::compute_merkle_tree_from_stake_distribution(d.clone()) {
        Ok(t) => t.leaves().iter().map(|l| l.to_vec()).collect(),
        Err(_) => vec![],
    }
}
/// chunk-wise concatenation of a leaf list: what the tree commits of two raw sibling leaves
fn pair_cat(l: &[Vec<u8>]) -> Vec<Vec<u8>> {
    l.chunks(2).map(|c| c.concat()).collect()
}
/// an entry (pool id, stake) whose leaf `id ++ decimal stake` is exactly `s`: the longest canonical digit run
fn sd_split(s: &str) -> Option<(String, u64)> {
    let nd = s.bytes().rev().take_while(|c| c.is_ascii_digit()).count();
    for take in (1..=nd).rev() {
        let (id, st) = s.split_at(s.len() - take);
        if id.is_empty() || (st.len() > 1 && st.starts_with('0')) {
            continue;
        }
        if let Ok(v) = st.parse::<u64>() {
            return Some((id.to_string(), v));
        }
    }
    None
}
/// a different distribution in which one pair of sibling leaves is re-cut (None when there is none): every
/// pair (the last first), every cut; a candidate is kept when the real builder's leaf list differs from
/// the signed one while the pairwise concatenations are equal
fn sd_boundary_move(signed: &StakeDistribution, start: usize) -> Option<StakeDistribution> {
    let ks: Vec<(String, u64)> = signed.iter().map(|(k, v)| (k.clone(), *v)).collect();
    let npairs = ks.len() / 2;
    let sl = sd_leaf_list(signed);
    for pi in (0..npairs).rev() {
        let (e1, e2) = (&ks[2 * pi], &ks[2 * pi + 1]);
        let l1 = format!("{}{}", e1.0, e1.1);
        let cat = format!("{}{}{}", l1, e2.0, e2.1);
        let cuts: Vec<usize> = (1..cat.len()).filter(|c| *c != l1.len() && cat.is_char_boundary(*c)).collect();
        for ci in 0..cuts.len() {
            let c = cuts[(ci + start) % cuts.len()];
            let (Some(a), Some(b)) = (sd_split(&cat[..c]), sd_split(&cat[c..])) else { continue };
            let mut d = signed.clone();
            d.remove(&e1.0);
            d.remove(&e2.0);
            if a.0 == b.0 || d.contains_key(&a.0) || d.contains_key(&b.0) {
                continue;
            }
            d.insert(a.0, a.1);
            d.insert(b.0, b.1);
            let ll = sd_leaf_list(&d);
            if ll != sl && pair_cat(&ll) == pair_cat(&sl) {
                return Some(d);
            }
        }
    }
    None
}
async fn explore_sd(sink: &mut Sink, rng: &mut Rng, thorough: bool) {
    let batches = if thorough { 400 } else { 60 };
    const AL: &[u8] = b"qpzry9x8gf2tvdw0s3jn54khce6mua7l";
    for _ in 0..batches {
        let n = rng.range(1, 8) as usize;
        let style = rng.below(3);
        let mut signed = StakeDistribution::new();
        for _ in 0..n {
            let len = match style {
                0 => 6,
                1 => rng.range(3, 9),
                _ => 51,
            } as usize;
            let mut id = String::from(if style == 2 { "pool1" } else { "p" });
            for _ in 0..len {
                id.push(*rng.pick(AL) as char);
            }
            let stake = match rng.below(5) {
                0 => rng.below(10),
                1 => rng.below(1000),
                2 => rng.below(1 << 40),
                3 => rng.next() >> 1,
                _ => 0,
            };
            signed.insert(id, stake);
        }
        let epoch = rng.below(600);
        // reports
        let mut reports: Vec<(String, StakeDistribution, u64)> = vec![("identical".into(), signed.clone(), epoch)];
        let keys: Vec<String> = signed.keys().cloned().collect();
        for _ in 0..(3 + rng.below(4)) {
            let mut d = signed.clone();
            let k = rng.pick(&keys).clone();
            let s = d[&k];
            let mut e = epoch;
            let kind = match rng.below(11) {
                9 | 10 => {
                    // known finding C11-raw-leaf-boundary on the stake-distribution tree: two sibling leaves
                    // (entries 2k, 2k+1 of the BTreeMap order) re-cut — same concatenation, other boundary
                    let start = rng.below(64);
                    if let Some(nd) = sd_boundary_move(&signed, start as usize) {
                        d = nd;
                    }
                    "sibling-boundary-moved"
                }
                0 => {
                    d.insert(k, s ^ (1 << rng.below(20)));
                    "stake-edited"
                }
                1 => {
                    d.remove(&k);
                    d.insert(format!("{}x", k), s);
                    "pool-renamed"
                }
                2 => {
                    d.remove(&k);
                    "pool-removed"
                }
                3 => {
                    d.insert(format!("p{}", rng.below(1000)), rng.below(1000));
                    "pool-added"
                }
                4 => {
                    e = epoch + 1 + rng.below(3);
                    "epoch-changed"
                }
                5 | 6 => {
                    // move the trailing digits of the identifier in front of the stake
                    let digits: String = k.chars().rev().take_while(|c| c.is_ascii_digit()).collect::<String>().chars().rev().collect();
                    if !digits.is_empty() && !digits.starts_with('0') {
                        let take = 1 + rng.below(digits.len() as u64) as usize;
                        let moved = &digits[digits.len() - take..];
                        let nk = k[..k.len() - take].to_string();
                        if let (Ok(ns), false, false) = (format!("{}{}", moved, s).parse::<u64>(), d.contains_key(&nk), moved.starts_with('0')) {
                            d.remove(&k);
                            d.insert(nk, ns);
                        }
                    }
                    "digits-moved-to-stake"
                }
                7 => {
                    // move leading digits of the stake to the end of the identifier
                    let ds = s.to_string();
                    if ds.len() >= 2 {
                        let take = 1 + rng.below(ds.len() as u64 - 1) as usize;
                        let rest = &ds[take..];
                        let nk = format!("{}{}", k, &ds[..take]);
                        if !rest.starts_with('0') && !d.contains_key(&nk) {
                            d.remove(&k);
                            d.insert(nk, rest.parse().unwrap());
                        }
                    }
                    "digits-moved-to-identifier"
                }
                _ => {
                    d.clear();
                    "empty"
                }
            };
            reports.push((kind.to_string(), d, e));
        }
        let id = sink.wants();
        let Some(id) = id else { continue };
        // ---- real code
        let sb = CardanoStakeDistributionSignableBuilder::new(Arc::new(Retr(signed.clone())));
        let signed_pm = sb.compute_protocol_message(Epoch(epoch)).await.expect("sd signable");
        let mut cert = CertificateMessage::dummy();
        cert.protocol_message = signed_pm.clone();
        cert.signed_message = signed_pm.compute_hash();
        let mb = MessageBuilder::new();
        let sroot = signed_pm.get_message_part(&ProtocolMessagePartKey::CardanoStakeDistributionMerkleRoot).cloned().unwrap();
        let mut roots = vec![sroot.clone()];
        let mut verdicts = vec![];
        let mut leaves_obs = vec![];
        let mut holds = true;
        let mut why = None;
        let mut known = None;
        let mut descs = vec![];
        for (kind, d, e) in &reports {
            let msg = CardanoStakeDistributionMessage { epoch: Epoch(*e), stake_distribution: d.clone(), ..CardanoStakeDistributionMessage::dummy() };
            let msg: CardanoStakeDistributionMessage = serde_json::from_str(&serde_json::to_string(&msg).unwrap()).unwrap();
            leaves_obs.push(coq::ol(&sd_leaf_list(d).iter().map(|l| coq::oln(&l.iter().map(|b| *b as u64).collect::<Vec<_>>())).collect::<Vec<_>>()));
            let r = hc::catch(std::panic::AssertUnwindSafe(|| mb.compute_cardano_stake_distribution_message(&cert, &msg)));
            let (v, matched) = match r {
                Some(Ok(pm)) => {
                    roots.push(pm.get_message_part(&ProtocolMessagePartKey::CardanoStakeDistributionMerkleRoot).cloned().unwrap());
                    let m = cert.match_message(&pm);
                    (coq::ol(&[coq::oz(0), coq::ob(m)]), m)
                }
                _ => {
                    roots.push("ERR".into());
                    (coq::ol(&[coq::oz(1)]), false)
                }
            };
            verdicts.push(v);
            descs.push(json!({"kind": kind, "epoch": e, "distribution": d, "message_matches": matched}));
            let same = *d == signed && *e == epoch;
            if matched && !same {
                holds = false;
                why = Some(format!("report '{}' {:?} (epoch {}) is accepted as the certified distribution {:?} (epoch {})", kind, d, e, signed, epoch));
                // the known class: the (pool id, stake) lists differ only by moving trailing digits between identifier and stake
                let (ll, sl) = (sd_leaf_list(d), sd_leaf_list(&signed));
                if *e == epoch && ll == sl {
                    known = Some("C11-stake-leaf-concatenation".to_string());
                } else if *e == epoch && ll.len() == sl.len() && pair_cat(&ll) == pair_cat(&sl) {
                    // known finding C11-raw-leaf-boundary: the leaf lists differ, but only by where the boundary
                    // inside sibling pairs (entries 2k, 2k+1) lies
                    known = Some(KNOWN_RAW.to_string());
                } else {
                    known = None;
                }
            } else if !matched && same && holds {
                holds = false;
                why = Some("the certified distribution itself is not accepted".into());
            }
        }
        // equality pattern of the roots
        let mut seen: Vec<String> = vec![];
        let pat: Vec<u64> = roots
            .iter()
            .map(|r| match seen.iter().position(|s| s == r) {
                Some(i) => i as u64,
                None => {
                    seen.push(r.clone());
                    seen.len() as u64 - 1
                }
            })
            .collect();
        let impl_obs = coq::ol(&[coq::ol(&leaves_obs), coq::ol(&verdicts), coq::oln(&pat)]);
        let model = format!(
            "C11.Model.run_sd {} {} {}",
            sd_coq(&signed),
            cq::n(epoch),
            cq::list(&reports.iter().map(|(_, d, e)| format!("({}, {})", sd_coq(d), cq::n(*e))).collect::<Vec<_>>())
        );
        let kinds: Vec<&str> = reports.iter().map(|r| r.0.as_str()).collect();
        sink.push(Case {
            id,
            kind: match known.as_deref() {
                Some(KNOWN_RAW) => "sd/sibling-boundary-collision".into(),
                Some(_) => "sd/digit-move-collision".into(),
                None => "sd/batch".into(),
            },
            desc: json!({"signed": signed, "epoch": epoch, "reports": descs}),
            model: Some(model),
            impl_obs,
            holds: Some(holds),
            why,
            known,
            nontrivial: signed.len() >= 2,
            key: format!("sd|{}|{:?}", signed.len(), kinds),
        });
    }
}

fn main() {
    let args = hc::parse_args();
    let mut sink = Sink::new(&args);
    let mut rng = Rng::new(args.seed ^ 0xC11C11);
    let work = PathBuf::from(std::env::var("VERIF_WORK").unwrap_or_else(|_| ".".into())).join("c11-tmp");
    let _ = std::fs::remove_dir_all(&work);
    std::fs::create_dir_all(&work).unwrap();
    let rt = tokio::runtime::Builder::new_multi_thread().worker_threads(4).enable_all().build().unwrap();
    let chains = if args.thorough { 16 } else { 4 };
    rt.block_on(async {
        let mut sd_rng = rng.fork();
        explore_sd(&mut sink, &mut sd_rng, args.thorough).await;
        for c in 0..chains {
            let mut crng = rng.fork();
            explore_chain(&mut sink, &mut crng, &work, c, args.thorough, false).await;
        }
        // sparse chains (single-leaf ranges, lone sibling pairs): the raw-boundary re-cuts one level up
        let sparse = if args.thorough { 4 } else { 1 };
        for c in 0..sparse {
            let mut crng = rng.fork();
            explore_chain(&mut sink, &mut crng, &work, chains + c, args.thorough, true).await;
        }
    });
    let _ = std::fs::remove_dir_all(&work);
    sink.finish();
}
