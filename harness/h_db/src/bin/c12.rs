//! C12 correspondence harness: the Cardano database digest depends only on the immutable files up
//! to the beacon.  Each case is a *batch* of scenarios over related directories, built on disk and
//! digested by the real `CardanoImmutableDigester` through `CardanoDatabaseSignableBuilder`, with
//! the real JSON / in-memory cache providers.  Observed: which scenarios fail and the equality
//! pattern of the Merkle roots of those that succeed.  The property is judged from the known
//! relation of every scenario to the batch's base scenario.
use hc::{coq, Case, Rng, Sink};
use mithril_cardano_node_internal_database::digesters::cache::{
    ImmutableFileDigestCacheProvider, JsonImmutableFileDigestCacheProvider,
    MemoryImmutableFileDigestCacheProvider,
};
use mithril_cardano_node_internal_database::digesters::{CardanoImmutableDigester, ImmutableDigester};
use mithril_cardano_node_internal_database::signable_builder::CardanoDatabaseSignableBuilder;
use mithril_common::entities::{CardanoDbBeacon, ProtocolMessagePartKey};
use mithril_common::signable_builder::SignableBuilder;
use std::path::{Path, PathBuf};
use std::sync::Arc;

#[derive(Clone, Debug)]
enum Kind {
    File(u64), // content id
    Dir,
}
#[derive(Clone, Debug)]
struct Entry {
    name: String,
    kind: Kind,
}
/// expected relation of a scenario's outcome to the base scenario (index 0)
#[derive(Clone, Copy, Debug, PartialEq)]
enum Expect {
    Base,
    Same,            // must succeed with the same root as the base
    Different,       // must fail, or succeed with a different root
    Unjudged,        // model validation only (e.g. malformed names, stale caches)
}
/// one earlier use of the cache provider: a Merkle tree at a beacon, or the digest list of a range
#[derive(Clone, Copy, Debug, PartialEq)]
enum Hop {
    Beacon(u64),
    Range(u64, u64),
}
impl Hop {
    fn coq(&self) -> String {
        match self {
            Hop::Beacon(b) => format!("HBeacon {}", coq::n(*b)),
            Hop::Range(lo, hi) => format!("HRange {} {}", coq::n(*lo), coq::n(*hi)),
        }
    }
}
#[derive(Clone, Debug)]
struct Scenario {
    label: &'static str,
    entries: Vec<Entry>, // in creation order
    beacon: u64,
    history: Vec<Hop>, // earlier computations with the same cache provider
    final_range: Option<(u64, u64)>, // after the root: the digest list served for this range, same provider
    json_cache: bool,
    expect: Expect,
}

fn content_bytes(id: u64) -> Vec<u8> {
    if id == 0 {
        return vec![]; // the empty file
    }
    let mut v = format!("immutable file content #{id}\n").into_bytes();
    // vary sizes: some files span several read buffers
    let extra = (id % 7) as usize * 3000;
    v.extend(std::iter::repeat((id % 251) as u8).take(extra));
    v
}

fn trio(n: u64) -> [String; 3] {
    [format!("{n:05}.chunk"), format!("{n:05}.primary"), format!("{n:05}.secondary")]
}

fn build_dir(root: &Path, entries: &[Entry]) -> PathBuf {
    let _ = std::fs::remove_dir_all(root);
    let imm = root.join("immutable");
    std::fs::create_dir_all(&imm).unwrap();
    // siblings the digester must not look at
    std::fs::create_dir_all(root.join("ledger")).unwrap();
    std::fs::write(root.join("ledger").join("00001.chunk"), b"not an immutable").unwrap();
    std::fs::write(root.join("protocolMagicId"), b"42").unwrap();
    for e in entries {
        match &e.kind {
            Kind::File(id) => std::fs::write(imm.join(&e.name), content_bytes(*id)).unwrap(),
            Kind::Dir => {
                std::fs::create_dir_all(imm.join(&e.name)).unwrap();
                std::fs::write(imm.join(&e.name).join("00001.chunk"), b"nested").unwrap();
            }
        }
    }
    root.to_path_buf()
}

fn logger() -> slog::Logger {
    slog::Logger::root(slog::Discard, slog::o!())
}

type RangeDigests = Option<Vec<(String, String)>>;
async fn range_digests(provider: Option<Arc<dyn ImmutableFileDigestCacheProvider>>, db: &Path, lo: u64, hi: u64) -> RangeDigests {
    let d = CardanoImmutableDigester::new(provider, logger());
    match d.compute_digests_for_range(&db, &(lo..=hi)).await {
        Ok(c) => Some(c.entries.into_iter().map(|(f, h)| (f.filename, h)).collect()),
        Err(_) => None,
    }
}
/// root, digest list of the final range with the scenario's cache, the same list computed cold
async fn run_scenario(dir: &Path, s: &Scenario) -> (Option<String>, Option<RangeDigests>, Option<RangeDigests>) {
    let db = build_dir(dir, &s.entries);
    let provider: Option<Arc<dyn ImmutableFileDigestCacheProvider>> = if s.history.is_empty() && !s.json_cache && s.final_range.is_none() {
        None
    } else if s.json_cache {
        Some(Arc::new(JsonImmutableFileDigestCacheProvider::new(&dir.join("cache.json"))))
    } else {
        Some(Arc::new(MemoryImmutableFileDigestCacheProvider::default()))
    };
    for h in &s.history {
        // a fresh digester per computation on the same provider: the cache is the only shared state
        let d = CardanoImmutableDigester::new(provider.clone(), logger());
        match h {
            Hop::Beacon(b) => {
                let _ = d.compute_merkle_tree(&db, &CardanoDbBeacon::new(1, *b)).await;
            }
            Hop::Range(lo, hi) => {
                let _ = d.compute_digests_for_range(&db, &(*lo..=*hi)).await;
            }
        }
    }
    let digester = Arc::new(CardanoImmutableDigester::new(provider.clone(), logger()));
    let builder = CardanoDatabaseSignableBuilder::new(digester, &db, logger());
    let root = match builder.compute_protocol_message(CardanoDbBeacon::new(1, s.beacon)).await {
        Ok(pm) => pm
            .get_message_part(&ProtocolMessagePartKey::CardanoDatabaseMerkleRoot)
            .cloned(),
        Err(_) => None,
    };
    let (mut warm, mut cold) = (None, None);
    if let Some((lo, hi)) = s.final_range {
        warm = Some(range_digests(provider.clone(), &db, lo, hi).await);
        cold = Some(range_digests(None, &db, lo, hi).await);
    }
    (root, warm, cold)
}

fn coq_entry(e: &Entry) -> String {
    let k = match &e.kind {
        Kind::File(id) => format!("KFile {}", coq::n(*id)),
        Kind::Dir => "KDir".to_string(),
    };
    format!("({}, {})", coq::bytes(e.name.as_bytes()), k)
}
fn coq_scenario(s: &Scenario) -> String {
    format!(
        "{{| sc_listing := {}; sc_beacon := {}; sc_history := {}; sc_range := {} |}}",
        coq::list(&s.entries.iter().map(coq_entry).collect::<Vec<_>>()),
        coq::n(s.beacon),
        coq::list(&s.history.iter().map(|h| h.coq()).collect::<Vec<_>>()),
        match s.final_range {
            Some((lo, hi)) => format!("Some ({}, {})", coq::n(lo), coq::n(hi)),
            None => "None".to_string(),
        }
    )
}

fn gen_batch(rng: &mut Rng, next_id: &mut u64) -> (String, Vec<Scenario>) {
    let mut fresh = |rng: &mut Rng| {
        *next_id += 1;
        // content id 0 is the empty file; used occasionally
        if rng.chance(1, 25) { 0 } else { *next_id }
    };
    let first = rng.range(0, 3);
    let ntrios = rng.range(1, 8);
    let last = first + ntrios - 1;
    let beacon = rng.range(first, last);
    let mut base: Vec<Entry> = vec![];
    for n in first..=last {
        for name in trio(n) {
            base.push(Entry { name, kind: Kind::File(fresh(rng)) });
        }
    }
    let covered: Vec<usize> = (0..base.len()).filter(|i| (first + (*i as u64) / 3) <= beacon).collect();
    let mut out = vec![Scenario { label: "base", entries: base.clone(), beacon, history: vec![], final_range: None, json_cache: false, expect: Expect::Base }];
    // creation order
    let mut shuffled = base.clone();
    rng.shuffle(&mut shuffled);
    out.push(Scenario { label: "shuffled-creation-order", entries: shuffled, beacon, history: vec![], final_range: None, json_cache: false, expect: Expect::Same });
    let mut rev = base.clone();
    rev.reverse();
    // extra files: non-immutable names, sub-directory with an immutable-looking name, files beyond the beacon
    let mut extra = rev;
    let junk = ["README.md", "00001.chunk.bak", ".chunk", "lock", "clean", "00002.Chunk", "00003.chunk~", "x.", "00004", "primary"];
    let picked: Vec<&str> = junk.iter().copied().filter(|_| rng.coin()).collect();
    for j in picked {
        extra.insert(rng.below(extra.len() as u64 + 1) as usize, Entry { name: j.to_string(), kind: Kind::File(fresh(rng)) });
    }
    extra.push(Entry { name: format!("{:05}.chunk", last + 7), kind: Kind::Dir });
    for n in (last + 1)..=(last + rng.range(0, 2)) {
        for name in trio(n) {
            extra.push(Entry { name, kind: Kind::File(fresh(rng)) });
        }
    }
    out.push(Scenario { label: "extra-and-beyond-beacon", entries: extra.clone(), beacon, history: vec![], final_range: None, json_cache: rng.coin(), expect: Expect::Same });
    // cache histories over the unchanged directory
    use Hop::{Beacon as HB, Range as HR};
    let hist_choices: Vec<Vec<Hop>> = vec![
        vec![HB(beacon)],
        vec![HB(beacon.saturating_sub(1).max(first))],
        vec![HB(last)],
        vec![HB(first), HB(last), HB(beacon)],
        vec![HB(last + 5), HB(first)],           // a failing earlier computation, then a shorter one
        vec![HB(beacon), HB(beacon)],
        vec![HR(first, last)],
        vec![HR(last, last), HB(last)],          // the cache is warm at the END only
        vec![HB(first), HR(last, last + 1), HB(last), HB(beacon)],   // warm with a hole in the middle
    ];
    for _ in 0..2 {
        let h = rng.pick(&hist_choices).clone();
        out.push(Scenario { label: "cache-history", entries: if rng.coin() { base.clone() } else { extra.clone() }, beacon, history: h, final_range: None, json_cache: rng.coin(), expect: Expect::Same });
    }
    // random histories of Merkle-tree and range computations (holes, overlaps, failing ones), then the
    // root at the beacon and the digest list of a random range, all on one provider
    for _ in 0..2 {
        let nh = rng.range(1, 4);
        let mut h = vec![];
        for _ in 0..nh {
            if rng.coin() {
                h.push(HB(rng.range(first, last + 1)));
            } else {
                let lo = rng.range(first.saturating_sub(1), last);
                h.push(HR(lo, rng.range(lo, last + 1)));
            }
        }
        let lo = rng.range(first, last);
        let fr = Some((lo, rng.range(lo, last + 1)));
        out.push(Scenario { label: "cache-history-with-ranges", entries: if rng.coin() { base.clone() } else { extra.clone() }, beacon, history: h, final_range: fr, json_cache: rng.coin(), expect: Expect::Same });
    }
    // perturbations, computed without a cache
    if !covered.is_empty() {
        let i = *rng.pick(&covered);
        let mut changed = base.clone();
        changed[i].kind = Kind::File(fresh(rng).max(1) + 1_000_000);
        out.push(Scenario { label: "covered-content-changed", entries: changed, beacon, history: vec![], final_range: None, json_cache: false, expect: Expect::Different });
        let mut removed = base.clone();
        removed.remove(i);
        out.push(Scenario { label: "covered-file-removed", entries: removed, beacon, history: vec![], final_range: None, json_cache: false, expect: Expect::Different });
        if covered.len() >= 2 {
            let j = *rng.pick(&covered);
            if j != i {
                let mut swapped = base.clone();
                let (a, b) = (swapped[i].kind.clone(), swapped[j].kind.clone());
                let differ = format!("{a:?}") != format!("{b:?}");
                swapped[i].kind = b;
                swapped[j].kind = a;
                out.push(Scenario { label: "two-covered-contents-swapped", entries: swapped, beacon, history: vec![], final_range: None, json_cache: false, expect: if differ { Expect::Different } else { Expect::Same } });
            }
        }
    }
    // a file beyond the beacon changed: no effect
    if beacon < last {
        let mut beyond = base.clone();
        let i = base.len() - 1 - rng.below(3) as usize;
        beyond[i].kind = Kind::File(fresh(rng).max(1) + 2_000_000);
        out.push(Scenario { label: "beyond-beacon-content-changed", entries: beyond, beacon, history: vec![], final_range: None, json_cache: false, expect: Expect::Same });
    }
    // model validation (not judged): the same contents under un-padded names whose numbers cross a
    // digit-length boundary (98, 99, 100, ...): ordering is by number, not by name, so the root is the base's
    {
        let shift = 99 - first.min(99) - rng.below(2);
        let twin: Vec<Entry> = base
            .iter()
            .enumerate()
            .map(|(i, e)| {
                let n = first + (i as u64) / 3 + shift;
                let ext = e.name.rsplit('.').next().unwrap();
                Entry { name: format!("{n}.{ext}"), kind: e.kind.clone() }
            })
            .collect();
        out.push(Scenario { label: "unpadded-twin-crossing-digit-boundary", entries: twin, beacon: beacon + shift, history: vec![], final_range: None, json_cache: false, expect: Expect::Unjudged });
    }
    // model-validation scenarios (not judged): unusual names, stale cache
    match rng.below(6) {
        0 => {
            let mut odd = base.clone();
            odd.push(Entry { name: format!("{}.chunk", beacon), kind: Kind::File(fresh(rng)) }); // un-padded duplicate number
            odd.push(Entry { name: format!("+{}.primary", beacon), kind: Kind::File(fresh(rng)) });
            out.push(Scenario { label: "unpadded-and-plus-names", entries: odd, beacon, history: vec![], final_range: None, json_cache: false, expect: Expect::Unjudged });
        }
        1 => {
            let mut bad = base.clone();
            bad.push(Entry { name: "abc.chunk".into(), kind: Kind::File(fresh(rng)) });
            out.push(Scenario { label: "non-numeric-stem", entries: bad, beacon, history: vec![], final_range: None, json_cache: false, expect: Expect::Unjudged });
        }
        2 => {
            let mut bad = base.clone();
            bad.push(Entry { name: "18446744073709551616.secondary".into(), kind: Kind::File(fresh(rng)) });
            bad.push(Entry { name: "18446744073709551615.secondary".into(), kind: Kind::File(fresh(rng)) });
            out.push(Scenario { label: "u64-overflow-stem", entries: bad, beacon, history: vec![], final_range: None, json_cache: false, expect: Expect::Unjudged });
        }
        3 => {
            let mut odd = base.clone();
            odd.push(Entry { name: "1.2.chunk".into(), kind: Kind::File(fresh(rng)) });
            out.push(Scenario { label: "dotted-stem", entries: odd, beacon, history: vec![], final_range: None, json_cache: false, expect: Expect::Unjudged });
        }
        4 => {
            out.push(Scenario { label: "beacon-beyond-last", entries: base.clone(), beacon: last + 1, history: vec![Hop::Beacon(last)], final_range: None, json_cache: false, expect: Expect::Unjudged });
        }
        _ => {
            let mut odd = base.clone();
            odd.push(Entry { name: "-1.chunk".into(), kind: Kind::File(fresh(rng)) });
            out.push(Scenario { label: "minus-stem", entries: odd, beacon, history: vec![], final_range: None, json_cache: false, expect: Expect::Unjudged });
        }
    }
    (format!("trios {first}..={last} beacon {beacon}"), out)
}

fn main() {
    let args = hc::parse_args();
    let mut rng = Rng::new(args.seed);
    let mut sink = Sink::new(&args);
    let work = PathBuf::from(std::env::var("VERIF_WORK").unwrap_or_else(|_| ".".into())).join("c12-dirs");
    let rt = tokio::runtime::Builder::new_multi_thread().worker_threads(4).enable_all().build().unwrap();
    let nbatches = if args.thorough { 1500 } else { 120 };
    let mut next_id = 10u64;
    for _ in 0..nbatches {
        let (label, scenarios) = gen_batch(&mut rng, &mut next_id);
        let Some(id) = sink.wants() else { continue };
        let results: Vec<(Option<String>, Option<RangeDigests>, Option<RangeDigests>)> = scenarios
            .iter()
            .enumerate()
            .map(|(k, s)| rt.block_on(run_scenario(&work.join(format!("b{id}-s{k}")), s)))
            .collect();
        let roots: Vec<Option<String>> = results.iter().map(|r| r.0.clone()).collect();
        // observation: success flags + per-scenario file names of the served range + equality pattern
        // of successful roots followed by every served digest
        let mut oks: Vec<&String> = roots.iter().flatten().collect();
        let mut range_obs: Vec<String> = vec![];
        for r in &results {
            match &r.1 {
                None => {}
                Some(None) => range_obs.push(coq::ol(&[coq::ob(false)])),
                Some(Some(l)) => {
                    range_obs.push(coq::ol(&[coq::ob(true), coq::ol(&l.iter().map(|(n, _)| coq::oln(&n.bytes().map(|b| b as u64).collect::<Vec<_>>())).collect::<Vec<_>>())]));
                    oks.extend(l.iter().map(|(_, d)| d));
                }
            }
        }
        let mut seen: Vec<&String> = vec![];
        let pattern: Vec<u64> = oks
            .iter()
            .map(|r| match seen.iter().position(|s| s == r) {
                Some(i) => i as u64,
                None => {
                    seen.push(r);
                    (seen.len() - 1) as u64
                }
            })
            .collect();
        let impl_obs = coq::ol(&[coq::ol(&roots.iter().map(|r| coq::ob(r.is_some())).collect::<Vec<_>>()), coq::ol(&range_obs), coq::oln(&pattern)]);
        // the property, judged from each scenario's known relation to the base
        let mut why = None;
        let base_root = roots[0].clone();
        if base_root.is_none() {
            why = Some("base scenario (complete directory, beacon present) failed".to_string());
        }
        for (s, res) in scenarios.iter().zip(&results) {
            // the digest list served with a used cache is the one served without any cache
            if why.is_none() && res.1 != res.2 {
                why = Some(format!("scenario `{}` (history {:?}, json_cache {}): digest list of range {:?} with the cache {:?} differs from the cache-less one {:?}", s.label, s.history, s.json_cache, s.final_range, res.1, res.2));
            }
        }
        for (s, r) in scenarios.iter().zip(&roots).skip(1) {
            if why.is_some() {
                break;
            }
            match s.expect {
                Expect::Same if *r != base_root => {
                    why = Some(format!("scenario `{}` (history {:?}, json_cache {}) gives {:?}, base gives {:?}", s.label, s.history, s.json_cache, r, base_root))
                }
                Expect::Different if r.is_some() && *r == base_root => {
                    why = Some(format!("scenario `{}` still gives the base root {:?}", s.label, r))
                }
                _ => {}
            }
        }
        let kind = scenarios.last().map(|s| s.label).unwrap_or("batch").to_string();
        let nontrivial = scenarios[0].entries.len() >= 6 && scenarios.iter().any(|s| s.expect == Expect::Different);
        sink.push(Case {
            id,
            kind,
            desc: serde_json::json!({
                "batch": label,
                "scenarios": scenarios.iter().map(|s| serde_json::json!({
                    "label": s.label, "beacon": s.beacon, "history": format!("{:?}", s.history), "final_range": format!("{:?}", s.final_range), "json_cache": s.json_cache,
                    "expect": format!("{:?}", s.expect),
                    "entries": s.entries.iter().map(|e| match &e.kind { Kind::File(c) => format!("{}=#{}", e.name, c), Kind::Dir => format!("{}/", e.name) }).collect::<Vec<_>>()
                })).collect::<Vec<_>>(),
                "roots": roots,
            }),
            model: Some(format!("C12.Model.run {}", coq::list(&scenarios.iter().map(coq_scenario).collect::<Vec<_>>()))),
            impl_obs,
            holds: Some(why.is_none()),
            why,
            known: None,
            nontrivial,
            key: format!("{label}/{}", scenarios.iter().map(|s| format!("{}:{}", s.label, s.entries.len())).collect::<Vec<_>>().join(",")),
        });
        for k in 0..scenarios.len() {
            let _ = std::fs::remove_dir_all(work.join(format!("b{id}-s{k}")));
        }
    }
    let _ = std::fs::remove_dir_all(&work);
    sink.finish();
}
