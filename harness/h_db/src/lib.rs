//! harness crate h_db (binaries in src/bin)
